//go:build verif

// Package c09 is the C09 driver (overlay-only package internal/zzverif/c09).
//
// Property: forwarded headers from untrusted peers never influence a decision.
//
// Implementation side: the REAL decision and proxy applications (assembly
// harness: real configuration loader, mechanisms, rule factory, repository,
// rule executor, the real middleware chain of decision/service.go and
// proxy/service.go) with generated `trusted_proxies` lists for BOTH services.
// Requests are raw HTTP/1.x bytes (arbitrary header-name casing, repeated
// headers, white space around values, bodies, Upgrade, HTTP/1.0, absolute-form
// targets) parsed by net/http exactly as its server does and served in-process
// with a chosen RemoteAddr (arbitrary peers: IPv4, IPv6, IPv4-mapped, zoned,
// unix socket, garbage); a smaller sub-stream goes over real loopback sockets
// from different 127.0.0.0/8 source addresses.
//
// Observables per request
//   - HTTP status, matched rule, the request view the pipeline sees (echoed by
//     a real `header` finalizer: method, scheme, host, path, raw path, query,
//     URL string, client address list, the COMPLETE Headers() map, Header(n)
//     probes), and in proxy mode what the echo upstream received (method, the
//     seven forwarding headers);
//   - the RAW observation: every response header and the body, the upstream
//     request line / Host / all headers / body, the captured zerolog output of
//     the application (access log, request dump at trace level).  It is used
//     for (a) the 2-safety pair: the same request WITHOUT the seven headers is
//     served too and every sink is compared, (b) the taint search: no
//     distinctive piece of a forwarded header value may occur in any sink.
//
// What is NOT taken from the code under test: the peer host (the driver's own
// net.SplitHostPort), the trusted_proxies lists (the strings written to the
// configuration file; that the loaded configuration carries the same lists is
// an extra compared bit), the "/" dispatch (done in the Coq model from the
// observed answers of net.ParseIP / net.ParseCIDR).
package c09

import (
	"bufio"
	"encoding/base64"
	"encoding/json"
	"fmt"
	"io"
	"net"
	"net/http"
	"net/url"
	"os"
	"path/filepath"
	"reflect"
	"sort"
	"strings"
	"testing"
	"time"

	"github.com/dadrus/heimdall/internal/zzverif/assembly"
	"github.com/dadrus/heimdall/internal/zzverif/vf"
)

var fwdNames = []string{
	"Forwarded", "X-Forwarded-For", "X-Forwarded-Proto", "X-Forwarded-Host",
	"X-Forwarded-Uri", "X-Forwarded-Path", "X-Forwarded-Method",
}

func isFwdName(name string) bool {
	for _, n := range fwdNames {
		if strings.EqualFold(name, n) {
			return true
		}
	}

	return false
}

// names that look like forwarding headers but are not among the seven: heimdall must neither strip nor honour them
var c09Alike = map[string][]string{
	"X-Forwarded-Port":         {"8443", "443"},
	"X-Forwarded-Prefix":       {"/pst", "/sec/a"},
	"X-Forwarded-Scheme":       {"https"},
	"X-Forwarded-Ssl":          {"on"},
	"X-Forwarded-Server":       {"evil-server.example.com"},
	"X-Forwarded-Protocol":     {"https"},
	"X-Forwarded":              {"for=7.7.7.7;proto=https"},
	"Forwarded-For":            {"7.7.7.7"},
	"X-Real-Ip":                {"7.7.7.7"},
	"X-Client-Ip":              {"7.7.7.8"},
	"X-Cluster-Client-Ip":      {"7.7.7.9"},
	"True-Client-Ip":           {"7.7.7.10"},
	"Cf-Connecting-Ip":         {"7.7.7.11"},
	"X-Original-Url":           {"/pst/a?o=1", "/sec/a"},
	"X-Original-Uri":           {"/pst/a"},
	"X-Rewrite-Url":            {"/sec/a"},
	"X-Original-Method":        {"POST"},
	"X-Http-Method-Override":   {"POST", "DELETE"},
	"X-Http-Method":            {"POST"},
	"X-Method-Override":        {"POST"},
	"X-Original-Host":          {"evil-orig.example.com"},
	"X-Host":                   {"evil-xhost.example.com"},
	"X-Original-Forwarded-For":  {"7.7.7.12"},
	"X-Original-Forwarded-Host": {"evil-xofh.example.com"},
	"X-Scheme":                 {"https"},
	"X-Url-Scheme":             {"https"},
	"Front-End-Https":          {"on"},
	"Via":                      {"1.1 evil-via"},
}

// ---------------------------------------------------------------- configuration and rules

const viewTemplate = `{{ dict "method" .Request.Method "scheme" .Request.URL.Scheme "host" .Request.URL.Host "path" .Request.URL.Path "rawpath" .Request.URL.RawPath "query" .Request.URL.RawQuery "url" .Request.URL.String "ips" .Request.ClientIPAddresses "hdrs" .Request.Headers "h0" (.Request.Header "forwarded") "h1" (.Request.Header "x-forwarded-for") "h2" (.Request.Header "X-Forwarded-Proto") "h3" (.Request.Header "X-FORWARDED-HOST") "h4" (.Request.Header "X-Forwarded-Uri") "h5" (.Request.Header "X-Forwarded-Path") "h6" (.Request.Header "X-Forwarded-Method") "hc" (.Request.Header "x-custom") | toJson | b64enc }}`

func c09Config(c c09Case) string {
	var sb strings.Builder

	sb.WriteString("serve:\n")

	for _, svc := range []struct {
		name string
		tp   *[]string
	}{{"decision", c.DecisionTP}, {"proxy", c.ProxyTP}} {
		sb.WriteString("  " + svc.name + ":\n    timeout:\n      read: 5s\n")

		if svc.tp != nil {
			b, _ := json.Marshal(*svc.tp)
			sb.WriteString("    trusted_proxies: " + string(b) + "\n")
		}
	}

	sb.WriteString("log:\n  level: " + c.LogLevel + "\n")

	sb.WriteString(`mechanisms:
  authenticators:
    - id: anon
      type: anonymous
  finalizers:
    - id: view
      type: header
      config:
        headers:
          X-V-Rule: none
`)

	return sb.String()
}

type c09Rule struct {
	ID, Path, Method, Scheme, Host string
}

// the fixed rule set: literal paths, one constraint each, all with backtracking
// to the catch-all rule "other"; "/" has its own rule (the catch-all does not match it)
var c09Rules = []c09Rule{
	{ID: "pub", Path: "/pub/a", Method: "GET"},
	{ID: "pst", Path: "/pst/a", Method: "POST"},
	{ID: "sec", Path: "/sec/a", Scheme: "https"},
	{ID: "hst", Path: "/hst/a", Host: "a.example.com"},
	{ID: "any", Path: "/any/a"},
	{ID: "root", Path: "/"},
	{ID: "other", Path: "/**"},
}

func c09RulesYAML(upstreamHost string) string {
	var sb strings.Builder

	sb.WriteString("version: \"1alpha4\"\nname: c09\nrules:\n")

	for _, r := range c09Rules {
		sb.WriteString("  - id: " + r.ID + "\n    match:\n      routes:\n        - path: " + r.Path + "\n")
		sb.WriteString("      backtracking_enabled: true\n")

		if r.Method != "" {
			sb.WriteString("      methods: [" + r.Method + "]\n")
		}

		if r.Scheme != "" {
			sb.WriteString("      scheme: " + r.Scheme + "\n")
		}

		if r.Host != "" {
			sb.WriteString("      hosts:\n        - type: exact\n          value: " + r.Host + "\n")
		}

		sb.WriteString("    forward_to:\n      host: " + upstreamHost + "\n      rewrite:\n        scheme: http\n")
		sb.WriteString("    execute:\n      - authenticator: anon\n      - finalizer: view\n        config:\n          headers:\n")
		sb.WriteString("            X-V-Rule: " + r.ID + "\n")
		sb.WriteString("            X-V: '" + viewTemplate + "'\n")
	}

	return sb.String()
}

// ---------------------------------------------------------------- generated inputs

type c09Hdr struct {
	Name  string `json:"n"`
	Value string `json:"v"`
}

type c09Req struct {
	Peer    string   `json:"peer"` // RemoteAddr
	TLS     bool     `json:"tls,omitempty"`
	Method  string   `json:"method"`
	Target  string   `json:"target"`
	Host    string   `json:"host"`
	Proto   string   `json:"proto,omitempty"` // "" = HTTP/1.1, "HTTP/1.0", "h2" (in-process: ProtoMajor 2 on the parsed request)
	Headers []c09Hdr `json:"headers"`
	Body    string   `json:"body,omitempty"`
	Socket  bool     `json:"socket,omitempty"` // sent over a real loopback connection
}

type c09Case struct {
	Proxy      bool      `json:"proxy"`
	DecisionTP *[]string `json:"decision_trusted_proxies"` // nil: option not set
	ProxyTP    *[]string `json:"proxy_trusted_proxies"`
	LogLevel   string    `json:"log_level"`
	Req        c09Req    `json:"req"`
}

func (c c09Case) own() []string {
	tp := c.DecisionTP
	if c.Proxy {
		tp = c.ProxyTP
	}

	if tp == nil {
		return nil
	}

	return *tp
}

var (
	c09SingleIPs = []string{
		"10.0.0.1", "10.1.2.3", "192.168.1.77", "127.0.0.1", "::1", "2001:db8::1", "fe80::1",
		"::ffff:10.0.0.1", "0:0:0:0:0:ffff:c0a8:014d", "8.8.8.8", "127.0.0.2",
	}
	c09CIDRs = []string{
		"10.0.0.0/8", "192.168.1.0/24", "10.1.2.3/32", "0.0.0.0/0", "2001:db8::/32", "::/0", "::ffff:0:0/96",
		"fe80::/10", "::ffff:10.0.0.0/104", "127.0.1.0/24", "10.0.0.1/31", "::1/128", "172.16.0.0/12",
	}
	c09Invalid = []string{
		"not-an-ip", "", "10.0.0.256", "fe80::1%eth0", "10.0.0.0/33", "/", "1.2.3.4/", " 10.0.0.1", "10.0.0.1 ",
		"localhost", "2001:db8::/129", "10.0.0.1:80", "[::1]", "*", "10.0.0", "::g", "10.0.0.1/", "/24", "::/-1",
		"0.0.0.0", "::", "10.0.0.0/8/8",
	}
	c09Peers = []string{
		"10.0.0.1:1234", "10.1.2.3:80", "192.168.1.77:5555", "[::1]:4444", "[2001:db8::1]:80", "[2001:db8::2]:80",
		"[fe80::1%eth0]:1234", "[::ffff:10.0.0.1]:99", "127.0.0.1:40000", "8.8.4.4:53", "172.16.5.5:1", "10.0.0.0:7",
		"[fe80::1]:1", "[::ffff:192.168.1.77]:2", "127.0.1.9:9",
	}
	c09BadPeers = []string{
		"@", "", "garbage", "10.0.0.1", "256.1.1.1:80", "[fe80::1%25eth0]:80", "::1:80", "localhost:80",
		"/var/run/heimdall.sock", "[not-an-ip]:80", "10.0.0.1:", ":80", "[]:80", "10.0.0.256:1", "[::1]", "[10.0.0.1]:80",
		"127.0.0.1", "[::1", "::1]:80", "0.0.0.0", "unix", "pipe",
	}
	c09Methods = []string{"GET", "GET", "POST", "POST", "PUT", "DELETE", "PATCH", "HEAD", "OPTIONS"}
	c09Hosts   = []string{"a.example.com", "b.example.com:8080", "heimdall.local"}
	c09Paths   = []string{"/pub/a", "/pst/a", "/sec/a", "/hst/a", "/any/a", "/other", "/x%20y", "/", "/pub/a/b"}
	c09Queries = []string{"", "", "x=1", "b=2&a=1", "q=a%20b"}

	c09Values = map[string][]string{
		"X-Forwarded-Proto": {"https", "http", "", "ftp", "HTTPS", "https, http", "https,http"},
		"X-Forwarded-Host": {
			"a.example.com", "evil.example.com", "admin.example.com:443", "", "A.example.com",
			"evil.example.com, a.example.com", "a.example.com,evil.example.com",
		},
		"X-Forwarded-Uri": {
			"/pub/a", "/pst/a?x=1", "/sec/a?b=2&a=1", "/hst/a", "/any/a", "?q=1", "/x%20y", "%zz", "",
			"http://other.example.com/pst/a?z=1", "//evil/path", "/a b", "/pub/a#frag", "/any/a?x=1;y=2", "any/a", "/sec/a?",
			"/hst/a?%zz=1", "*", "/",
			// url.Parse refuses these: used as received since fix: d3f6cd7
			"/pst/a%zz", "/a%2Fb%zz?x=1", "/any/a?q=%zz", "/sec/a%?y=2", "%zz?x=1",
		},
		"X-Forwarded-Path":   {"/pst/a", "/x", ""},
		"X-Forwarded-Method": {"POST", "GET", "DELETE", "", "get"},
		"X-Forwarded-For": {
			"1.1.1.1", "1.1.1.1, 2.2.2.2", "3.3.3.3 ,4.4.4.4", "", "unknown", ",", "a,,b", "2001:db8::9", "1.1.1.1,\t2.2.2.2 ",
		},
		"Forwarded": {
			"for=1.2.3.4", "for=1.2.3.4;proto=https;host=x, for=5.6.7.8", "For=9.9.9.9", "proto=https",
			`for="[2001:db8::1]:1234"`, "for=a ; for=b ,host=h", "", "for=", ";;", "by=x;for=y", "for=1.1.1.1,proto=http,for=2.2.2.2",
			"for = 1.1.1.1", "FOR=1.1.1.1;for=2.2.2.2",
		},
	}
)

// a value that carries a marker unique to the case (so that a leak is recognisable wherever it surfaces)
func c09Marked(r *vf.Rand, name, mk string) string {
	switch name {
	case "X-Forwarded-Proto":
		return vf.Pick(r, []string{mk, "https"})
	case "X-Forwarded-Host":
		return mk + ".evil.example.com"
	case "X-Forwarded-Uri":
		return vf.Pick(r, []string{"/pst/a?t=" + mk, "/" + mk, "/sec/a?" + mk + "=1", "/" + mk + "?x=1"})
	case "X-Forwarded-Path":
		return "/" + mk
	case "X-Forwarded-Method":
		return vf.Pick(r, []string{strings.ToUpper(mk), "POST"})
	case "X-Forwarded-For":
		return vf.Pick(r, []string{"1.1.1.1, " + mk, mk, mk + ", 2.2.2.2"})
	default:
		return vf.Pick(r, []string{"for=" + mk, "for=" + mk + ";proto=https;host=" + mk + ".example.com", "for=1.2.3.4, for=" + mk})
	}
}

func c09Casing(r *vf.Rand, name string) string {
	switch r.Intn(5) {
	case 0:
		return strings.ToLower(name)
	case 1:
		return strings.ToUpper(name)
	case 2:
		b := []byte(name)
		for i := range b {
			if r.Bool() {
				b[i] = strings.ToUpper(string(b[i]))[0]
			} else {
				b[i] = strings.ToLower(string(b[i]))[0]
			}
		}

		return string(b)
	}

	return name
}

func c09Pad(r *vf.Rand, v string) string {
	switch r.Intn(12) {
	case 0:
		return " " + v + " "
	case 1:
		return "\t" + v
	case 2:
		return v + " \t"
	}

	return v
}

// ---- addresses: a small universe so that entries, ranges and peers interact

func c09RandV4(r *vf.Rand) net.IP {
	switch r.Intn(4) {
	case 0:
		return net.IPv4(10, byte(r.Intn(3)), byte(r.Intn(3)), byte(r.Intn(256))).To4()
	case 1:
		return net.IPv4(192, 168, byte(r.Intn(3)), byte(r.Intn(256))).To4()
	case 2:
		return net.IPv4(127, 0, byte(r.Intn(3)), byte(r.Intn(8))).To4()
	}

	return net.IPv4(byte(r.Intn(224)), byte(r.Intn(256)), byte(r.Intn(256)), byte(r.Intn(256))).To4()
}

func c09RandV6(r *vf.Rand) net.IP {
	ip := make(net.IP, 16)

	switch r.Intn(4) {
	case 0:
		copy(ip, net.ParseIP("2001:db8::"))
		ip[5] = byte(r.Intn(3))
		ip[15] = byte(r.Intn(8))
	case 1:
		copy(ip, net.ParseIP("fe80::"))
		ip[15] = byte(r.Intn(8))
	case 2:
		copy(ip, net.ParseIP("::1"))
		ip[15] = byte(r.Intn(4))
	default:
		for i := range ip {
			ip[i] = byte(r.Intn(256))
		}

		ip[0] = 0x20
	}

	return ip
}

func c09IPText(r *vf.Rand, ip net.IP) string {
	if v4 := ip.To4(); v4 != nil && len(ip) == 4 {
		if r.Chance(15) {
			return "::ffff:" + v4.String()
		}

		return v4.String()
	}

	return ip.String()
}

func c09RandEntry(r *vf.Rand) string {
	switch k := r.Intn(100); {
	case k < 12:
		return vf.Pick(r, c09SingleIPs)
	case k < 24:
		return vf.Pick(r, c09CIDRs)
	case k < 40:
		return vf.Pick(r, c09Invalid)
	case k < 55:
		return c09IPText(r, c09RandV4(r))
	case k < 65:
		return c09RandV6(r).String()
	case k < 85:
		bits := vf.Pick(r, []int{0, 8, 12, 16, 20, 22, 23, 24, 25, 28, 30, 31, 32})
		if r.Chance(10) {
			return "::ffff:" + c09RandV4(r).String() + fmt.Sprintf("/%d", 96+bits)
		}

		return c09RandV4(r).String() + fmt.Sprintf("/%d", bits) // host bits may be set: ParseCIDR masks them
	default:
		bits := vf.Pick(r, []int{0, 10, 32, 33, 47, 48, 56, 64, 96, 104, 120, 126, 127, 128})

		return c09RandV6(r).String() + fmt.Sprintf("/%d", bits)
	}
}

func c09GenList(r *vf.Rand) *[]string {
	switch k := r.Intn(20); {
	case k < 2:
		return nil // option absent
	case k < 4:
		return &[]string{}
	case k < 14:
		n := r.Range(1, 4)
		out := make([]string, 0, n)

		for i := 0; i < n; i++ {
			out = append(out, c09RandEntry(r))
		}

		return &out
	}

	// a long list with neighbouring, nested and duplicate ranges
	n := r.Range(5, 30)
	out := make([]string, 0, n)
	base := c09RandV4(r)

	for i := 0; i < n; i++ {
		switch k := r.Intn(10); {
		case k < 4:
			ip := make(net.IP, 4)
			copy(ip, base)
			bits := vf.Pick(r, []int{23, 24, 25, 26, 28, 30, 32})
			ip[2] = base[2] + byte(r.Intn(3))
			ip[3] = byte(r.Intn(4)) << 6
			out = append(out, fmt.Sprintf("%s/%d", ip.String(), bits))
		case k < 5 && len(out) > 0:
			out = append(out, vf.Pick(r, out))
		default:
			out = append(out, c09RandEntry(r))
		}
	}

	return &out
}

func c09FlipBit(ip net.IP, bit int) {
	if bit >= 0 && bit < len(ip)*8 {
		ip[bit/8] ^= 0x80 >> (bit % 8)
	}
}

// a peer aimed at one entry of the list: inside it, or just outside it
func c09PeerFor(r *vf.Rand, entry, def string) string {
	inside := r.Chance(60)
	join := func(ip net.IP) string {
		if v4 := ip.To4(); v4 != nil && r.Chance(25) {
			return "[::ffff:" + v4.String() + "]:4711"
		}

		return net.JoinHostPort(ip.String(), "4711")
	}

	if strings.Contains(entry, "/") {
		_, n, err := net.ParseCIDR(entry)
		if err != nil {
			return def
		}

		ip := make(net.IP, len(n.IP))
		copy(ip, n.IP)

		for i := range ip { // random host bits
			ip[i] |= ^n.Mask[i] & byte(r.Intn(256))
		}

		if !inside {
			ones, _ := n.Mask.Size()
			switch {
			case ones == 0:
				return def
			case r.Chance(70):
				c09FlipBit(ip, ones-1) // the neighbouring range
			default:
				c09FlipBit(ip, r.Intn(ones))
			}
		}

		return join(ip)
	}

	ip := net.ParseIP(entry)
	if ip == nil {
		return vf.Pick(r, c09BadPeers)
	}

	if v4 := ip.To4(); v4 != nil {
		ip = v4
	}

	out := make(net.IP, len(ip))
	copy(out, ip)

	if !inside && r.Chance(25) {
		// the address whose text continues the entry's text
		return net.JoinHostPort(c09TextNeighbour(r, ip.String()), "4711")
	}

	if !inside {
		switch r.Intn(3) {
		case 0:
			out[len(out)-1] ^= 1
		case 1:
			c09FlipBit(out, len(out)*8-1-r.Intn(16))
		default: // same leading bits, different tail (a single address is not a range)
			for i := len(out) / 2; i < len(out); i++ {
				out[i] = byte(r.Intn(256))
			}
		}
	}

	return join(out)
}

func c09GenReq(r *vf.Rand, mk string) c09Req {
	q := c09Req{Method: vf.Pick(r, c09Methods), Host: vf.Pick(r, c09Hosts), TLS: r.Chance(12)}

	switch k := r.Intn(100); {
	case k < 18:
		q.Peer = vf.Pick(r, c09BadPeers)
	case k < 45:
		q.Peer = vf.Pick(r, c09Peers)
	case k < 75:
		q.Peer = net.JoinHostPort(c09RandV4(r).String(), fmt.Sprint(1024+r.Intn(60000)))
	default:
		q.Peer = net.JoinHostPort(c09RandV6(r).String(), fmt.Sprint(1024+r.Intn(60000)))
	}

	q.Target = vf.Pick(r, c09Paths)
	if qs := vf.Pick(r, c09Queries); qs != "" {
		q.Target += "?" + qs
	}

	switch k := r.Intn(100); {
	case k < 7:
		q.Proto = "HTTP/1.0"
	case k < 15:
		q.Proto = "h2"
	case k < 20: // absolute-form request target
		q.Target = "http://" + vf.Pick(r, c09Hosts) + q.Target
	}

	// density of forwarded headers: none / sparse / dense
	p := []int{0, 25, 45, 80}[r.Intn(4)]

	for _, name := range fwdNames {
		if !r.Chance(p) {
			continue
		}

		reps := 1
		if r.Chance(18) {
			reps = 2
		}

		for k := 0; k < reps; k++ {
			v := vf.Pick(r, c09Values[name])
			if r.Chance(40) {
				v = c09Marked(r, name, mk)
			}

			q.Headers = append(q.Headers, c09Hdr{c09Casing(r, name), c09Pad(r, v)})
		}
	}

	if r.Chance(35) { // look-alike names
		names := assembly.SortedKeys(c09Alike)

		for k := r.Range(1, 3); k > 0; k-- {
			n := vf.Pick(r, names)
			q.Headers = append(q.Headers, c09Hdr{c09Casing(r, n), vf.Pick(r, c09Alike[n])})
		}
	}

	if r.Chance(50) {
		q.Headers = append(q.Headers, c09Hdr{c09Casing(r, "X-Custom"), "c1"})
	}

	if r.Chance(20) {
		q.Headers = append(q.Headers, c09Hdr{"Cookie", "a=b"})
	}

	if r.Chance(6) {
		q.Headers = append(q.Headers, c09Hdr{"Upgrade", "websocket"}, c09Hdr{"Connection", "Upgrade"})
	} else if r.Chance(50) {
		q.Headers = append(q.Headers, c09Hdr{"Connection", "close"})
	}

	if (q.Method == "POST" || q.Method == "PUT" || q.Method == "PATCH") && r.Chance(50) {
		q.Body = vf.Pick(r, []string{`{"a":1}`, "x=1&y=2", "plain"})
		q.Headers = append(q.Headers, c09Hdr{"Content-Type", vf.Pick(r, []string{"application/json", "text/plain"})})
	}

	// shuffle
	for i := len(q.Headers) - 1; i > 0; i-- {
		j := r.Intn(i + 1)
		q.Headers[i], q.Headers[j] = q.Headers[j], q.Headers[i]
	}

	return q
}

func c09Raw(q c09Req, socket bool) string {
	var sb strings.Builder

	proto := "HTTP/1.1"
	if q.Proto == "HTTP/1.0" {
		proto = q.Proto
	}

	sb.WriteString(q.Method + " " + q.Target + " " + proto + "\r\nHost: " + q.Host + "\r\n")

	hasClose := false

	for _, h := range q.Headers {
		sb.WriteString(h.Name + ": " + h.Value + "\r\n")

		if strings.EqualFold(h.Name, "Connection") {
			hasClose = true
		}
	}

	if socket && !hasClose {
		sb.WriteString("Connection: close\r\n")
	}

	if q.Body != "" {
		sb.WriteString(fmt.Sprintf("Content-Length: %d\r\n", len(q.Body)))
	}

	sb.WriteString("\r\n" + q.Body)

	return sb.String()
}

// the header lines of the request as sent (what the Coq model starts from), Host excluded
func c09SentHeaders(q c09Req, socket bool) [][2]string {
	out := [][2]string{}
	hasClose := false

	for _, h := range q.Headers {
		out = append(out, [2]string{h.Name, h.Value})

		if strings.EqualFold(h.Name, "Connection") {
			hasClose = true
		}
	}

	if socket && !hasClose {
		out = append(out, [2]string{"Connection", "close"})
	}

	if q.Body != "" {
		out = append(out, [2]string{"Content-Length", fmt.Sprint(len(q.Body))})
	}

	return out
}

// the same request without the seven headers (the 2-safety partner)
func c09Baseline(c c09Case) c09Case {
	b := c
	b.Req.Headers = nil

	for _, h := range c.Req.Headers {
		if !isFwdName(h.Name) {
			b.Req.Headers = append(b.Req.Headers, h)
		}
	}

	return b
}

// ---------------------------------------------------------------- observation

type c09View struct {
	Method  string      `json:"method"`
	Scheme  string      `json:"scheme"`
	Host    string      `json:"host"`
	RawPath string      `json:"rawpath"`
	Query   string      `json:"query"`
	IPs     []string    `json:"ips"`
	Hdrs    [][2]string `json:"hdrs"`   // the complete Headers() map: key, joined values (sorted by key)
	Probes  [][2]string `json:"probes"` // Header(n) for the seven names (asked in assorted casings) where not empty
	OK      bool        `json:"ok"`     // Path == PathUnescape(RawPath), URL.String() is made of the components shown
}

type c09Up struct {
	Method string     `json:"method"`
	Hdrs   [][]string `json:"hdrs"` // the seven names present at the upstream: name, values... (lists canonicalised, see c09CanonList)
}

type c09Obs struct {
	Status int      `json:"status"`
	Rule   string   `json:"rule"`
	View   *c09View `json:"view,omitempty"`
	Up     *c09Up   `json:"up,omitempty"`
	Leaks  []string `json:"leaks"` // sinks in which a distinctive piece of a forwarded header value surfaced
	Pair   []string `json:"pair"`  // sinks that differ from the same request without the seven headers
	Err    string   `json:"err,omitempty"`
}

// everything observable about one served request, as text per sink
type c09RawObs struct {
	obs   c09Obs
	sinks map[string]string
}

func c09DecodeView(raw []byte) (*c09View, error) {
	var v struct {
		Method, Scheme, Host, Path, Rawpath, Query, URL string
		IPs                                             []string          `json:"ips"`
		Hdrs                                            map[string]string `json:"hdrs"`
		H0, H1, H2, H3, H4, H5, H6, Hc                  string
	}

	if err := json.Unmarshal(raw, &v); err != nil {
		return nil, err
	}

	out := &c09View{Method: v.Method, Scheme: v.Scheme, Host: v.Host, RawPath: v.Rawpath, Query: v.Query, IPs: v.IPs, OK: true}
	if out.IPs == nil {
		out.IPs = []string{}
	}

	if p, _ := url.PathUnescape(v.Rawpath); p != v.Path {
		out.OK = false
	}

	// the URL string the pipeline can print must be made of the same components
	if want := (&url.URL{Scheme: v.Scheme, Host: v.Host, Path: v.Path, RawPath: v.Rawpath, RawQuery: v.Query}).String(); want != v.URL {
		out.OK = false
	}

	single := []string{v.H0, v.H1, v.H2, v.H3, v.H4, v.H5, v.H6}

	for i, n := range fwdNames {
		if single[i] != "" {
			out.Probes = append(out.Probes, [2]string{n, single[i]})
		}
	}

	_ = v.Hc

	for _, k := range assembly.SortedKeys(v.Hdrs) {
		out.Hdrs = append(out.Hdrs, [2]string{k, v.Hdrs[k]})
	}

	return out, nil
}

// "a , b,c" -> "a, b, c": the separators of a comma separated header value do not count
func c09CanonList(v string) string {
	parts := strings.Split(v, ",")
	for i := range parts {
		parts[i] = strings.TrimSpace(parts[i])
	}

	return strings.Join(parts, ", ")
}

// the last element of a Forwarded value written as for=..;host=..;proto=.. without quotes when it
// consists of exactly these three parameters (any order, any case of the names, quoted or not)
func c09CanonForwarded(v string) string {
	parts := strings.Split(v, ",")
	last := strings.TrimSpace(parts[len(parts)-1])
	params := map[string]string{}

	for _, p := range strings.Split(last, ";") {
		k, val, ok := strings.Cut(strings.TrimSpace(p), "=")
		if !ok {
			return c09CanonList(v)
		}

		val = strings.TrimSpace(val)
		if len(val) >= 2 && val[0] == '"' && val[len(val)-1] == '"' {
			val = val[1 : len(val)-1]
		}

		params[strings.ToLower(strings.TrimSpace(k))] = val
	}

	if len(params) != 3 {
		return c09CanonList(v)
	}

	f, ok1 := params["for"]
	h, ok2 := params["host"]
	p, ok3 := params["proto"]

	if !ok1 || !ok2 || !ok3 {
		return c09CanonList(v)
	}

	parts[len(parts)-1] = "for=" + f + ";host=" + h + ";proto=" + p

	return c09CanonList(strings.Join(parts, ","))
}

func c09UpOf(rec assembly.Recorded) *c09Up {
	up := &c09Up{Method: rec.Method}

	for _, n := range fwdNames {
		vs, ok := rec.Header[n]
		if !ok {
			continue
		}

		row := []string{n}

		for _, v := range vs {
			switch n {
			case "Forwarded":
				v = c09CanonForwarded(v)
			case "X-Forwarded-For":
				v = c09CanonList(v)
			}

			row = append(row, v)
		}

		up.Hdrs = append(up.Hdrs, row)
	}

	return up
}

func c09HeaderText(h map[string][]string, skip ...string) string {
	var sb strings.Builder

outer:
	for _, k := range assembly.SortedKeys(h) {
		for _, s := range skip {
			if k == s {
				continue outer
			}
		}

		for _, v := range h[k] {
			sb.WriteString(k + ": " + v + "\n")
		}
	}

	return sb.String()
}

// log lines of the application written while the request was served, volatile fields removed
type c09Log struct {
	f   *os.File
	off int64
}

func (l *c09Log) take() []map[string]any {
	if l == nil || l.f == nil {
		return nil
	}

	st, err := l.f.Stat()
	if err != nil || st.Size() <= l.off {
		return nil
	}

	buf := make([]byte, st.Size()-l.off)
	n, _ := l.f.ReadAt(buf, l.off)
	l.off += int64(n)

	var out []map[string]any

	for _, line := range strings.Split(string(buf[:n]), "\n") {
		if !strings.HasPrefix(line, "{") {
			continue
		}

		m := map[string]any{}
		if json.Unmarshal([]byte(line), &m) != nil {
			continue
		}

		for _, k := range []string{"timestamp", "_tx_start", "_tx_duration_ms", "host", "version"} {
			delete(m, k)
		}

		out = append(out, m)
	}

	return out
}

func c09LogText(lines []map[string]any, forPair bool) string {
	var sb strings.Builder

	for _, m := range lines {
		msg, _ := m["short_message"].(string)

		if forPair {
			// only lines without run-dependent content take part in the pair comparison
			if !(msg == "TX started" || msg == "TX finished" || msg == "Forwarding request" || strings.HasPrefix(msg, "Request: ")) {
				continue
			}
		}

		b, _ := json.Marshal(m)
		sb.Write(b)
		sb.WriteByte('\n')
	}

	return sb.String()
}

func c09Finish(ro *c09RawObs, c c09Case, status int, respHdr http.Header, respBody string, seen []assembly.Recorded, logs []map[string]any) {
	o := &ro.obs
	o.Status = status
	sinks := ro.sinks
	sinks["status"] = fmt.Sprint(status)

	var (
		enc string
		rec *assembly.Recorded
	)

	if c.Proxy {
		switch len(seen) {
		case 0:
		case 1:
			rec = &seen[0]
			o.Up = c09UpOf(seen[0])
			o.Rule = seen[0].Get("X-V-Rule")
			enc = seen[0].Get("X-V")
		default:
			o.Err = fmt.Sprintf("upstream saw %d requests", len(seen))
		}
	} else {
		o.Rule = respHdr.Get("X-V-Rule")
		enc = respHdr.Get("X-V")
	}

	sinks["rule"] = o.Rule

	viewJSON := ""

	if enc != "" {
		if raw, err := base64.StdEncoding.DecodeString(enc); err != nil {
			o.Err = "view: " + err.Error()
		} else if v, err := c09DecodeView(raw); err != nil {
			o.Err = "view: " + err.Error()
		} else {
			o.View = v
			viewJSON = string(raw)
		}
	}

	plain := func(s string) string { // the echoed view is base64 wherever it travels: make it searchable
		if enc == "" {
			return s
		}

		return strings.ReplaceAll(s, enc, viewJSON)
	}

	sinks["view"] = viewJSON
	sinks["resp.headers"] = plain(c09HeaderText(respHdr, "Date", "Content-Length"))

	if c.Proxy {
		// the echo upstream answers with what it received, incl. the address heimdall connected from
		var m map[string]any
		if json.Unmarshal([]byte(respBody), &m) == nil {
			delete(m, "remote_addr")
			b, _ := json.Marshal(m)
			respBody = string(b)
		}
	}

	sinks["resp.body"] = plain(respBody)

	if rec != nil {
		sinks["up.line"] = rec.Method + " " + rec.RequestURI + " " + rec.Proto
		sinks["up.host"] = rec.Host
		sinks["up.headers"] = plain(c09HeaderText(rec.Header))
		sinks["up.body"] = rec.Body
	}

	sinks["log"] = plain(c09LogText(logs, false))
	sinks["log.pair"] = plain(c09LogText(logs, true))
}

func c09ObserveHandler(app *assembly.HandlerApp, up *assembly.Upstream, lg *c09Log, c c09Case) c09RawObs {
	ro := c09RawObs{sinks: map[string]string{}}

	req, err := assembly.ParseRaw(c09Raw(c.Req, false), c.Req.Peer, c.Req.TLS)
	if err != nil {
		ro.obs = c09Obs{Status: -1, Err: "parse: " + err.Error()}

		return ro
	}

	if c.Req.Proto == "h2" {
		req.Proto, req.ProtoMajor, req.ProtoMinor = "HTTP/2.0", 2, 0
	}

	up.Take()
	lg.take()

	rec := app.Serve(req)
	body, _ := io.ReadAll(rec.Result().Body)

	c09Finish(&ro, c, rec.Code, rec.Header(), string(body), up.Take(), lg.take())

	return ro
}

func c09ObserveSocket(app *assembly.ListeningApp, up *assembly.Upstream, lg *c09Log, c c09Case) c09RawObs {
	ro := c09RawObs{sinks: map[string]string{}}

	up.Take()
	lg.take()

	local, _, _ := net.SplitHostPort(c.Req.Peer)

	out, err := app.RawRequestFrom(local, c09Raw(c.Req, true), 5*time.Second)
	if err != nil {
		ro.obs = c09Obs{Status: -1, Err: "socket: " + err.Error()}

		return ro
	}

	resp, err := http.ReadResponse(bufio.NewReader(strings.NewReader(out)), &http.Request{Method: c.Req.Method})
	if err != nil {
		ro.obs = c09Obs{Status: -1, Err: "response: " + err.Error()}

		return ro
	}
	defer resp.Body.Close()

	body, _ := io.ReadAll(resp.Body)

	time.Sleep(2 * time.Millisecond) // "TX finished" is written after the response

	c09Finish(&ro, c, resp.StatusCode, resp.Header, string(body), up.Take(), lg.take())

	return ro
}

// distinctive pieces of the forwarded header values of a request
func c09Pieces(q c09Req) []string {
	seen := map[string]bool{}
	out := []string{}

	add := func(s string) {
		s = strings.ToLower(strings.TrimSpace(s))
		if len(s) >= 5 && !seen[s] {
			seen[s] = true
			out = append(out, s)
		}
	}

	for _, h := range q.Headers {
		if !isFwdName(h.Name) {
			continue
		}

		add(h.Value)

		for _, p := range strings.FieldsFunc(h.Value, func(r rune) bool { return strings.ContainsRune(",;?&= \t\"", r) }) {
			add(p)
		}
	}

	return out
}

var c09PairSinks = []string{"status", "rule", "view", "resp.headers", "resp.body", "up.line", "up.host", "up.headers", "up.body", "log.pair"}
var c09LeakSinks = []string{"view", "resp.headers", "resp.body", "up.line", "up.host", "up.headers", "up.body", "log"}

// pair: sinks that differ between the request and its partner without the seven headers;
// leaks: sinks of the request that contain a distinctive piece of a forwarded value which the partner's does not
func c09Compare(full, base c09RawObs, q c09Req) (pair, leaks []string) {
	pair, leaks = []string{}, []string{}

	for _, s := range c09PairSinks {
		if full.sinks[s] != base.sinks[s] {
			pair = append(pair, s)
		}
	}

	pieces := c09Pieces(q)

	for _, s := range c09LeakSinks {
		f, b := strings.ToLower(full.sinks[s]), strings.ToLower(base.sinks[s])

		for _, p := range pieces {
			if strings.Contains(f, p) && !strings.Contains(b, p) {
				leaks = append(leaks, s)

				break
			}
		}
	}

	return pair, leaks
}

// ---------------------------------------------------------------- Gallina rendering (with the parsing oracles)

// frequent strings are written as the constants q<i> of Run/Eval_C09.v (the Coq parser is slow on string
// literals); lib/props_C09.py checks on every run that both lists agree
var c09AliasIdx = func() map[string]int {
	m := map[string]int{}
	for i, s := range c09Aliases() {
		if _, dup := m[s]; !dup {
			m[s] = i
		}
	}

	return m
}()

func c09Aliases() []string {
	out := []string{}
	add := func(xs ...string) { out = append(out, xs...) }

	for _, n := range fwdNames {
		add(n, strings.ToLower(n), strings.ToUpper(n))
	}

	for _, n := range assembly.SortedKeys(c09Alike) {
		add(n, strings.ToLower(n), strings.ToUpper(n))
		add(c09Alike[n]...)
	}

	add("Host", "X-Custom", "x-custom", "X-CUSTOM", "c1", "Cookie", "a=b", "Connection", "close", "Upgrade", "websocket",
		"Content-Type", "Content-Length", "application/json", "text/plain", "http", "https")
	add(c09Methods...)
	add(c09Hosts...)
	add(c09Paths...)
	add(c09Queries...)

	for _, n := range fwdNames {
		add(c09Values[n]...)
	}

	for _, r := range c09Rules {
		add(r.ID)
	}

	add(c09PairSinks...)
	add(c09LeakSinks...)

	// no duplicates, no empty string, nothing that needs byte escapes
	seen := map[string]bool{"": true}
	uniq := []string{}

	for _, s := range out {
		ok := !seen[s]
		for i := 0; i < len(s); i++ {
			if s[i] < 32 || s[i] > 126 || s[i] == '"' {
				ok = false
			}
		}

		if ok {
			seen[s] = true
			uniq = append(uniq, s)
		}
	}

	return uniq
}

func c09Str(s string) string {
	if i, ok := c09AliasIdx[s]; ok {
		return fmt.Sprintf("q%d", i)
	}

	return vf.CoqStr(s)
}

func c09Strs(xs []string) string { return vf.CoqListOf(xs, c09Str) }

// TestVerifC09Aliases prints the alias list (one JSON string per line) for lib/props_C09.py
func TestVerifC09Aliases(t *testing.T) {
	if os.Getenv("VERIF_C09_ALIASES") == "" {
		t.Skip()
	}

	f, err := os.Create(os.Getenv("VERIF_C09_ALIASES"))
	if err != nil {
		t.Fatal(err)
	}
	defer f.Close()

	for _, s := range c09Aliases() {
		b, _ := json.Marshal(s)
		f.Write(append(b, '\n'))
	}
}

func coqBytes(b []byte) string {
	items := make([]string, len(b))
	for i, x := range b {
		items[i] = fmt.Sprintf("%d", x)
	}

	return "[" + strings.Join(items, ";") + "]%N"
}

// the answers of net.ParseIP and net.ParseCIDR on one string
func c09CoqNetRow(s string) string {
	cidr := "None"
	if _, n, err := net.ParseCIDR(s); err == nil {
		cidr = "(Some " + vf.CoqPair(coqBytes(n.IP), coqBytes(n.Mask)) + ")"
	}

	return vf.CoqPair(c09Str(s), vf.CoqPair(coqBytes(net.ParseIP(s)), cidr))
}

type c09Oracle struct {
	split    *string // net.SplitHostPort(RemoteAddr): the host; nil on error
	peerHost string
	peerIP   net.IP
	escPath  string
	rawQuery string
	method   string
	host     string
	sent     [][2]string // header lines as sent
	parsed   [][2]string // net/http's parse: canonical key, value (sorted by key, arrival order per key)
	uri      *[3]string // url.Parse(X-Forwarded-Uri): EscapedPath(), Query().Encode(), RawQuery; nil: does not parse
	parseErr string
}

func c09OracleOf(c c09Case) c09Oracle {
	o := c09Oracle{}

	req, err := assembly.ParseRaw(c09Raw(c.Req, c.Req.Socket), c.Req.Peer, c.Req.TLS)
	if err != nil {
		o.parseErr = err.Error()

		return o
	}

	// the peer host by the driver's own reading of RemoteAddr (NOT httpx.IPFromHostPort, which is code under test)
	if h, _, err := net.SplitHostPort(c.Req.Peer); err == nil {
		o.split = &h
		o.peerHost = h
	}

	o.peerIP = net.ParseIP(o.peerHost)
	o.escPath = req.URL.EscapedPath()
	o.rawQuery = req.URL.RawQuery
	o.method = req.Method
	o.host = req.Host
	o.sent = c09SentHeaders(c.Req, c.Req.Socket)

	for _, k := range assembly.SortedKeys(req.Header) {
		for _, v := range req.Header[k] {
			o.parsed = append(o.parsed, [2]string{k, v})
		}
	}

	if val := req.Header.Get("X-Forwarded-Uri"); val != "" {
		if u, err := url.Parse(val); err == nil {
			o.uri = &[3]string{u.EscapedPath(), u.Query().Encode(), u.RawQuery}
		}
	}

	return o
}

func c09CoqPairs(ps [][2]string) string {
	return vf.CoqListOf(ps, func(p [2]string) string { return vf.CoqPair(c09Str(p[0]), c09Str(p[1])) })
}

func c09CoqObs(o c09Obs) string {
	view := "None"
	if o.View != nil {
		v := o.View
		view = "(Some " + vf.CoqApp("vw", c09Str(v.Method), c09Str(v.Scheme), c09Str(v.Host), c09Str(v.RawPath),
			c09Str(v.Query), c09Strs(v.IPs), c09CoqPairs(v.Hdrs), c09CoqPairs(v.Probes), vf.CoqBool(v.OK)) + ")"
	}

	up := "None"
	if o.Up != nil {
		hs := vf.CoqListOf(o.Up.Hdrs, func(h []string) string { return vf.CoqPair(c09Str(h[0]), c09Strs(h[1:])) })
		up = "(Some " + vf.CoqApp("upv", c09Str(o.Up.Method), hs) + ")"
	}

	return vf.CoqApp("ob", vf.CoqZ(int64(o.Status)), c09Str(o.Rule), view, up, c09Strs(o.Leaks), c09Strs(o.Pair))
}

func c09CoqOptList(l *[]string) string {
	if l == nil {
		return "None"
	}

	return "(Some " + c09Strs(*l) + ")"
}

func c09Coq(c c09Case, loadedOK bool, or c09Oracle, o c09Obs) string {
	uri := "None"
	if or.uri != nil {
		uri = "(Some " + vf.CoqPair(vf.CoqPair(c09Str(or.uri[0]), c09Str(or.uri[1])), c09Str(or.uri[2])) + ")"
	}

	split := "None"
	if or.split != nil {
		split = "(Some " + c09Str(*or.split) + ")"
	}

	mode := "Decision"
	if c.Proxy {
		mode = "Proxy"
	}

	// the net package's answers for every string the model may ask about
	asked := append([]string{or.peerHost, ""}, c.own()...)
	seen := map[string]bool{}
	rows := []string{}

	for _, s := range asked {
		if !seen[s] {
			seen[s] = true
			rows = append(rows, c09CoqNetRow(s))
		}
	}

	req := vf.CoqApp("rq", c09Str(c.Req.Peer), vf.CoqBool(c.Req.TLS), c09Str(or.method), c09Str(or.host),
		c09Str(or.escPath), c09Str(or.rawQuery))

	return vf.CoqApp("cs", mode, vf.CoqApp("cf", c09CoqOptList(c.DecisionTP), c09CoqOptList(c.ProxyTP)), vf.CoqBool(loadedOK),
		vf.CoqList(rows), split, req, c09CoqPairs(or.sent), c09CoqPairs(or.parsed), uri, c09CoqObs(o))
}

// ---------------------------------------------------------------- classification (input histogram, non-triviality)

func c09Tags(c c09Case, or c09Oracle, o c09Obs) ([]string, bool) {
	tags := []string{}
	add := func(s string) { tags = append(tags, s) }

	if c.Proxy {
		add("mode:proxy")
	} else {
		add("mode:decision")
	}

	if c.Req.Socket {
		add("transport:socket")
	} else {
		add("transport:inprocess")
	}

	add("log:" + c.LogLevel)

	// trust, computed with the real net package independently of heimdall (for the histogram only)
	covers := func(list []string) bool {
		for _, e := range list {
			if strings.Contains(e, "/") {
				if _, n, err := net.ParseCIDR(e); err == nil && or.peerIP != nil && n.Contains(or.peerIP) {
					return true
				}
			} else if ip := net.ParseIP(e); ip != nil && or.peerIP != nil && ip.Equal(or.peerIP) {
				return true
			}
		}

		return false
	}

	trusted := c.own()
	isTrusted := covers(trusted)
	hasBadEntry := false
	kinds := map[string]bool{}

	for _, e := range trusted {
		switch {
		case strings.Contains(e, "/"):
			if _, _, err := net.ParseCIDR(e); err == nil {
				kinds["entry:cidr"] = true
			} else {
				kinds["entry:bad-cidr"] = true
			}
		case net.ParseIP(e) != nil:
			kinds["entry:ip"] = true
		default:
			kinds["entry:bad-ip"] = true
			hasBadEntry = true
		}
	}

	for k := range kinds {
		add(k)
	}

	switch n := len(trusted); {
	case n == 0 && ((c.Proxy && c.ProxyTP == nil) || (!c.Proxy && c.DecisionTP == nil)):
		add("list:absent")
	case n == 0:
		add("list:empty")
	case n <= 4:
		add("list:1-4")
	default:
		add("list:5-30")
	}

	other := c.ProxyTP
	if c.Proxy {
		other = c.DecisionTP
	}

	if other != nil && covers(*other) && !isTrusted {
		add("site:listed-by-the-other-service-only")
	}

	switch {
	case or.split == nil:
		add("peer:no-host-port")
	case or.peerIP == nil:
		add("peer:unparsable-host")
	case or.peerIP.To4() != nil && strings.Contains(or.peerHost, ":"):
		add("peer:v4-mapped")
	case or.peerIP.To4() != nil:
		add("peer:v4")
	default:
		add("peer:v6")
	}

	if or.peerIP == nil && hasBadEntry {
		add("site:F1-bad-entry-and-bad-peer")
	}

	nf, alike := 0, 0
	repeated, oddCase := false, false
	count := map[string]int{}

	for _, h := range c.Req.Headers {
		cn := http.CanonicalHeaderKey(h.Name)

		if _, ok := c09Alike[cn]; ok {
			alike++
		}

		if !isFwdName(cn) {
			continue
		}

		nf++
		count[cn]++

		if count[cn] > 1 {
			repeated = true
		}

		if h.Name != cn {
			oddCase = true
		}

		add("hdr:" + cn)
	}

	add(fmt.Sprintf("fwd-headers:%d", min(nf, 5)))

	if alike > 0 {
		add("hdr:look-alike")
	}

	if repeated {
		add("hdr:repeated")
	}

	if oddCase {
		add("hdr:odd-casing")
	}

	if isTrusted {
		add("trust:trusted")
	} else {
		add("trust:untrusted")
	}

	if c.Req.TLS {
		add("conn:tls")
	}

	add("method:" + c.Req.Method)

	switch {
	case c.Req.Proto != "":
		add("proto:" + c.Req.Proto)
	case strings.HasPrefix(c.Req.Target, "http://"):
		add("target:absolute-form")
	}

	if c.Req.Body != "" {
		add("req:body")
	}

	for _, h := range c.Req.Headers {
		if h.Name == "Upgrade" {
			add("req:upgrade")
		}
	}

	add(fmt.Sprintf("status:%d", o.Status))

	if o.Rule != "" {
		add("rule:" + o.Rule)
	}

	if o.View == nil {
		add("view:none")
	}

	if len(o.Pair) > 0 {
		add("pair:differs")
	} else {
		add("pair:equal")
	}

	if len(o.Leaks) > 0 {
		add("taint:surfaced")
	}

	if nf > 0 && !isTrusted {
		add("site:strip")
	}

	if nf > 0 && isTrusted {
		add("site:extract-from-headers")
	}

	if c.Proxy && o.Up != nil {
		add("site:rewriteRequest-forwarded-block")
	}

	// non-trivial: at least one forwarded header present (so stripping / overriding has something to do)
	return tags, nf > 0
}

// ---------------------------------------------------------------- corpus

func c09Corpus() []c09Case {
	h := func(kv ...string) []c09Hdr {
		out := []c09Hdr{}
		for i := 0; i+1 < len(kv); i += 2 {
			out = append(out, c09Hdr{kv[i], kv[i+1]})
		}

		return out
	}
	l := func(s ...string) *[]string { return &s }
	spoof := h("X-Forwarded-Method", "POST", "X-Forwarded-Uri", "/pst/a?x=1", "X-Forwarded-Host", "evil.example.com",
		"X-Forwarded-Proto", "https", "X-Forwarded-For", "1.1.1.1", "Forwarded", "for=6.6.6.6", "X-Forwarded-Path", "/x")

	var out []c09Case

	for _, proxy := range []bool{false, true} {
		mk := func(own, other *[]string, level string, q c09Req) c09Case {
			c := c09Case{Proxy: proxy, LogLevel: level, Req: q}
			if proxy {
				c.ProxyTP, c.DecisionTP = own, other
			} else {
				c.DecisionTP, c.ProxyTP = own, other
			}

			return c
		}

		out = append(out,
			// former C09-F1 witness: unparsable entry + unparsable (zoned IPv6) peer
			mk(l("not-an-ip"), nil, "info",
				c09Req{Peer: "[fe80::1%eth0]:1234", Method: "GET", Target: "/pub/a", Host: "a.example.com", Headers: spoof}),
			// same with a unix-socket style peer
			mk(l("10.0.0.1", "fe80::1%eth0"), nil, "info",
				c09Req{Peer: "@", Method: "GET", Target: "/pub/a", Host: "a.example.com", Headers: spoof}),
			// unparsable peer, only valid entries: untrusted
			mk(l("10.0.0.1", "::/0", "0.0.0.0/0"), nil, "trace",
				c09Req{Peer: "[fe80::1%eth0]:1234", Method: "GET", Target: "/pub/a", Host: "a.example.com", Headers: spoof}),
			// untrusted peer, everything spoofed, odd casing
			mk(l("10.0.0.0/8"), nil, "trace",
				c09Req{Peer: "8.8.4.4:53", Method: "GET", Target: "/pub/a?x=1", Host: "a.example.com",
					Headers: h("x-forwarded-method", "POST", "X-FORWARDED-URI", "/pst/a", "x-Forwarded-hOST", "evil.example.com",
						"X-forwarded-proto", "https", "x-forwarded-for", "1.1.1.1", "FORWARDED", "for=6.6.6.6", "x-forwarded-path", "/x")}),
			// trusted peer, everything set
			mk(l("10.0.0.0/8"), nil, "info",
				c09Req{Peer: "10.1.2.3:80", Method: "GET", Target: "/pub/a?x=1", Host: "a.example.com", Headers: spoof}),
			// trusted IPv4-mapped peer against an IPv4 entry; only X-Forwarded-For
			mk(l("10.0.0.1"), nil, "info",
				c09Req{Peer: "[::ffff:10.0.0.1]:99", Method: "POST", Target: "/pst/a", Host: "b.example.com:8080",
					Headers: h("X-Forwarded-For", "1.1.1.1, 2.2.2.2")}),
			// no trusted proxies at all
			mk(nil, nil, "info", c09Req{Peer: "127.0.0.1:40000", Method: "GET", Target: "/sec/a", Host: "a.example.com",
				Headers: h("X-Forwarded-Proto", "https")}),
			// trusted, path-only X-Forwarded-Uri keeps the actual query; unparsable one falls back
			mk(l("0.0.0.0/0"), nil, "info",
				c09Req{Peer: "10.0.0.1:1234", Method: "GET", Target: "/other?x=1", Host: "a.example.com",
					Headers: h("X-Forwarded-Uri", "/any/a")}),
			mk(l("0.0.0.0/0"), nil, "info",
				c09Req{Peer: "10.0.0.1:1234", Method: "GET", Target: "/any/a", Host: "a.example.com",
					Headers: h("X-Forwarded-Uri", "%zz", "X-Forwarded-Uri", "/pub/a")}),
			// --- after the audit ---
			// RemoteAddr without host:port is nobody, whatever is listed (a loopback default would be trusted here)
			mk(l("0.0.0.0/0", "127.0.0.1", "::/0"), nil, "trace",
				c09Req{Peer: "garbage", Method: "GET", Target: "/pub/a", Host: "a.example.com", Headers: spoof}),
			mk(l("127.0.0.0/8", "::1"), nil, "info",
				c09Req{Peer: "", Method: "GET", Target: "/pub/a", Host: "a.example.com", Headers: spoof}),
			// the peer is listed by the OTHER service only
			mk(l("192.168.1.0/24"), l("8.8.4.4", "10.0.0.0/8"), "info",
				c09Req{Peer: "8.8.4.4:53", Method: "GET", Target: "/pub/a", Host: "a.example.com", Headers: spoof}),
			// request shapes a short cut might exempt from the strip
			mk(l("10.0.0.0/8"), nil, "trace",
				c09Req{Peer: "8.8.4.4:53", Method: "OPTIONS", Target: "/pub/a", Host: "a.example.com", Headers: spoof}),
			mk(l("10.0.0.0/8"), nil, "info",
				c09Req{Peer: "8.8.4.4:53", Method: "HEAD", Target: "/pub/a", Host: "a.example.com", Proto: "HTTP/1.0", Headers: spoof}),
			mk(l("10.0.0.0/8"), nil, "info",
				c09Req{Peer: "8.8.4.4:53", Method: "GET", Target: "/pub/a", Host: "a.example.com", Proto: "h2",
					Headers: append(h("Upgrade", "websocket", "Connection", "Upgrade"), spoof...)}),
			mk(l("10.0.0.0/8"), nil, "info",
				c09Req{Peer: "8.8.4.4:53", Method: "POST", Target: "/pub/a", Host: "a.example.com", Body: `{"a":1}`,
					Headers: append(h("Content-Type", "application/json"), spoof...)}),
			// look-alike names must not be honoured, neither for an untrusted nor for a trusted peer
			mk(l("10.0.0.0/8"), nil, "info",
				c09Req{Peer: "8.8.4.4:53", Method: "GET", Target: "/pub/a", Host: "a.example.com",
					Headers: h("X-Http-Method-Override", "POST", "X-Original-Url", "/pst/a", "X-Real-Ip", "7.7.7.7",
						"X-Forwarded-Scheme", "https", "X-Forwarded-Prefix", "/sec", "X-Forwarded-Port", "443")}),
			mk(l("10.0.0.0/8"), nil, "info",
				c09Req{Peer: "10.1.2.3:80", Method: "GET", Target: "/pub/a", Host: "a.example.com",
					Headers: h("X-Http-Method-Override", "POST", "X-Original-Url", "/pst/a", "X-Real-Ip", "7.7.7.7",
						"X-Forwarded-Scheme", "https", "X-Forwarded-Prefix", "/sec", "X-Forwarded-Host", "evil.example.com")}),
			// a long list with neighbouring ranges: the peer sits in the gap
			mk(l("10.0.0.0/25", "10.0.1.0/25", "10.0.0.192/26", "10.0.2.0/24", "10.0.1.128/26", "10.0.0.0/25", "192.168.0.0/16", "not-an-ip"), nil, "info",
				c09Req{Peer: "10.0.0.130:1", Method: "GET", Target: "/pub/a", Host: "a.example.com", Headers: spoof}),
			mk(l("10.0.0.0/25", "10.0.1.0/25", "10.0.0.192/26", "10.0.2.0/24", "10.0.1.128/26", "10.0.0.0/25", "192.168.0.0/16", "not-an-ip"), nil, "info",
				c09Req{Peer: "10.0.1.150:1", Method: "GET", Target: "/pub/a", Host: "a.example.com", Headers: spoof}),
			// a single IPv6 address is not a range
			mk(l("2001:db8::1"), nil, "info",
				c09Req{Peer: "[2001:db8::2]:80", Method: "GET", Target: "/pub/a", Host: "a.example.com", Headers: spoof}),
		)
	}

	return out
}

// ---------------------------------------------------------------- the test

const c09SocketCases = 40

// ---------------------------------------------------------------- histories: several requests on ONE fresh instance

// c09Hist is a case of the history stream: one freshly started application (so one instance of every
// middleware) serves the steps in this order; every step is judged like a single request.  What an
// instance may remember from earlier requests (a "last peer" short cut, a per-address cache, a negative
// cache) must not change what a later request gets.
type c09Hist struct {
	Proxy      bool      `json:"proxy"`
	DecisionTP *[]string `json:"decision_trusted_proxies"`
	ProxyTP    *[]string `json:"proxy_trusted_proxies"`
	LogLevel   string    `json:"log_level"`
	Steps      []c09Req  `json:"steps"`
}

func (h c09Hist) caseOf(q c09Req) c09Case {
	return c09Case{Proxy: h.Proxy, DecisionTP: h.DecisionTP, ProxyTP: h.ProxyTP, LogLevel: h.LogLevel, Req: q}
}

var c09Anchors = []string{
	"10.0.0.1", "192.168.1.1", "10.1.2.3", "127.0.0.1", "172.16.5.5", "8.8.8.8", "10.0.0.2", "192.168.1.25",
	"::1", "2001:db8::1", "fe80::1", "2001:db8:0:1::2", "::ffff:10.0.0.1",
}

// an address whose TEXT starts with the text of host: 10.0.0.1 -> 10.0.0.17 / 10.0.0.104, ::1 -> ::1a
func c09TextNeighbour(r *vf.Rand, host string) string {
	if !strings.Contains(host, ":") || strings.HasPrefix(host, "::ffff:") && strings.Contains(host, ".") {
		i := strings.LastIndexByte(host, '.')
		last := host[i+1:]
		cands := []string{}

		for d := 0; d < 10; d++ {
			for _, c := range []string{fmt.Sprintf("%s%d", last, d), fmt.Sprintf("%s%d%d", last, d, r.Intn(10))} {
				var n int
				if _, err := fmt.Sscanf(c, "%d", &n); err == nil && n <= 255 && len(c) <= 3 && c[0] != '0' {
					cands = append(cands, c)
				}
			}
		}

		if len(cands) == 0 {
			return host
		}

		return host[:i+1] + vf.Pick(r, cands)
	}

	i := strings.LastIndexByte(host, ':')
	if len(host)-i-1 >= 4 {
		return host
	}

	return host + string("0123456789abcdef"[r.Intn(16)])
}

func c09HostPort(r *vf.Rand, host string) string {
	return net.JoinHostPort(host, vf.Pick(r, []string{"80", "8080", "1234", "4711", "443", "44300", fmt.Sprint(1024 + r.Intn(60000))}))
}

func c09GenHist(r *vf.Rand, mk string) c09Hist {
	anchor := vf.Pick(r, c09Anchors)
	if r.Chance(25) {
		v4 := c09RandV4(r)
		v4[3] = byte(1 + r.Intn(25))
		anchor = v4.String()
	}

	// the own list trusts the anchor (alone, as a one-address range, inside a small range) plus, sometimes, others
	var own []string

	ip := net.ParseIP(anchor)

	switch k := r.Intn(10); {
	case k < 4:
		own = []string{anchor}
	case k < 6 && ip.To4() != nil:
		own = []string{ip.To4().String() + "/32"}
	case k < 8 && ip.To4() != nil:
		own = []string{ip.To4().String() + vf.Pick(r, []string{"/30", "/29", "/28"})}
	case k < 8:
		own = []string{anchor + vf.Pick(r, []string{"/128", "/126", "/124"})}
	default:
		own = []string{c09RandEntry(r), anchor, c09RandEntry(r)}
	}

	if r.Chance(10) {
		own = []string{c09RandEntry(r)} // the anchor is NOT trusted: nothing may be remembered in its favour either
	}

	h := c09Hist{Proxy: r.Bool(), LogLevel: vf.Pick(r, []string{"info", "info", "trace"})}
	other := c09GenList(r)

	if h.Proxy {
		h.ProxyTP, h.DecisionTP = &own, other
	} else {
		h.DecisionTP, h.ProxyTP = &own, other
	}

	spoof := [][2]string{{"X-Forwarded-Method", "POST"}, {"X-Forwarded-Uri", "/pst/a?h=" + mk}, {"X-Forwarded-Host", mk + ".evil.example.com"},
		{"X-Forwarded-Proto", "https"}, {"X-Forwarded-For", "1.1.1.1, " + mk}, {"Forwarded", "for=" + mk}}

	n := r.Range(2, 6)
	neighbour := c09TextNeighbour(r, anchor)

	for i := 0; i < n; i++ {
		q := c09GenReq(r.Fork(uint64(50+i)), fmt.Sprintf("%ss%d", mk, i))

		k := r.Intn(100)
		if i == 0 {
			k = []int{0, 0, 0, 30, 30, 55, 90}[r.Intn(7)] // mostly: a trusted peer first, or its neighbour first
		}

		switch {
		case k < 30:
			q.Peer = c09HostPort(r, anchor)
		case k < 55:
			q.Peer = c09HostPort(r, neighbour)
		case k < 65:
			q.Peer = c09HostPort(r, c09TextNeighbour(r, anchor))
		case k < 72:
			q.Peer = anchor // no port: nobody
		case k < 78: // the other textual form of the same address
			if v4 := ip.To4(); v4 != nil && !strings.Contains(anchor, ":") {
				q.Peer = c09HostPort(r, "::ffff:"+v4.String())
			} else if v4 != nil {
				q.Peer = c09HostPort(r, v4.String())
			} else {
				q.Peer = c09HostPort(r, anchor)
			}
		case k < 84:
			q.Peer = vf.Pick(r, c09BadPeers)
		default:
			// an unrelated peer as generated
		}

		has := false
		for _, hd := range q.Headers {
			if isFwdName(hd.Name) {
				has = true
			}
		}

		if !has {
			for _, kv := range spoof {
				if r.Chance(60) {
					q.Headers = append(q.Headers, c09Hdr{c09Casing(r, kv[0]), kv[1]})
				}
			}
		}

		h.Steps = append(h.Steps, q)
	}

	return h
}

func c09HistCorpus() []c09Hist {
	hd := func(kv ...string) []c09Hdr {
		out := []c09Hdr{}
		for i := 0; i+1 < len(kv); i += 2 {
			out = append(out, c09Hdr{kv[i], kv[i+1]})
		}

		return out
	}
	spoof := hd("X-Forwarded-Method", "POST", "X-Forwarded-Uri", "/pst/a?x=1", "X-Forwarded-Host", "evil.example.com",
		"X-Forwarded-Proto", "https", "X-Forwarded-For", "1.1.1.1")
	rq := func(peer string) c09Req {
		return c09Req{Peer: peer, Method: "GET", Target: "/pub/a", Host: "a.example.com", Headers: spoof}
	}

	var out []c09Hist

	for _, proxy := range []bool{false, true} {
		for _, v := range []struct {
			own   []string
			steps []c09Req
		}{
			// a trusted peer, then a peer that is not trusted but whose address starts with the same text
			{[]string{"10.0.0.1"}, []c09Req{rq("10.0.0.1:1234"), rq("10.0.0.17:4711"), rq("10.0.0.104:80")}},
			{[]string{"192.168.1.0/28"}, []c09Req{rq("192.168.1.1:80"), rq("192.168.1.100:80"), rq("192.168.1.1:8080"), rq("192.168.1.19:1")}},
			// the other way round: nothing remembered about the stranger may cost the trusted peer its headers
			{[]string{"10.0.0.17"}, []c09Req{rq("10.0.0.1:1234"), rq("10.0.0.17:4711"), rq("10.0.0.1:4711"), rq("10.0.0.17:1234")}},
			{[]string{"::1"}, []c09Req{rq("[::1]:80"), rq("[::1a]:80"), rq("[::1]:8080"), rq("[::]:80")}},
		} {
			own := v.own
			h := c09Hist{Proxy: proxy, LogLevel: "info", Steps: v.steps}

			if proxy {
				h.ProxyTP = &own
			} else {
				h.DecisionTP = &own
			}

			out = append(out, h)
		}
	}

	return out
}

type c09Runner struct {
	t     *testing.T
	w     *vf.Writer
	up    *assembly.Upstream
	lg    *c09Log
	rules string
	idx   int
}

func c09SameList(a *[]string, b *[]string) bool {
	// an option that is not set and an empty list mean the same: nobody is trusted
	if a == nil || len(*a) == 0 {
		return b == nil || len(*b) == 0
	}

	return b != nil && reflect.DeepEqual(*a, *b)
}

// the constants q<i> of Run/Eval_C09.v must be the strings of c09Aliases, in order
func c09CheckAliases(t *testing.T) {
	dir := os.Getenv("VERIF_DIR")
	if dir == "" {
		return
	}

	src, err := os.ReadFile(dir + "/coq/Run/Eval_C09.v")
	if err != nil {
		t.Fatalf("aliases: %v", err)
	}

	want := c09Aliases()
	n := 0

	for _, line := range strings.Split(string(src), "\n") {
		var (
			i int
			v string
		)

		if !strings.HasPrefix(line, "Definition q") {
			continue
		}

		if _, err := fmt.Sscanf(line, "Definition q%d : string := %q.", &i, &v); err != nil {
			t.Fatalf("aliases: cannot read %q: %v", line, err)
		}

		if i != n || i >= len(want) || want[i] != v {
			t.Fatalf("aliases: Run/Eval_C09.v q%d = %q, driver expects %q (regenerate the block, see docs/notes/C09.md)", i, v, want[min(i, len(want)-1)])
		}

		n++
	}

	if n != len(want) {
		t.Fatalf("aliases: Run/Eval_C09.v defines %d constants, driver has %d", n, len(want))
	}
}

func TestVerifC09(t *testing.T) {
	c09CheckAliases(t)

	w := vf.NewWriter()
	defer w.Close()

	// the applications log to os.Stdout (zerolog.New(os.Stdout) at start-up): give them a file the driver can read back
	// The file lives next to the observation file (out/<property>/); without it the log sinks would go unobserved,
	// so a failure to create it is fatal.
	lg := &c09Log{}
	logDir := ""

	if o := os.Getenv("VERIF_OUT"); o != "" {
		logDir = filepath.Dir(o)
	}

	f, err := os.CreateTemp(logDir, "hv-c09-log-")
	if err != nil {
		t.Fatalf("cannot create the log capture file: %v", err)
	}

	lg.f = f
	saved := os.Stdout
	os.Stdout = f

	defer func() {
		os.Stdout = saved
		f.Close()
		os.Remove(f.Name())
	}()

	up := assembly.NewUpstream()
	defer up.Close()

	rn := &c09Runner{t: t, w: w, up: up, lg: lg, rules: c09RulesYAML(up.Host)}
	root := vf.NewRand(vf.Seed())
	n := vf.N(600)

	type appKey struct {
		proxy bool
		cfg   string
	}

	apps := map[appKey]*assembly.HandlerApp{}
	order := []appKey{}

	defer func() {
		for _, a := range apps {
			a.Stop()
		}
	}()

	handlerFor := func(c c09Case) *assembly.HandlerApp {
		cfg := c09Config(c)
		k := appKey{c.Proxy, cfg}

		if a, ok := apps[k]; ok {
			return a
		}

		a, err := assembly.StartHandler(map[bool]assembly.Mode{false: assembly.Decision, true: assembly.Proxy}[c.Proxy], cfg, rn.rules)
		if err != nil {
			t.Fatalf("case %d: cannot start app: %v\n%s", rn.idx, err, cfg)
		}

		if len(order) > 30 { // keep the number of live apps bounded (oldest first)
			old := order[0]
			order = order[1:]
			apps[old].Stop()
			delete(apps, old)
		}

		apps[k] = a
		order = append(order, k)

		return a
	}

	emit := func(stream string, c c09Case) {
		defer func() { rn.idx++ }()

		if !vf.Want(rn.idx) {
			return
		}

		or := c09OracleOf(c)
		if or.parseErr != "" {
			// net/http refuses the request before heimdall sees it: not a case
			return
		}

		app := handlerFor(c)
		loadedOK := c09SameList(app.Conf.Serve.Decision.TrustedProxies, c.DecisionTP) &&
			c09SameList(app.Conf.Serve.Proxy.TrustedProxies, c.ProxyTP)

		full := c09ObserveHandler(app, up, lg, c)
		base := c09ObserveHandler(app, up, lg, c09Baseline(c))
		full.obs.Pair, full.obs.Leaks = c09Compare(full, base, c.Req)

		rn.put(stream, c, loadedOK, or, full)
	}

	emitHist := func(stream string, h c09Hist) {
		defer func() { rn.idx++ }()

		if !vf.Want(rn.idx) || len(h.Steps) == 0 {
			return
		}

		// a fresh application: the history of its middleware instances is exactly the steps (and their partners) below
		c0 := h.caseOf(h.Steps[0])

		app, err := assembly.StartHandler(map[bool]assembly.Mode{false: assembly.Decision, true: assembly.Proxy}[h.Proxy], c09Config(c0), rn.rules)
		if err != nil {
			t.Fatalf("history %d: cannot start app: %v", rn.idx, err)
		}
		defer app.Stop()

		loadedOK := c09SameList(app.Conf.Serve.Decision.TrustedProxies, h.DecisionTP) &&
			c09SameList(app.Conf.Serve.Proxy.TrustedProxies, h.ProxyTP)

		terms, outs := []string{}, []c09Obs{}
		tagset := map[string]bool{}
		nt := false
		extra := map[string]any{}

		for i, q := range h.Steps {
			c := h.caseOf(q)

			or := c09OracleOf(c)
			if or.parseErr != "" {
				continue
			}

			full := c09ObserveHandler(app, up, lg, c)
			base := c09ObserveHandler(app, up, lg, c09Baseline(c))
			full.obs.Pair, full.obs.Leaks = c09Compare(full, base, c.Req)

			tags, n1 := c09Tags(c, or, full.obs)
			for _, tg := range tags {
				tagset[tg] = true
			}

			nt = nt || n1

			if len(full.obs.Pair) > 0 || len(full.obs.Leaks) > 0 {
				extra[fmt.Sprintf("sinks_step_%d", i)] = full.sinks
			}

			terms = append(terms, c09Coq(c, loadedOK, or, full.obs))
			outs = append(outs, full.obs)
		}

		if len(terms) == 0 {
			return
		}

		tags := []string{fmt.Sprintf("history:steps-%d", len(terms))}
		if tagset["trust:trusted"] && tagset["trust:untrusted"] {
			tags = append(tags, "history:trusted-and-untrusted-peers-on-one-instance")
		}

		for tg := range tagset {
			if !strings.HasPrefix(tg, "transport:") {
				tags = append(tags, tg)
			}
		}

		tags = append(tags, "transport:inprocess-history")

		w.Put(vf.Obs{I: rn.idx, Stream: stream, In: h, Out: outs, Coq: "[" + strings.Join(terms, "; ") + "]", Nontrivial: nt, Tags: tags, Extra: extra})
	}

	for _, c := range c09Corpus() {
		emit("corpus", c)
	}

	for _, h := range c09HistCorpus() {
		emitHist("corpus-history", h)
	}

	// generated: one pair of trusted_proxies lists per group, several peers x header sets per group
	const perList = 12

	limit := n + len(c09Corpus()) + len(c09HistCorpus()) - c09SocketCases

	for g := 0; rn.idx < limit; g++ {
		gr := root.Fork(uint64(g))
		c0 := c09Case{Proxy: gr.Bool(), DecisionTP: c09GenList(gr), ProxyTP: c09GenList(gr), LogLevel: vf.Pick(gr, []string{"info", "info", "trace"})}

		for k := 0; k < perList && rn.idx < limit; k++ {
			c := c0
			kr := gr.Fork(uint64(1000 + k))
			c.Req = c09GenReq(kr, fmt.Sprintf("zq%x%x", vf.Seed()&0xfff, rn.idx))

			// aim most peers at one of the lists (so that trusted cases, near misses and the other service's entries are frequent)
			if own := c.own(); len(own) > 0 && kr.Chance(55) {
				c.Req.Peer = c09PeerFor(kr, vf.Pick(kr, own), c.Req.Peer)
			} else if kr.Chance(20) {
				other := c.ProxyTP
				if c.Proxy {
					other = c.DecisionTP
				}

				if other != nil && len(*other) > 0 {
					c.Req.Peer = c09PeerFor(kr, vf.Pick(kr, *other), c.Req.Peer)
				}
			}

			emit("generated", c)
		}
	}

	// real sockets: the assembled services listening on 127.0.0.1, peers 127.0.0.x / 127.0.1.x
	c09SocketStream(rn, root)

	// histories: n/12 fresh instances, 2-6 requests each, peers around one anchor address
	for k, hn := 0, max(24, n/12); k < hn; k++ {
		hr := root.Fork(uint64(2000000 + k))
		emitHist("history", c09GenHist(hr, fmt.Sprintf("zh%x%x", vf.Seed()&0xfff, rn.idx)))
	}
}

func (rn *c09Runner) put(stream string, c c09Case, loadedOK bool, or c09Oracle, ro c09RawObs) {
	tags, nt := c09Tags(c, or, ro.obs)
	extra := map[string]any{}

	if len(ro.obs.Pair) > 0 || len(ro.obs.Leaks) > 0 || ro.obs.Err != "" {
		extra["sinks"] = ro.sinks // for the reader of a replay file
	}

	// a case is a history of requests on one instance; here: a single request
	rn.w.Put(vf.Obs{I: rn.idx, Stream: stream, In: c, Out: ro.obs, Coq: "[" + c09Coq(c, loadedOK, or, ro.obs) + "]", Nontrivial: nt, Tags: tags, Extra: extra})
}

func c09SocketStream(rn *c09Runner, root *vf.Rand) {
	lists := [][]string{{"127.0.0.2"}, {"127.0.1.0/24", "not-an-ip"}, {}, {"::ffff:127.0.0.3", "10.0.0.0/8"}}
	locals := []string{"127.0.0.1", "127.0.0.2", "127.0.0.3", "127.0.1.5", "127.0.2.5"}
	per := c09SocketCases / (2 * len(lists))

	for li, trusted := range lists {
		for _, proxy := range []bool{false, true} {
			need := false
			for k := 0; k < per; k++ {
				if vf.Want(rn.idx + k) {
					need = true
				}
			}

			if !need {
				rn.idx += per

				continue
			}

			own := trusted
			other := []string{"127.0.0.0/8"} // the other service trusts every loopback peer: must not matter
			c0 := c09Case{Proxy: proxy, LogLevel: "info"}

			if proxy {
				c0.ProxyTP, c0.DecisionTP = &own, &other
			} else {
				c0.DecisionTP, c0.ProxyTP = &own, &other
			}

			mode := assembly.Decision
			if proxy {
				mode = assembly.Proxy
			}

			// heimdall's own http.Server object on a listener the harness holds (no free-port race)
			app, err := assembly.StartListening(mode, c09Config(c0), rn.rules)
			if err != nil {
				rn.t.Fatalf("socket stream: %v", err)
			}

			loadedOK := c09SameList(app.Conf.Serve.Decision.TrustedProxies, c0.DecisionTP) &&
				c09SameList(app.Conf.Serve.Proxy.TrustedProxies, c0.ProxyTP)

			for k := 0; k < per; k++ {
				if vf.Want(rn.idx) {
					r := root.Fork(uint64(900000 + li*100 + k))
					c := c0
					c.Req = c09GenReq(r, fmt.Sprintf("zs%x%x", vf.Seed()&0xfff, rn.idx))
					c.Req.Socket = true
					c.Req.TLS = false

					if c.Req.Proto == "h2" {
						c.Req.Proto = ""
					}

					// no connection upgrade over the plain request/response exchange of the socket driver
					hs := c.Req.Headers[:0:0]
					for _, h := range c.Req.Headers {
						if h.Name != "Upgrade" && h.Name != "Connection" {
							hs = append(hs, h)
						}
					}

					c.Req.Headers = hs
					c.Req.Peer = vf.Pick(r, locals) + ":0"

					or := c09OracleOf(c)
					if or.parseErr == "" {
						full := c09ObserveSocket(app, rn.up, rn.lg, c)
						base := c09ObserveSocket(app, rn.up, rn.lg, c09Baseline(c))
						full.obs.Pair, full.obs.Leaks = c09Compare(full, base, c.Req)
						rn.put("socket", c, loadedOK, or, full)
					}
				}

				rn.idx++
			}

			app.Stop()
		}
	}
}

var _ = sort.Strings
