//go:build verif

package rules

// C14 driver, stream "realfactory" (kept in its own file: it is the only part of the C14 drivers that reads
// private fields of the created rule, so a refactoring of those fields stops this stream only).

import (
	"fmt"
	"strings"
	"testing"

	"github.com/rs/zerolog"

	"github.com/dadrus/heimdall/internal/config"
	"github.com/dadrus/heimdall/internal/rules/mechanisms"
	"github.com/dadrus/heimdall/internal/rules/rule"
	"github.com/dadrus/heimdall/internal/zzverif/vf"
)

// ---- stream 3: the real mechanism factory over a catalogue of real mechanisms --------------------

type c14RealMech struct {
	id, typ string
	conf    map[string]any
	good    string // name of the one override this type accepts besides the empty one ("*": ignores overrides)
}

//nolint:gochecknoglobals
var c14Catalogue = map[string][]c14RealMech{
	"authenticator": {
		{"a0", "anonymous", map[string]any{"subject": "s0"}, "subject"},
		{"a1", "anonymous", nil, "subject"},
		{"a2", "unauthorized", nil, "*"},
	},
	"authorizer": {
		{"z0", "allow", nil, "*"},
		{"z1", "deny", nil, "*"},
		{"z2", "cel", map[string]any{"expressions": []any{map[string]any{"expression": "true == true"}}}, "expressions"},
	},
	"contextualizer": {
		{"c0", "generic", map[string]any{"endpoint": map[string]any{"url": "http://127.0.0.1:1/c0"}}, "values"},
		{"c1", "generic", map[string]any{"endpoint": map[string]any{"url": "http://127.0.0.1:1/c1"}, "values": map[string]any{"k": "v"}}, "values"},
	},
	"finalizer": {
		{"f0", "header", map[string]any{"headers": map[string]any{"X-A": "a"}}, "headers"},
		{"f1", "noop", nil, "*"},
		{"f2", "header", map[string]any{"headers": map[string]any{"X-B": "{{ .Subject.ID }}"}}, "headers"},
	},
	"error_handler": {
		{"e0", "default", nil, ""},
		{"e1", "redirect", map[string]any{"to": "http://login.example.com/"}, ""},
		{"e2", "www_authenticate", map[string]any{"realm": "r"}, "realm"},
	},
}

//nolint:gochecknoglobals
var c14Overrides = map[string]map[string]any{
	"empty":       {},
	"subject":     {"subject": "o"},
	"expressions": {"expressions": []any{map[string]any{"expression": "Request.Method == \"GET\""}}},
	"values":      {"values": map[string]any{"a": "b"}},
	"headers":     {"headers": map[string]any{"X-O": "o"}},
	"realm":       {"realm": "q"},
	"unknown":     {"zz_unknown_option": "x"},
	// wrong type / invalid content of the one option the type has
	"bad-subject":     {"subject": []any{"a"}},
	"bad-expressions": {"expressions": []any{map[string]any{"expression": "foo("}}},
	"bad-values":      {"values": 17},
	"bad-headers":     {"headers": 17},
	"bad-realm":       {"realm": []any{"a"}},
	"bad-":            {"to": "http://elsewhere.example.com/"},
	"bad-*":           {"anything": 1},
}

func c14RealOf(name string, k c14Key) (c14RealMech, bool) {
	cat := c14Catalogue[name]
	if !k.Known || k.NotStr != 0 {
		return c14RealMech{}, false
	}

	return cat[k.ID%len(cat)], true
}

// the reference as written in the rule: a catalogue id, an id of another kind, or an id nobody has
func c14RealRef(name string, k c14Key) any {
	if k.NotStr != 0 {
		return c14KeyVal(k)
	}

	if m, ok := c14RealOf(name, k); ok {
		return m.id
	}

	if k.WrongKind {
		other := map[string]string{"authenticator": "authorizer", "authorizer": "finalizer", "contextualizer": "authenticator",
			"finalizer": "error_handler", "error_handler": "contextualizer"}[name]

		return c14Catalogue[other][k.ID%len(c14Catalogue[other])].id
	}

	return fmt.Sprintf("%c%d", name[0], 10+k.ID)
}

func c14RealFirst(s c14Step) (string, c14Key, bool) {
	for _, e := range []struct {
		name string
		k    c14Key
	}{{"authenticator", s.Authn}, {"authorizer", s.Authz}, {"contextualizer", s.Ctx}, {"finalizer", s.Fin}, {"error_handler", s.Eh}} {
		if e.k.Present {
			return e.name, e.k, true
		}
	}

	return "", c14Key{}, false
}

// the override a step carries: chosen for the type of the first mechanism the step names
func c14RealOverride(s c14Step) (string, any, bool) {
	switch s.Cfg {
	case "nil":
		return "", nil, false
	case "scalar":
		return "scalar", "scalar", true
	case "empty":
		return "empty", c14Overrides["empty"], true
	}

	good := "subject"

	if name, k, ok := c14RealFirst(s); ok {
		if m, ok := c14RealOf(name, k); ok {
			good = m.good
		}
	}

	name := "unknown"

	switch s.Cfg {
	case "good":
		name = good
		if good == "" || good == "*" {
			name = "empty"
		}
	case "badtype":
		name = "bad-" + good
	}

	return name, c14Overrides[name], true
}

// the driver's table: does a mechanism of this catalogue entry accept this override (transcribed from the
// documentation of the mechanism types: which options a type has; types without options ignore overrides,
// the default and redirect error handlers cannot be reconfigured)
func c14RealOK(name string, k c14Key, s c14Step) bool {
	m, ok := c14RealOf(name, k)
	if !ok {
		return false
	}

	ovr, _, present := c14RealOverride(s)

	return !present || ovr == "empty" || m.good == "*" || (ovr == m.good && ovr != "scalar")
}

func c14RealEntries(s c14Step) []c14KV {
	return c14StepEntries(s, func(k c14Key, name string) any { return c14RealRef(name, k) },
		func(s c14Step) (any, bool) { _, v, ok := c14RealOverride(s); return v, ok })
}

func c14RealCoqCfg(s c14Step) string {
	switch s.Cfg {
	case "nil":
		return "CfgNil"
	case "scalar":
		return "CfgBad"
	}

	return "(CfgMap 0%nat)"
}

func c14RealCoqKey(name string, k c14Key, s c14Step) string {
	if !k.Present {
		return "None"
	}

	id := k.ID
	if m, ok := c14RealOf(name, k); ok {
		id = int(m.id[1] - '0')
	}

	return "(Some (kv " + vf.CoqOpt(k.NotStr == 0, vf.CoqNat(id)) + " " + vf.CoqBool(c14RealOK(name, k, s)) + "))"
}

func c14RealCoqStep(s c14Step) string {
	return vf.CoqApp("st", c14RealCoqKey("authenticator", s.Authn, s), c14RealCoqKey("authorizer", s.Authz, s),
		c14RealCoqKey("contextualizer", s.Ctx, s), c14RealCoqKey("finalizer", s.Fin, s), c14CoqIf(s.If), c14RealCoqCfg(s))
}

func c14RealCoqEh(s c14Step) string {
	return vf.CoqApp("eh", c14RealCoqKey("error_handler", s.Eh, s), c14CoqIf(s.If), c14RealCoqCfg(s))
}

func c14RealGen(r *vf.Rand) c14Case {
	c := c14Gen(r)

	// share of steps with a bad override, per case
	ovrBad := vf.Pick(r, []int{0, 0, 8, 30})

	fix := func(ss []c14Step) {
		for i := range ss {
			switch x := r.Intn(100); {
			case x < ovrBad:
				ss[i].Cfg = vf.Pick(r, []string{"unknown", "unknown", "badtype", "badtype", "scalar"})
			case x < ovrBad+(100-ovrBad)*45/100:
				ss[i].Cfg = "nil"
			case x < ovrBad+(100-ovrBad)*60/100:
				ss[i].Cfg = "empty"
			default:
				ss[i].Cfg = "good"
			}
		}
	}

	if c.Def != nil {
		c.Def.Via = "struct"

		for _, ss := range [][]c14Step{c.Def.Exec, c.Def.Eh} {
			for i := range ss {
				if ss[i].Cfg != "nil" {
					ss[i].Cfg = vf.Pick(r, []string{"good", "good", "good", "empty"})
				}

				if r.Intn(100) < 2 {
					ss[i].Cfg = "unknown"
				}
			}
		}
	}

	fix(c.Rule.Exec)
	fix(c.Rule.Eh)

	return c
}

type c14IDs struct {
	Sc []string `json:"sc"`
	Sh []string `json:"sh"`
	Fi []string `json:"fi"`
	Eh []string `json:"eh"`
	Bt bool     `json:"bt"`
}

type c14RealObs struct {
	Status string  `json:"status"`
	IDs    *c14IDs `json:"ids,omitempty"`
	Err    string  `json:"err,omitempty"`
	Class  string  `json:"class,omitempty"`
}

// the ids of the created mechanisms, read from the rule (in-package); anything unexpected here is a
// failing driver, never an observation
func c14ReadIDs(t *testing.T, rul rule.Rule) *c14IDs {
	t.Helper()

	impl, ok := rul.(*ruleImpl)
	if !ok {
		t.Fatalf("driver error: the rule factory returned a %T", rul)
	}

	ids := &c14IDs{Bt: rul.AllowsBacktracking()}

	for _, a := range impl.sc {
		withID, ok := a.(interface{ ID() string })
		if !ok {
			t.Fatalf("driver error: authenticator of type %T has no ID()", a)
		}

		ids.Sc = append(ids.Sc, withID.ID())
	}

	for _, h := range impl.sh {
		ids.Sh = append(ids.Sh, h.ID())
	}

	for _, h := range impl.fi {
		ids.Fi = append(ids.Fi, h.ID())
	}

	for _, h := range impl.eh {
		ids.Eh = append(ids.Eh, h.ID())
	}

	return ids
}

func c14CoqID(t *testing.T) func(string) string {
	return func(id string) string {
		kinds := map[byte]string{'a': "KAuthn", 'z': "KAuthz", 'c': "KCtx", 'f': "KFin", 'e': "KEh"}
		if len(id) != 2 || kinds[id[0]] == "" || id[1] < '0' || id[1] > '9' {
			t.Fatalf("driver error: unexpected mechanism id %q", id)
		}

		return "(" + kinds[id[0]] + ", " + vf.CoqNat(int(id[1]-'0')) + ")"
	}
}

func c14RealCoq(t *testing.T, c c14Case, o c14RealObs) string {
	var obs string

	switch o.Status {
	case "factory_failed":
		obs = "FactoryFailed"
	case "factory_panic":
		obs = "FactoryPanic"
	case "rejected":
		obs = "(Loaded Rejected)"
	case "panic":
		obs = "(Loaded Panic)"
	default:
		f := c14CoqID(t)
		obs = "(Loaded (Ok " + vf.CoqApp("io", vf.CoqListOf(o.IDs.Sc, f), vf.CoqListOf(o.IDs.Sh, f), vf.CoqListOf(o.IDs.Fi, f),
			vf.CoqListOf(o.IDs.Eh, f), vf.CoqBool(o.IDs.Bt)) + "))"
	}

	return vf.CoqApp("csi", vf.CoqBool(c.Proxy), c14CoqDefault(c.Def, c14RealCoqStep, c14RealCoqEh),
		c14CoqRule(c.Rule, c14RealCoqStep, c14RealCoqEh), obs)
}

func c14RealFactory(t *testing.T) mechanisms.MechanismFactory {
	t.Helper()

	protos := func(name string) []config.Mechanism {
		var out []config.Mechanism
		for _, m := range c14Catalogue[name] {
			out = append(out, config.Mechanism{ID: m.id, Type: m.typ, Config: m.conf})
		}

		return out
	}

	hf, err := mechanisms.NewMechanismFactory(&config.Configuration{Prototypes: &config.MechanismPrototypes{
		Authenticators:  protos("authenticator"),
		Authorizers:     protos("authorizer"),
		Contextualizers: protos("contextualizer"),
		Finalizers:      protos("finalizer"),
		ErrorHandlers:   protos("error_handler"),
	}}, zerolog.Nop(), nil, nil, nil)
	if err != nil {
		t.Fatalf("driver error: the real mechanism factory refuses the catalogue: %v", err)
	}

	return hf
}

func c14RealRun(t *testing.T, hf mechanisms.MechanismFactory, c c14Case) c14RealObs {
	t.Helper()

	f, status, msg := c14NewFactory(hf, c14DefaultConf(t, c.Def, c14RealEntries), c.Proxy)
	if f == nil {
		return c14RealObs{Status: status, Err: msg}
	}

	rul, o := c14Create(f, c.Rule.Extra.Version, c.Rule.Extra.SrcID, c14RuleConfig(c.Rule, "r", "/a", c14RealEntries))
	ro := c14RealObs{Status: o.Status, Err: o.Err, Class: o.Class}

	if rul != nil {
		ro.IDs = c14ReadIDs(t, rul)
	}

	return ro
}

func c14RealCorpus() []c14Case {
	k := func(id int) c14Key { return c14Key{Present: true, ID: id, Known: true} }
	au := c14Step{Authn: k(0), If: "nil", Cfg: "nil"}
	ex := c14Extra{SrcID: "src", Version: "1alpha4"}
	mk := func(steps []c14Step, eh []c14Step) c14Case { return c14Case{Rule: c14Rule{Exec: steps, Eh: eh, Extra: ex}} }

	return []c14Case{
		mk([]c14Step{{Authn: k(0), If: "nil", Cfg: "good"}, {Authz: k(2), If: "c0", Cfg: "good"}, {Ctx: k(0), If: "nil", Cfg: "good"}, {Fin: k(0), If: "nil", Cfg: "good"}},
			[]c14Step{{Eh: k(2), If: "nil", Cfg: "good"}, {Eh: k(0), If: "nil", Cfg: "nil"}}),
		// bad overrides of every type that has options
		mk([]c14Step{{Authn: k(0), If: "nil", Cfg: "unknown"}}, nil),
		mk([]c14Step{{Authn: k(1), If: "nil", Cfg: "badtype"}}, nil),
		mk([]c14Step{au, {Authz: k(2), If: "nil", Cfg: "badtype"}}, nil),
		mk([]c14Step{au, {Ctx: k(1), If: "nil", Cfg: "unknown"}}, nil),
		mk([]c14Step{au, {Fin: k(0), If: "nil", Cfg: "badtype"}}, nil),
		mk([]c14Step{au}, []c14Step{{Eh: k(2), If: "nil", Cfg: "unknown"}}),
		mk([]c14Step{au}, []c14Step{{Eh: k(0), If: "nil", Cfg: "unknown"}}),
		mk([]c14Step{au}, []c14Step{{Eh: k(1), If: "nil", Cfg: "badtype"}}),
		// unknown id, id of another kind
		mk([]c14Step{au, {Authz: c14Key{Present: true, ID: 1}, If: "nil", Cfg: "nil"}}, nil),
		mk([]c14Step{au, {Fin: c14Key{Present: true, ID: 1, WrongKind: true}, If: "nil", Cfg: "nil"}}, nil),
		// types without options ignore an override
		mk([]c14Step{{Authn: k(2), If: "nil", Cfg: "unknown"}, {Authz: k(0), If: "nil", Cfg: "badtype"}, {Fin: k(1), If: "nil", Cfg: "unknown"}}, nil),
	}
}

func TestVerifC14Real(t *testing.T) {
	w := vf.NewWriter()
	defer w.Close()

	hf := c14RealFactory(t)
	root := vf.NewRand(vf.Seed() + 2000003)
	n := vf.N(400)
	idx := 0

	emit := func(stream string, c c14Case) {
		if vf.Want(idx) {
			o := c14RealRun(t, hf, c)
			tags := []string{"real-status:" + o.Status, fmt.Sprintf("real-scoped:%v", c14Scoped(c))}

			if o.Class != "" {
				tags = append(tags, "real-reject-class:"+o.Class)
			}

			for _, s := range append(append([]c14Step{}, c.Rule.Exec...), c.Rule.Eh...) {
				if name, k, ok := c14RealFirst(s); ok {
					if m, ok := c14RealOf(name, k); ok {
						ovr, _, _ := c14RealOverride(s)
						tags = append(tags, fmt.Sprintf("real-override:%s/%s=%v", m.typ, strings.TrimSuffix(ovr, "-"+m.good), c14RealOK(name, k, s)))
					} else {
						tags = append(tags, "real-reference:unknown")
					}
				}
			}

			w.Put(vf.Obs{
				I: idx, Stream: stream, In: map[string]any{"case": c, "rule": c14RuleConfig(c.Rule, "r", "/a", c14RealEntries)}, Out: o,
				Coq: c14RealCoq(t, c, o), Nontrivial: c14Scoped(c) && (o.Status == "ok" || o.Status == "rejected") && len(c.Rule.Exec) > 0,
				Tags: c14Dedup(tags),
			})
		}

		idx++
	}

	for _, c := range c14RealCorpus() {
		emit("corpus", c)
	}

	for i := 0; i < n; i++ {
		emit("generated", c14RealGen(root.Fork(uint64(i))))
	}
}

func c14Dedup(tags []string) []string {
	seen := map[string]bool{}

	var out []string

	for _, t := range tags {
		if !seen[t] {
			seen[t] = true

			out = append(out, t)
		}
	}

	return out
}
