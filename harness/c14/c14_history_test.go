//go:build verif

package rules

// C14 driver, stream "history": 2-5 CreateRule calls on ONE rule factory instance.  Every call is observed and
// evaluated on its own (the model and the specification say that the result of a call depends on that rule's
// definition, the default rule and the catalogue only), so one observation is written per call; all calls of a
// history carry the history's index, and a replay re-runs the whole history.  The generator deliberately re-uses
// stage lists between the rules of a history (c14Derive).

import (
	"fmt"
	"testing"

	"github.com/dadrus/heimdall/internal/zzverif/vf"
)

type c14History struct {
	Proxy bool        `json:"proxy"`
	Def   *c14Default `json:"default"`
	Rules []c14Rule   `json:"rules"`
	How   []string    `json:"how"` // how rule n was derived (fresh / same-execute / ...)
}

func c14GenHistory(r *vf.Rand) c14History {
	first := c14Gen(r)
	h := c14History{Proxy: first.Proxy, Def: first.Def}

	base := first.Rule
	if r.Intn(100) < 75 {
		base = c14GenGoodRule(r, h.Proxy, h.Def)
	}

	h.Rules, h.How = []c14Rule{base}, []string{"fresh"}

	for i, n := 0, 1+r.Intn(4); i < n; i++ {
		if r.Intn(100) < 12 {
			h.Rules, h.How = append(h.Rules, c14GenGoodRule(r, h.Proxy, h.Def)), append(h.How, "fresh")

			continue
		}

		d, how := c14Derive(r, h.Rules[r.Intn(len(h.Rules))], h.Proxy, h.Def)
		h.Rules, h.How = append(h.Rules, d), append(h.How, how)
	}

	// the order matters for anything kept between calls: half of the histories run backwards
	if r.Bool() {
		for i, j := 0, len(h.Rules)-1; i < j; i, j = i+1, j-1 {
			h.Rules[i], h.Rules[j] = h.Rules[j], h.Rules[i]
			h.How[i], h.How[j] = h.How[j], h.How[i]
		}
	}

	return h
}

func c14HistoryCorpus() []c14History {
	k := func(id int) c14Key { return c14Key{Present: true, ID: id, Known: true} }
	au := c14Step{Authn: k(1), If: "nil", Cfg: "nil"}
	az := c14Step{Authz: k(3), If: "c0", Cfg: "m1"}
	fi := c14Step{Fin: k(2), If: "nil", Cfg: "nil"}
	e1 := c14Step{Eh: k(1), If: "c1", Cfg: "nil"}
	e2 := c14Step{Eh: k(2), If: "nil", Cfg: "m2"}
	eu := c14Step{Eh: c14Key{Present: true, ID: 4}, If: "nil", Cfg: "nil"}
	ex := c14Extra{SrcID: "src", Version: "1alpha4"}
	rl := func(exec, eh []c14Step) c14Rule { return c14Rule{Exec: exec, Eh: eh, Extra: ex} }
	def := &c14Default{Exec: []c14Step{au, fi}, Eh: []c14Step{e2}, Via: "struct"}
	exec := []c14Step{au, az}

	return []c14History{
		// seeded C14-10: same execute; own on_error, then none (inherits the default rule's), then an unknown handler
		{Def: def, Rules: []c14Rule{rl(exec, []c14Step{e1}), rl(exec, nil), rl(exec, []c14Step{eu})}, How: []string{"fresh", "same-execute", "broken-on-error"}},
		{Def: def, Rules: []c14Rule{rl(exec, nil), rl(exec, []c14Step{e1})}, How: []string{"fresh", "same-execute"}},
		{Rules: []c14Rule{rl(exec, []c14Step{e1, e2}), rl(exec, []c14Step{e2, e1})}, How: []string{"fresh", "same-execute"}},
		// same on_error, other execute; a broken execute after a good one
		{Def: def, Rules: []c14Rule{rl(exec, []c14Step{e1}), rl([]c14Step{au, fi}, []c14Step{e1}), rl([]c14Step{az, au}, []c14Step{e1})}, How: []string{"fresh", "same-on-error", "broken-execute"}},
	}
}

func TestVerifC14History(t *testing.T) {
	c14SelfCheck(t)

	w := vf.NewWriter()
	defer w.Close()

	root := vf.NewRand(vf.Seed() + 4000037)
	n := vf.N(150)
	idx := 0

	emit := func(stream string, h c14History) {
		if vf.Want(idx) {
			f, status, msg := c14NewFactory(c14Factory{}, c14DefaultConf(t, h.Def, c14StubEntries), h.Proxy)

			for call, rl := range h.Rules {
				c := c14Case{Proxy: h.Proxy, Def: h.Def, Rule: rl}
				o := c14Obs{Status: status, Err: msg}

				if f != nil {
					rul, ob := c14Create(f, rl.Extra.Version, rl.Extra.SrcID, c14RuleConfig(rl, fmt.Sprintf("r%d", call), "/a", c14StubEntries))
					o = ob

					if rul != nil {
						o.Rule = c14ObserveRule(rul, "/a")
					}
				}

				tags := []string{"hist-status:" + o.Status, fmt.Sprintf("hist-call:%d", call), "hist-how:" + h.How[call],
					fmt.Sprintf("hist-scoped:%v", c14Scoped(c))}

				w.Put(vf.Obs{
					I: idx, Stream: stream, In: map[string]any{"history": h, "call": call}, Out: o, Coq: c14Coq(c, o),
					Nontrivial: call > 0 && h.How[call] != "fresh" && c14Scoped(c) && (o.Status == "ok" || o.Status == "rejected"),
					Tags: tags,
				})

				if f == nil {
					break
				}
			}
		}

		idx++
	}

	for _, h := range c14HistoryCorpus() {
		emit("corpus", h)
	}

	for i := 0; i < n; i++ {
		emit("generated", c14GenHistory(root.Fork(uint64(i))))
	}
}
