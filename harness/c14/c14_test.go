//go:build verif

package rules

// C14 driver: generated default rules x rule definitions through the real
// NewRuleFactory / CreateRule with a stub mechanism factory.  Observation: the
// created rule's four stage lists (kind, id, has-condition) and its backtracking
// flag, or rejection / panic.

import (
	"errors"
	"fmt"
	"strings"
	"testing"

	"github.com/rs/zerolog"

	"github.com/dadrus/heimdall/internal/config"
	"github.com/dadrus/heimdall/internal/heimdall"
	config2 "github.com/dadrus/heimdall/internal/rules/config"
	"github.com/dadrus/heimdall/internal/rules/mechanisms/authenticators"
	"github.com/dadrus/heimdall/internal/rules/mechanisms/authorizers"
	"github.com/dadrus/heimdall/internal/rules/mechanisms/contextualizers"
	"github.com/dadrus/heimdall/internal/rules/mechanisms/errorhandlers"
	"github.com/dadrus/heimdall/internal/rules/mechanisms/finalizers"
	"github.com/dadrus/heimdall/internal/rules/mechanisms/subject"
	"github.com/dadrus/heimdall/internal/rules/rule"
	"github.com/dadrus/heimdall/internal/zzverif/vf"
)

// ---- stub mechanisms ------------------------------------------------------

type c14Mech struct {
	kind string
	id   int
}

func (m *c14Mech) ID() string                     { return fmt.Sprintf("%s%d", m.kind, m.id) }
func (m *c14Mech) IsFallbackOnErrorAllowed() bool { return false }
func (m *c14Mech) ContinueOnError() bool          { return false }

type c14Authn struct{ c14Mech }

func (m *c14Authn) Execute(heimdall.Context) (*subject.Subject, error) {
	return &subject.Subject{ID: "x"}, nil
}

func (m *c14Authn) WithConfig(map[string]any) (authenticators.Authenticator, error) { return m, nil }

type c14Authz struct{ c14Mech }

func (m *c14Authz) Execute(heimdall.Context, *subject.Subject) error            { return nil }
func (m *c14Authz) WithConfig(map[string]any) (authorizers.Authorizer, error) { return m, nil }

type c14Ctx struct{ c14Mech }

func (m *c14Ctx) Execute(heimdall.Context, *subject.Subject) error { return nil }
func (m *c14Ctx) WithConfig(map[string]any) (contextualizers.Contextualizer, error) {
	return m, nil
}

type c14Fin struct{ c14Mech }

func (m *c14Fin) Execute(heimdall.Context, *subject.Subject) error          { return nil }
func (m *c14Fin) WithConfig(map[string]any) (finalizers.Finalizer, error) { return m, nil }

type c14Eh struct{ c14Mech }

func (m *c14Eh) Execute(heimdall.Context, error) error                          { return nil }
func (m *c14Eh) WithConfig(map[string]any) (errorhandlers.ErrorHandler, error) { return m, nil }

// ids are "<n>" (known) or "u<n>" (unknown to the catalogue)
type c14Factory struct{}

var errC14Unknown = errors.New("no such mechanism")

func c14ParseID(id string) (int, bool) {
	known := true
	if len(id) > 0 && id[0] == 'u' {
		known = false
		id = id[1:]
	}

	n := 0
	fmt.Sscanf(id, "%d", &n)

	return n, known
}

func (c14Factory) CreateAuthenticator(_, id string, _ config.MechanismConfig) (authenticators.Authenticator, error) {
	n, ok := c14ParseID(id)
	if !ok {
		return nil, errC14Unknown
	}

	return &c14Authn{c14Mech{"authn", n}}, nil
}

func (c14Factory) CreateAuthorizer(_, id string, _ config.MechanismConfig) (authorizers.Authorizer, error) {
	n, ok := c14ParseID(id)
	if !ok {
		return nil, errC14Unknown
	}

	return &c14Authz{c14Mech{"authz", n}}, nil
}

func (c14Factory) CreateContextualizer(_, id string, _ config.MechanismConfig) (contextualizers.Contextualizer, error) {
	n, ok := c14ParseID(id)
	if !ok {
		return nil, errC14Unknown
	}

	return &c14Ctx{c14Mech{"ctx", n}}, nil
}

func (c14Factory) CreateFinalizer(_, id string, _ config.MechanismConfig) (finalizers.Finalizer, error) {
	n, ok := c14ParseID(id)
	if !ok {
		return nil, errC14Unknown
	}

	return &c14Fin{c14Mech{"fin", n}}, nil
}

func (c14Factory) CreateErrorHandler(_, id string, _ config.MechanismConfig) (errorhandlers.ErrorHandler, error) {
	n, ok := c14ParseID(id)
	if !ok {
		return nil, errC14Unknown
	}

	return &c14Eh{c14Mech{"eh", n}}, nil
}

// ---- generated inputs --------------------------------------------------------

type c14Key struct {
	Present bool `json:"present"`
	NotStr  bool `json:"not_str,omitempty"`
	ID      int  `json:"id"`
	Known   bool `json:"known"`
}

type c14Step struct {
	Authn c14Key `json:"authn"`
	Authz c14Key `json:"authz"`
	Ctx   c14Key `json:"ctx"`
	Fin   c14Key `json:"fin"`
	Eh    c14Key `json:"eh"`
	If    string `json:"if"`  // nil ok empty notstr badcel
	Cfg   string `json:"cfg"` // nil map bad
}

type c14Default struct {
	Exec []c14Step `json:"exec"`
	Eh   []c14Step `json:"eh"`
	Bt   bool      `json:"bt"`
}

type c14Rule struct {
	Exec    []c14Step `json:"exec"`
	Eh      []c14Step `json:"eh"`
	Bt      *bool     `json:"bt"`
	Backend bool      `json:"backend"`
	BadMeth bool      `json:"bad_methods"`
}

type c14Case struct {
	Proxy bool        `json:"proxy"`
	Def   *c14Default `json:"default"`
	Rule  c14Rule     `json:"rule"`
}

func c14GenKey(r *vf.Rand, present bool, bad int) c14Key {
	k := c14Key{Present: present, ID: r.Intn(6), Known: true}
	if present && r.Intn(100) < bad {
		if r.Intn(4) == 0 {
			k.NotStr = true
		} else {
			k.Known = false
		}
	}

	return k
}

// kind: 0 authn 1 authz 2 ctx 3 fin 4 eh 5 none
func c14GenStep(r *vf.Rand, kind int, bad int) c14Step {
	s := c14Step{If: "nil", Cfg: "nil"}
	s.Authn = c14GenKey(r, kind == 0, bad)
	s.Authz = c14GenKey(r, kind == 1, bad)
	s.Ctx = c14GenKey(r, kind == 2, bad)
	s.Fin = c14GenKey(r, kind == 3, bad)
	s.Eh = c14GenKey(r, kind == 4, bad)

	if kind < 4 && r.Intn(100) < bad { // a second kind key in the same map
		switch r.Intn(4) {
		case 0:
			s.Authn = c14GenKey(r, true, bad)
		case 1:
			s.Authz = c14GenKey(r, true, bad)
		case 2:
			s.Ctx = c14GenKey(r, true, bad)
		default:
			s.Fin = c14GenKey(r, true, bad)
		}
	}

	switch x := r.Intn(100); {
	case x < 25:
		s.If = "ok"
	case x < 25+bad/2:
		s.If = vf.Pick(r, []string{"empty", "notstr", "badcel"})
	}

	switch x := r.Intn(100); {
	case x < 25:
		s.Cfg = "map"
	case x < 25+bad/3:
		s.Cfg = "bad"
	}

	return s
}

// ordered = true generates authn* mid* fin*; otherwise a random permutation
func c14GenExec(r *vf.Rand, bad int, maxLen int) []c14Step {
	var kinds []int

	if r.Intn(100) < 70 {
		for i, n := 0, r.Intn(3); i < n; i++ {
			kinds = append(kinds, 0)
		}

		for i, n := 0, r.Intn(3); i < n; i++ {
			kinds = append(kinds, 1+r.Intn(2))
		}

		for i, n := 0, r.Intn(3); i < n; i++ {
			kinds = append(kinds, 3)
		}
	} else {
		for i, n := 0, r.Intn(maxLen+1); i < n; i++ {
			k := r.Intn(4)
			if r.Intn(100) < bad/2 {
				k = 5
			}

			kinds = append(kinds, k)
		}
	}

	steps := make([]c14Step, 0, len(kinds))
	for _, k := range kinds {
		steps = append(steps, c14GenStep(r, k, bad))
	}

	return steps
}

func c14GenEh(r *vf.Rand, bad int) []c14Step {
	var steps []c14Step

	for i, n := 0, r.Intn(3); i < n; i++ {
		k := 4
		if r.Intn(100) < bad/2 {
			k = 5
		}

		steps = append(steps, c14GenStep(r, k, bad))
	}

	return steps
}

func c14Gen(r *vf.Rand) c14Case {
	bad := vf.Pick(r, []int{0, 0, 6, 15, 40})
	c := c14Case{Proxy: r.Intn(3) == 0}

	if r.Intn(100) < 65 {
		dbad := bad / 3
		d := &c14Default{Exec: c14GenExec(r, dbad, 5), Eh: c14GenEh(r, dbad), Bt: r.Bool()}

		if len(d.Exec) == 0 || (d.Exec[0].Authn.Present == false && r.Intn(100) < 90) {
			d.Exec = append([]c14Step{c14GenStep(r, 0, 0)}, d.Exec...)
		}

		c.Def = d
	}

	c.Rule.Exec = c14GenExec(r, bad, 6)
	c.Rule.Eh = c14GenEh(r, bad)

	if r.Intn(100) < 55 {
		b := r.Bool()
		c.Rule.Bt = &b
	}

	c.Rule.Backend = !c.Proxy && r.Intn(4) == 0 || c.Proxy && r.Intn(100) < 85
	c.Rule.BadMeth = r.Intn(100) < bad/4

	return c
}

// ---- to heimdall configuration -------------------------------------------------

func c14KeyVal(k c14Key) any {
	if k.NotStr {
		return 42
	}

	if k.Known {
		return fmt.Sprintf("%d", k.ID)
	}

	return fmt.Sprintf("u%d", k.ID)
}

func c14StepMap(s c14Step) config.MechanismConfig {
	m := config.MechanismConfig{}

	if s.Authn.Present {
		m["authenticator"] = c14KeyVal(s.Authn)
	}

	if s.Authz.Present {
		m["authorizer"] = c14KeyVal(s.Authz)
	}

	if s.Ctx.Present {
		m["contextualizer"] = c14KeyVal(s.Ctx)
	}

	if s.Fin.Present {
		m["finalizer"] = c14KeyVal(s.Fin)
	}

	if s.Eh.Present {
		m["error_handler"] = c14KeyVal(s.Eh)
	}

	switch s.If {
	case "ok":
		m["if"] = "true == true"
	case "empty":
		m["if"] = ""
	case "notstr":
		m["if"] = 17
	case "badcel":
		m["if"] = "foo("
	}

	switch s.Cfg {
	case "map":
		m["config"] = map[string]any{"a": "b"}
	case "bad":
		m["config"] = "scalar"
	}

	return m
}

func c14Steps(ss []c14Step) []config.MechanismConfig {
	var out []config.MechanismConfig
	for _, s := range ss {
		out = append(out, c14StepMap(s))
	}

	return out
}

// ---- observation ---------------------------------------------------------------

type c14Mo struct {
	Kind string `json:"k"`
	ID   int    `json:"id"`
	Cond bool   `json:"cond"`
}

type c14Obs struct {
	Status string  `json:"status"` // factory_failed factory_panic rejected panic ok
	Sc     []c14Mo `json:"sc,omitempty"`
	Sh     []c14Mo `json:"sh,omitempty"`
	Fi     []c14Mo `json:"fi,omitempty"`
	Eh     []c14Mo `json:"eh,omitempty"`
	Bt     bool    `json:"bt"`
	Err    string  `json:"err,omitempty"`
}

func c14MechOf(v any) (string, int) {
	switch m := v.(type) {
	case *c14Authn:
		return "KAuthn", m.id
	case *c14Authz:
		return "KAuthz", m.id
	case *c14Ctx:
		return "KCtx", m.id
	case *c14Fin:
		return "KFin", m.id
	case *c14Eh:
		return "KEh", m.id
	}

	return "?", -1
}

func c14IsCel(c executionCondition) bool {
	_, ok := c.(*celExecutionCondition)

	return ok
}

func c14Observe(rul *ruleImpl) c14Obs {
	o := c14Obs{Status: "ok", Bt: rul.allowsBacktracking}

	for _, a := range rul.sc {
		k, id := c14MechOf(a)
		o.Sc = append(o.Sc, c14Mo{k, id, false})
	}

	for _, h := range rul.sh {
		ch := h.(*conditionalSubjectHandler) //nolint:forcetypeassert
		k, id := c14MechOf(ch.h)
		o.Sh = append(o.Sh, c14Mo{k, id, c14IsCel(ch.c)})
	}

	for _, h := range rul.fi {
		ch := h.(*conditionalSubjectHandler) //nolint:forcetypeassert
		k, id := c14MechOf(ch.h)
		o.Fi = append(o.Fi, c14Mo{k, id, c14IsCel(ch.c)})
	}

	for _, h := range rul.eh {
		ch := h.(*conditionalErrorHandler) //nolint:forcetypeassert
		k, id := c14MechOf(ch.h)
		o.Eh = append(o.Eh, c14Mo{k, id, c14IsCel(ch.c)})
	}

	return o
}

func c14Run(c c14Case) (obs c14Obs) {
	mode := config.DecisionMode
	if c.Proxy {
		mode = config.ProxyMode
	}

	conf := &config.Configuration{}
	if c.Def != nil {
		conf.Default = &config.DefaultRule{
			BacktrackingEnabled: c.Def.Bt,
			Execute:             c14Steps(c.Def.Exec),
			ErrorHandler:        c14Steps(c.Def.Eh),
		}
	}

	var factory *ruleFactory

	func() {
		defer func() {
			if p := recover(); p != nil {
				obs = c14Obs{Status: "factory_panic", Err: fmt.Sprint(p)}
			}
		}()

		f, err := NewRuleFactory(c14Factory{}, conf, mode, zerolog.Nop())
		if err != nil {
			obs = c14Obs{Status: "factory_failed", Err: err.Error()}

			return
		}

		factory = f.(*ruleFactory) //nolint:forcetypeassert
	}()

	if factory == nil {
		return obs
	}

	rc := config2.Rule{
		ID:           "r",
		Matcher:      config2.Matcher{Routes: []config2.Route{{Path: "/a"}}, BacktrackingEnabled: c.Rule.Bt},
		Execute:      c14Steps(c.Rule.Exec),
		ErrorHandler: c14Steps(c.Rule.Eh),
	}

	if c.Rule.BadMeth {
		rc.Matcher.Methods = []string{""}
	}

	if c.Rule.Backend {
		rc.Backend = &config2.Backend{Host: "up.example.com"}
	}

	defer func() {
		if p := recover(); p != nil {
			obs = c14Obs{Status: "panic", Err: fmt.Sprint(p)}
		}
	}()

	rul, err := factory.CreateRule("1alpha4", "src", rc)
	if err != nil {
		return c14Obs{Status: "rejected", Err: err.Error()}
	}

	return c14Observe(rul.(*ruleImpl)) //nolint:forcetypeassert
}

// ---- rendering for Coq -----------------------------------------------------------

func c14CoqKey(k c14Key) string {
	if !k.Present {
		return "None"
	}

	id := vf.CoqOpt(!k.NotStr, vf.CoqNat(k.ID))

	return "(Some (kv " + id + " " + vf.CoqBool(k.Known) + "))"
}

func c14CoqIf(s string) string {
	return map[string]string{"nil": "CondNil", "ok": "CondOk", "empty": "CondEmpty", "notstr": "CondNotStr", "badcel": "CondBadCel"}[s]
}

func c14CoqCfg(s string) string {
	return map[string]string{"nil": "CfgNil", "map": "CfgMap", "bad": "CfgBad"}[s]
}

func c14CoqStep(s c14Step) string {
	return vf.CoqApp("st", c14CoqKey(s.Authn), c14CoqKey(s.Authz), c14CoqKey(s.Ctx), c14CoqKey(s.Fin),
		c14CoqIf(s.If), c14CoqCfg(s.Cfg))
}

func c14CoqEh(s c14Step) string {
	return vf.CoqApp("eh", c14CoqKey(s.Eh), c14CoqIf(s.If), c14CoqCfg(s.Cfg))
}

func c14CoqMo(m c14Mo) string {
	return vf.CoqApp("mk", m.Kind, vf.CoqNat(m.ID), vf.CoqBool(m.Cond))
}

func c14CoqObs(o c14Obs) string {
	switch o.Status {
	case "factory_failed":
		return "FactoryFailed"
	case "factory_panic":
		return "FactoryPanic"
	case "rejected":
		return "(Loaded Rejected)"
	case "panic":
		return "(Loaded Panic)"
	}

	return "(Loaded (Ok " + vf.CoqApp("eff", vf.CoqListOf(o.Sc, c14CoqMo), vf.CoqListOf(o.Sh, c14CoqMo),
		vf.CoqListOf(o.Fi, c14CoqMo), vf.CoqListOf(o.Eh, c14CoqMo), vf.CoqBool(o.Bt)) + "))"
}

func c14Coq(c c14Case, o c14Obs) string {
	def := "None"
	if c.Def != nil {
		def = "(Some " + vf.CoqApp("dd", vf.CoqListOf(c.Def.Exec, c14CoqStep), vf.CoqListOf(c.Def.Eh, c14CoqEh),
			vf.CoqBool(c.Def.Bt)) + ")"
	}

	bt := "None"
	if c.Rule.Bt != nil {
		bt = "(Some " + vf.CoqBool(*c.Rule.Bt) + ")"
	}

	rd := vf.CoqApp("rd", vf.CoqListOf(c.Rule.Exec, c14CoqStep), vf.CoqListOf(c.Rule.Eh, c14CoqEh), bt,
		vf.CoqBool(c.Rule.Backend), vf.CoqBool(!c.Rule.BadMeth))

	return vf.CoqApp("cs", vf.CoqBool(c.Proxy), def, rd, c14CoqObs(o))
}

// a case is non-trivial when the rule is loaded and inherits at least one stage
// from a default rule, or is rejected for an ordering reason
func c14Nontrivial(c c14Case, o c14Obs) bool {
	if o.Status == "ok" && c.Def != nil {
		own := map[string]bool{}
		for _, s := range c.Rule.Exec {
			switch {
			case s.Authn.Present:
				own["a"] = true
			case s.Authz.Present, s.Ctx.Present:
				own["h"] = true
			case s.Fin.Present:
				own["f"] = true
			}
		}

		return len(own) < 3 || len(c.Rule.Eh) == 0
	}

	return o.Status == "rejected" && len(c.Rule.Exec) >= 2
}

func c14Corpus() []c14Case {
	tr := true
	au := c14Step{Authn: c14Key{Present: true, ID: 1, Known: true}, If: "nil", Cfg: "nil"}
	fi := c14Step{Fin: c14Key{Present: true, ID: 2, Known: true}, If: "ok", Cfg: "nil"}
	az := c14Step{Authz: c14Key{Present: true, ID: 3, Known: true}, If: "nil", Cfg: "map"}

	return []c14Case{
		// C14-F1 witness: no default rule, rule asks for backtracking
		{Rule: c14Rule{Exec: []c14Step{au}, Bt: &tr}},
		// partial default, rule defines only a finalizer
		{Def: &c14Default{Exec: []c14Step{au, az}, Bt: true}, Rule: c14Rule{Exec: []c14Step{fi}}},
		// finalizer before authorizer
		{Rule: c14Rule{Exec: []c14Step{au, fi, az}}},
		// authenticator after authorizer
		{Rule: c14Rule{Exec: []c14Step{az, au}}},
		// proxy mode without forward_to
		{Proxy: true, Rule: c14Rule{Exec: []c14Step{au}}},
		// no authenticator anywhere
		{Rule: c14Rule{Exec: []c14Step{az}}},
	}
}

// ---- stream 2: YAML rule set -> real parser -> real processor -> real repository ----

func c14YamlVal(v any) string {
	switch x := v.(type) {
	case int:
		return fmt.Sprintf("%d", x)
	case string:
		return fmt.Sprintf("%q", x)
	case map[string]any:
		return "{ a: b }"
	}

	return "null"
}

func c14YamlSteps(sb *strings.Builder, key string, steps []c14Step) {
	if len(steps) == 0 {
		return
	}

	sb.WriteString("    " + key + ":\n")

	for _, s := range steps {
		m := c14StepMap(s)
		first := true

		for _, k := range []string{"authenticator", "authorizer", "contextualizer", "finalizer", "error_handler", "if", "config"} {
			v, ok := m[k]
			if !ok {
				continue
			}

			if first {
				sb.WriteString("      - ")
				first = false
			} else {
				sb.WriteString("        ")
			}

			sb.WriteString(k + ": " + c14YamlVal(v) + "\n")
		}

		if first {
			sb.WriteString("      - {}\n")
		}
	}
}

type c14SetCase struct {
	Proxy bool        `json:"proxy"`
	Def   *c14Default `json:"default"`
	Rules []c14Rule   `json:"rules"`
}

func c14Yaml(c c14SetCase) string {
	var sb strings.Builder

	sb.WriteString("version: \"1alpha4\"\nname: test\nrules:\n")

	for i, r := range c.Rules {
		sb.WriteString(fmt.Sprintf("  - id: r%d\n    match:\n      routes:\n        - path: /p%d\n", i, i))

		if r.Bt != nil {
			sb.WriteString(fmt.Sprintf("      backtracking_enabled: %v\n", *r.Bt))
		}

		if r.BadMeth {
			sb.WriteString("      methods: [ \"\" ]\n")
		}

		if r.Backend {
			sb.WriteString("    forward_to:\n      host: up.example.com\n")
		}

		c14YamlSteps(&sb, "execute", r.Exec)
		c14YamlSteps(&sb, "on_error", r.Eh)
	}

	return sb.String()
}

type c14SetObs struct {
	Status string   `json:"status"`
	Rules  []c14Obs `json:"rules,omitempty"`
	Err    string   `json:"err,omitempty"`
}

func c14RunRuleSet(c c14SetCase) (obs c14SetObs) {
	mode := config.DecisionMode
	if c.Proxy {
		mode = config.ProxyMode
	}

	conf := &config.Configuration{}
	if c.Def != nil {
		conf.Default = &config.DefaultRule{
			BacktrackingEnabled: c.Def.Bt,
			Execute:             c14Steps(c.Def.Exec),
			ErrorHandler:        c14Steps(c.Def.Eh),
		}
	}

	var factory rule.Factory

	func() {
		defer func() {
			if p := recover(); p != nil {
				obs = c14SetObs{Status: "factory_panic", Err: fmt.Sprint(p)}
			}
		}()

		f, err := NewRuleFactory(c14Factory{}, conf, mode, zerolog.Nop())
		if err != nil {
			obs = c14SetObs{Status: "factory_failed", Err: err.Error()}

			return
		}

		factory = f
	}()

	if factory == nil {
		return obs
	}

	repo := newRepository(factory).(*repository) //nolint:forcetypeassert

	defer func() {
		if p := recover(); p != nil {
			obs = c14SetObs{Status: "panic", Err: fmt.Sprint(p)}
		}

		// rejected as a whole: nothing of the set may have reached the repository
		if obs.Status != "ok" && len(repo.knownRules) != 0 {
			obs = c14SetObs{Status: "partially_loaded", Err: fmt.Sprintf("%d rules known after %s", len(repo.knownRules), obs.Status)}
		}
	}()

	rs, err := config2.ParseRules("application/yaml", strings.NewReader(c14Yaml(c)), false)
	if err != nil {
		return c14SetObs{Status: "rejected", Err: "parse: " + err.Error()}
	}

	rs.Source = "src"

	if err = NewRuleSetProcessor(repo, factory).OnCreated(rs); err != nil {
		return c14SetObs{Status: "rejected", Err: err.Error()}
	}

	if len(repo.knownRules) != len(c.Rules) {
		return c14SetObs{Status: "partially_loaded", Err: fmt.Sprintf("known rules: %d of %d", len(repo.knownRules), len(c.Rules))}
	}

	obs = c14SetObs{Status: "ok"}

	for i := range c.Rules {
		var found *ruleImpl

		for _, kr := range repo.knownRules {
			if kr.ID() == fmt.Sprintf("r%d", i) {
				found = kr.(*ruleImpl) //nolint:forcetypeassert
			}
		}

		if found == nil {
			return c14SetObs{Status: "partially_loaded", Err: fmt.Sprintf("rule r%d missing", i)}
		}

		obs.Rules = append(obs.Rules, c14Observe(found))
	}

	return obs
}

func c14CoqRule(r c14Rule) string {
	bt := "None"
	if r.Bt != nil {
		bt = "(Some " + vf.CoqBool(*r.Bt) + ")"
	}

	return vf.CoqApp("rd", vf.CoqListOf(r.Exec, c14CoqStep), vf.CoqListOf(r.Eh, c14CoqEh), bt,
		vf.CoqBool(r.Backend), vf.CoqBool(!r.BadMeth))
}

func c14CoqEff(o c14Obs) string {
	return vf.CoqApp("eff", vf.CoqListOf(o.Sc, c14CoqMo), vf.CoqListOf(o.Sh, c14CoqMo),
		vf.CoqListOf(o.Fi, c14CoqMo), vf.CoqListOf(o.Eh, c14CoqMo), vf.CoqBool(o.Bt))
}

func c14CoqSet(c c14SetCase, o c14SetObs) string {
	def := "None"
	if c.Def != nil {
		def = "(Some " + vf.CoqApp("dd", vf.CoqListOf(c.Def.Exec, c14CoqStep), vf.CoqListOf(c.Def.Eh, c14CoqEh),
			vf.CoqBool(c.Def.Bt)) + ")"
	}

	var obs string

	switch o.Status {
	case "factory_failed":
		obs = "SFactoryFailed"
	case "factory_panic":
		obs = "SFactoryPanic"
	case "rejected":
		obs = "(SLoaded Rejected)"
	case "panic":
		obs = "(SLoaded Panic)"
	case "ok":
		obs = "(SLoaded (Ok " + vf.CoqListOf(o.Rules, c14CoqEff) + "))"
	default: // partially_loaded: not expressible in the model's result type, shown as an accepted empty set
		obs = "(SLoaded (Ok []))"
	}

	return vf.CoqApp("crs", vf.CoqBool(c.Proxy), def, vf.CoqListOf(c.Rules, c14CoqRule), obs)
}

func c14GenSet(r *vf.Rand) c14SetCase {
	first := c14Gen(r)
	c := c14SetCase{Proxy: first.Proxy, Def: first.Def, Rules: []c14Rule{first.Rule}}

	// further rules are mostly well-formed so that "one bad rule rejects the set" is exercised
	for i, n := 0, r.Intn(3); i < n; i++ {
		more := c14Gen(r)
		more.Rule.Backend = more.Rule.Backend || first.Proxy && r.Intn(100) < 90
		c.Rules = append(c.Rules, more.Rule)
	}

	if r.Bool() {
		r0 := c.Rules[0]
		last := len(c.Rules) - 1
		c.Rules[0], c.Rules[last] = c.Rules[last], r0
	}

	return c
}

func TestVerifC14RuleSet(t *testing.T) {
	w := vf.NewWriter()
	defer w.Close()

	root := vf.NewRand(vf.Seed() + 1000003)
	n := vf.N(600)
	idx := 0

	emit := func(stream string, c c14SetCase) {
		if vf.Want(idx) {
			o := c14RunRuleSet(c)
			nt := len(c.Rules) > 1 || (len(o.Rules) == 1 && c14Nontrivial(c14Case{Proxy: c.Proxy, Def: c.Def, Rule: c.Rules[0]}, o.Rules[0]))
			w.Put(vf.Obs{
				I: idx, Stream: stream, In: map[string]any{"case": c, "yaml": c14Yaml(c)}, Out: o, Coq: c14CoqSet(c, o),
				Nontrivial: nt, Tags: []string{"rs-status:" + o.Status, fmt.Sprintf("rs-rules:%d", len(c.Rules))},
			})
		}

		idx++
	}

	for _, c := range c14Corpus() {
		emit("corpus", c14SetCase{Proxy: c.Proxy, Def: c.Def, Rules: []c14Rule{c.Rule}})
	}

	for i := 0; i < n; i++ {
		emit("generated", c14GenSet(root.Fork(uint64(i))))
	}
}

func TestVerifC14(t *testing.T) {
	w := vf.NewWriter()
	defer w.Close()

	root := vf.NewRand(vf.Seed())
	n := vf.N(600)
	idx := 0

	emit := func(stream string, c c14Case) {
		if vf.Want(idx) {
			o := c14Run(c)
			w.Put(vf.Obs{
				I: idx, Stream: stream, In: c, Out: o, Coq: c14Coq(c, o),
				Nontrivial: c14Nontrivial(c, o), Tags: []string{"status:" + o.Status},
			})
		}

		idx++
	}

	for _, c := range c14Corpus() {
		emit("corpus", c)
	}

	for i := 0; i < n; i++ {
		emit("generated", c14Gen(root.Fork(uint64(i))))
	}
}
