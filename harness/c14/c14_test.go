//go:build verif

package rules

// C14 drivers: five streams.  This file holds the generators, the stub mechanisms, the observer and the streams
// factory and ruleset; history, wiring and realfactory live in their own files (c14_history_test.go,
// c14_wiring_test.go, c14_real_test.go) and use this file's generator and observer.
//
//   factory (TestVerifC14): generated default rules x rule definitions through the real
//     NewRuleFactory / CreateRule with a stub mechanism catalogue; 40 % of the default rules reach
//     the factory as YAML through the real configuration loader (config.NewConfiguration).
//   history (TestVerifC14History): 2-5 CreateRule calls on ONE factory, the rules derived from each
//     other (c14Derive); one observation per call.
//   ruleset (TestVerifC14RuleSet): the same definitions as YAML text through the real rule-set
//     parser, rule-set processor (OnCreated, or OnUpdated over a preloaded set) and repository.
//   wiring (TestVerifC14Wiring): rule sets through the fx Module of this package, the real file_system
//     provider and the real rule executor.
//   realfactory (TestVerifC14Real): definitions over a catalogue of REAL mechanisms created by
//     the real mechanisms.NewMechanismFactory, with genuinely unknown ids and bad overrides.
//
// Observation (factory, history, ruleset, wiring): only through rule.Rule / rule.Repository /
// rule.Executor — the trace of mechanisms executed by Execute for 12 probe requests (3 methods x
// {nothing fails, the authenticators fail, the authorization stage fails, the finalization stage
// fails}) and AllowsBacktracking().  The stub mechanisms log (kind, id, override marker) into the probe
// carried by the request's context.  realfactory reads the ids of the created mechanisms.

import (
	"context"
	"errors"
	"fmt"
	"net/url"
	"os"
	"path/filepath"
	"strings"
	"testing"

	"github.com/rs/zerolog"

	"github.com/dadrus/heimdall/internal/config"
	"github.com/dadrus/heimdall/internal/heimdall"
	config2 "github.com/dadrus/heimdall/internal/rules/config"
	"github.com/dadrus/heimdall/internal/rules/mechanisms"
	"github.com/dadrus/heimdall/internal/rules/mechanisms/authenticators"
	"github.com/dadrus/heimdall/internal/rules/mechanisms/authorizers"
	"github.com/dadrus/heimdall/internal/rules/mechanisms/contextualizers"
	"github.com/dadrus/heimdall/internal/rules/mechanisms/errorhandlers"
	"github.com/dadrus/heimdall/internal/rules/mechanisms/finalizers"
	"github.com/dadrus/heimdall/internal/rules/mechanisms/subject"
	"github.com/dadrus/heimdall/internal/rules/rule"
	"github.com/dadrus/heimdall/internal/x/errorchain"
	"github.com/dadrus/heimdall/internal/zzverif/vf"
)

// ---- probes -------------------------------------------------------------------

// the condition table (number -> CEL expression) and the probe methods; Run/Eval_C14.v
// [holds] is the truth table of these expressions on these methods (checked by c14SelfCheck)
var (
	c14Conds   = []string{`Request.Method == "GET"`, `Request.Method == "POST"`, `Request.Method != "GET"`, `true == true`}
	c14Methods = []string{"GET", "POST", "PUT"}
	c14Holds   = [][]bool{{true, false, false}, {false, true, false}, {false, true, true}, {true, true, true}}
)

const (
	c14FailNone = iota
	c14FailAuthn
	c14FailMid
	c14FailFin
)

type c14T struct {
	K   string `json:"k"`
	ID  int    `json:"id"`
	Cfg int    `json:"cfg"` // -1: created without override
}

type c14Probe struct {
	fail int
	log  []c14T
}

type c14ProbeKey struct{}

func c14ProbeOf(ctx heimdall.Context) *c14Probe {
	p, _ := ctx.AppContext().Value(c14ProbeKey{}).(*c14Probe)

	return p
}

type c14Ctx struct {
	req *heimdall.Request
	app context.Context //nolint:containedctx
}

func (c *c14Ctx) Request() *heimdall.Request          { return c.req }
func (c *c14Ctx) AddHeaderForUpstream(_, _ string)    {}
func (c *c14Ctx) AddCookieForUpstream(_, _ string)    {}
func (c *c14Ctx) AppContext() context.Context         { return c.app }
func (c *c14Ctx) SetPipelineError(_ error)            {}
func (c *c14Ctx) Outputs() map[string]any             { return map[string]any{} }

type c14ReqFuncs struct{}

func (c14ReqFuncs) Header(string) string       { return "" }
func (c14ReqFuncs) Cookie(string) string       { return "" }
func (c14ReqFuncs) Headers() map[string]string { return map[string]string{} }
func (c14ReqFuncs) Body() any                  { return nil }

func c14NewCtx(method, path string, p *c14Probe) *c14Ctx {
	app := context.Background()
	if p != nil {
		app = context.WithValue(app, c14ProbeKey{}, p)
	}

	return &c14Ctx{
		req: &heimdall.Request{
			RequestFunctions: c14ReqFuncs{},
			Method:           method,
			URL:              &heimdall.URL{URL: url.URL{Scheme: "http", Host: "h.example.com", Path: path}},
		},
		app: app,
	}
}

// ---- stub mechanisms ------------------------------------------------------

type c14Mech struct {
	kind string
	id   int
	cfg  int
}

func (m *c14Mech) ID() string                     { return fmt.Sprintf("%s%d", m.kind, m.id) }
func (m *c14Mech) IsFallbackOnErrorAllowed() bool { return false }
func (m *c14Mech) ContinueOnError() bool          { return false }

func (m *c14Mech) hit(ctx heimdall.Context) *c14Probe {
	p := c14ProbeOf(ctx)
	if p != nil {
		p.log = append(p.log, c14T{m.kind, m.id, m.cfg})
	}

	return p
}

type c14Authn struct{ c14Mech }

func (m *c14Authn) Execute(ctx heimdall.Context) (*subject.Subject, error) {
	if p := m.hit(ctx); p != nil && p.fail == c14FailAuthn {
		return nil, errorchain.NewWithMessage(heimdall.ErrArgument, "probe: no credentials")
	}

	return &subject.Subject{ID: "x", Attributes: map[string]any{}}, nil
}

func (m *c14Authn) WithConfig(map[string]any) (authenticators.Authenticator, error) { return m, nil }

type c14Authz struct{ c14Mech }

func (m *c14Authz) Execute(ctx heimdall.Context, _ *subject.Subject) error {
	if p := m.hit(ctx); p != nil && p.fail == c14FailMid {
		return errorchain.NewWithMessage(heimdall.ErrAuthorization, "probe")
	}

	return nil
}

func (m *c14Authz) WithConfig(map[string]any) (authorizers.Authorizer, error) { return m, nil }

type c14Ctxz struct{ c14Mech }

func (m *c14Ctxz) Execute(ctx heimdall.Context, _ *subject.Subject) error {
	if p := m.hit(ctx); p != nil && p.fail == c14FailMid {
		return errorchain.NewWithMessage(heimdall.ErrCommunication, "probe")
	}

	return nil
}

func (m *c14Ctxz) WithConfig(map[string]any) (contextualizers.Contextualizer, error) { return m, nil }

type c14Fin struct{ c14Mech }

func (m *c14Fin) Execute(ctx heimdall.Context, _ *subject.Subject) error {
	if p := m.hit(ctx); p != nil && p.fail == c14FailFin {
		return errorchain.NewWithMessage(heimdall.ErrInternal, "probe")
	}

	return nil
}

func (m *c14Fin) WithConfig(map[string]any) (finalizers.Finalizer, error) { return m, nil }

type c14Eh struct{ c14Mech }

// when the authenticators are made to fail the error handlers decline, so that the composite
// error handler walks through all of them
func (m *c14Eh) Execute(ctx heimdall.Context, _ error) error {
	if p := m.hit(ctx); p != nil && p.fail == c14FailAuthn {
		return errErrorHandlerNotApplicable
	}

	return nil
}

func (m *c14Eh) WithConfig(map[string]any) (errorhandlers.ErrorHandler, error) { return m, nil }

// the stub catalogue: ids "<n>" are known, anything else is not; an override carrying the key
// "bad" is refused; the override marker is the number under "v" (0 if absent)
type c14Factory struct{}

var (
	errC14Unknown     = errors.New("no such mechanism")
	errC14BadOverride = errors.New("bad override")
)

func c14ParseID(id string) (int, bool) {
	if len(id) == 0 || len(id) > 3 {
		return 0, false
	}

	n := 0

	for _, ch := range id {
		if ch < '0' || ch > '9' {
			return 0, false
		}

		n = n*10 + int(ch-'0')
	}

	return n, true
}

func c14Marker(conf config.MechanismConfig) (int, error) {
	if conf == nil {
		return -1, nil
	}

	if _, bad := conf["bad"]; bad {
		return 0, errC14BadOverride
	}

	switch v := conf["v"].(type) {
	case int:
		return v, nil
	case int64:
		return int(v), nil
	case uint64:
		return int(v), nil
	case float64:
		return int(v), nil
	}

	return 0, nil
}

func c14Stub(kind, id string, conf config.MechanismConfig) (c14Mech, error) {
	n, ok := c14ParseID(id)
	if !ok {
		return c14Mech{}, errC14Unknown
	}

	cfg, err := c14Marker(conf)
	if err != nil {
		return c14Mech{}, err
	}

	return c14Mech{kind, n, cfg}, nil
}

func (c14Factory) CreateAuthenticator(_, id string, conf config.MechanismConfig) (authenticators.Authenticator, error) {
	m, err := c14Stub("KAuthn", id, conf)
	if err != nil {
		return nil, err
	}

	return &c14Authn{m}, nil
}

func (c14Factory) CreateAuthorizer(_, id string, conf config.MechanismConfig) (authorizers.Authorizer, error) {
	m, err := c14Stub("KAuthz", id, conf)
	if err != nil {
		return nil, err
	}

	return &c14Authz{m}, nil
}

func (c14Factory) CreateContextualizer(_, id string, conf config.MechanismConfig) (contextualizers.Contextualizer, error) {
	m, err := c14Stub("KCtx", id, conf)
	if err != nil {
		return nil, err
	}

	return &c14Ctxz{m}, nil
}

func (c14Factory) CreateFinalizer(_, id string, conf config.MechanismConfig) (finalizers.Finalizer, error) {
	m, err := c14Stub("KFin", id, conf)
	if err != nil {
		return nil, err
	}

	return &c14Fin{m}, nil
}

func (c14Factory) CreateErrorHandler(_, id string, conf config.MechanismConfig) (errorhandlers.ErrorHandler, error) {
	m, err := c14Stub("KEh", id, conf)
	if err != nil {
		return nil, err
	}

	return &c14Eh{m}, nil
}

// ---- generated inputs --------------------------------------------------------

type c14Key struct {
	Present bool `json:"present"`
	NotStr  int  `json:"not_str,omitempty"` // 0: a string; 1..4: 42, true, [1], {a: b}
	ID      int  `json:"id"`
	Known   bool `json:"known"`
	// realfactory stream only: the id of a mechanism of another kind
	WrongKind bool `json:"wrong_kind,omitempty"`
}

type c14Step struct {
	Authn c14Key `json:"authn"`
	Authz c14Key `json:"authz"`
	Ctx   c14Key `json:"ctx"`
	Fin   c14Key `json:"fin"`
	Eh    c14Key `json:"eh"`
	If    string `json:"if"`  // nil c0..c3 empty notstr badcel
	Cfg   string `json:"cfg"` // nil m0 m1 m2 badovr scalar list   (realfactory: nil empty good unknown badtype scalar)
}

type c14Default struct {
	Exec []c14Step `json:"exec"`
	Eh   []c14Step `json:"eh"`
	Bt   bool      `json:"bt"`
	Via  string    `json:"via,omitempty"` // struct | yaml (through config.NewConfiguration)
}

// dimensions the pipeline must not depend on
type c14Extra struct {
	SrcID       string `json:"src_id"`
	Version     string `json:"version,omitempty"`
	Slashes     string `json:"slashes,omitempty"`
	Hosts       int    `json:"hosts,omitempty"`
	Methods     bool   `json:"methods,omitempty"`
	Scheme      bool   `json:"scheme,omitempty"`
	ExtraRoutes int    `json:"extra_routes,omitempty"`
	Rewrite     bool   `json:"rewrite,omitempty"`
}

type c14Rule struct {
	Exec    []c14Step `json:"exec"`
	Eh      []c14Step `json:"eh"`
	Bt      *bool     `json:"bt"`
	Backend bool      `json:"backend"`
	BadMeth bool      `json:"bad_methods"`
	Extra   c14Extra  `json:"extra"`
}

type c14Case struct {
	Proxy bool        `json:"proxy"`
	Def   *c14Default `json:"default"`
	Rule  c14Rule     `json:"rule"`
}

func c14GenKey(r *vf.Rand, present bool, bad int) c14Key {
	k := c14Key{Present: present, ID: r.Intn(6), Known: true}
	if present && r.Intn(100) < bad {
		switch r.Intn(5) {
		case 0:
			k.NotStr = 1 + r.Intn(4)
		case 1:
			k.Known, k.WrongKind = false, true
		default:
			k.Known = false
		}
	}

	return k
}

func (s c14Step) keys() []c14Key { return []c14Key{s.Authn, s.Authz, s.Ctx, s.Fin} }

// kind: 0 authn 1 authz 2 ctx 3 fin 4 eh 5 none
func c14GenStep(r *vf.Rand, kind int, bad int) c14Step {
	s := c14Step{If: "nil", Cfg: "nil"}
	s.Authn = c14GenKey(r, kind == 0, bad)
	s.Authz = c14GenKey(r, kind == 1, bad)
	s.Ctx = c14GenKey(r, kind == 2, bad)
	s.Fin = c14GenKey(r, kind == 3, bad)
	s.Eh = c14GenKey(r, kind == 4, bad)

	if kind < 4 && r.Intn(100) < bad/2 { // a second kind key in the same map (outside the statement)
		switch r.Intn(4) {
		case 0:
			s.Authn = c14GenKey(r, true, bad)
		case 1:
			s.Authz = c14GenKey(r, true, bad)
		case 2:
			s.Ctx = c14GenKey(r, true, bad)
		default:
			s.Fin = c14GenKey(r, true, bad)
		}
	}

	// an `if` on an authenticator step is outside the statement: rare
	condShare := 45
	if kind == 0 {
		condShare = bad / 3
	}

	switch x := r.Intn(100); {
	case x < condShare:
		s.If = fmt.Sprintf("c%d", r.Intn(len(c14Conds)))
	case x < condShare+bad/2:
		s.If = vf.Pick(r, []string{"empty", "notstr", "badcel"})
	}

	switch x := r.Intn(100); {
	case x < 40:
		s.Cfg = vf.Pick(r, []string{"m0", "m1", "m2", "m1", "m2"})
	case x < 40+bad/2:
		s.Cfg = vf.Pick(r, []string{"badovr", "badovr", "scalar", "list"})
	}

	return s
}

func c14GenExec(r *vf.Rand, bad int, maxLen int, orderedShare int) []c14Step {
	var kinds []int

	if r.Intn(100) < orderedShare {
		for i, n := 0, r.Intn(3); i < n; i++ {
			kinds = append(kinds, 0)
		}

		for i, n := 0, r.Intn(4); i < n; i++ {
			kinds = append(kinds, 1+r.Intn(2))
		}

		for i, n := 0, r.Intn(3); i < n; i++ {
			kinds = append(kinds, 3)
		}
	} else {
		for i, n := 0, r.Intn(maxLen+1); i < n; i++ {
			k := r.Intn(4)
			if r.Intn(100) < bad/2 {
				k = 5
			}

			kinds = append(kinds, k)
		}
	}

	steps := make([]c14Step, 0, len(kinds))
	for _, k := range kinds {
		steps = append(steps, c14GenStep(r, k, bad))
	}

	return steps
}

func c14GenEh(r *vf.Rand, bad int) []c14Step {
	var steps []c14Step

	for i, n := 0, r.Intn(4); i < n; i++ {
		k := 4
		if r.Intn(100) < bad/2 {
			k = 5
		}

		steps = append(steps, c14GenStep(r, k, bad))
	}

	return steps
}

func c14GenExtra(r *vf.Rand) c14Extra {
	e := c14Extra{
		SrcID:   vf.Pick(r, []string{"src", "src", "kubernetes:ns/rs", "file_system:/etc/rules.yaml", "http_endpoint:https://x/y", ""}),
		Version: vf.Pick(r, []string{"1alpha4", "1alpha4", "1alpha4", "1alpha3", "1beta1", ""}),
		Slashes: vf.Pick(r, []string{"", "", "off", "on", "no_decode"}),
	}

	if r.Intn(3) == 0 {
		e.Hosts = 1 + r.Intn(2)
	}

	e.Methods = r.Intn(3) == 0
	e.Scheme = r.Intn(4) == 0
	e.Rewrite = r.Intn(4) == 0

	if r.Intn(3) == 0 {
		e.ExtraRoutes = 1 + r.Intn(2)
	}

	return e
}

func c14Gen(r *vf.Rand) c14Case {
	bad := vf.Pick(r, []int{0, 0, 6, 15, 40})
	c := c14Case{Proxy: r.Intn(3) == 0}

	if r.Intn(100) < 65 {
		// the default rule is mostly well formed (a failing one prevents start-up and tells nothing about rules)
		dbad, ordered := 0, 97
		if r.Intn(100) < 12 {
			dbad, ordered = bad/2+3, 60
		}

		d := &c14Default{Exec: c14GenExec(r, dbad, 5, ordered), Eh: c14GenEh(r, dbad), Bt: r.Bool(), Via: "struct"}

		if len(d.Exec) == 0 || (!d.Exec[0].Authn.Present && r.Intn(100) < 95) {
			d.Exec = append([]c14Step{c14GenStep(r, 0, 0)}, d.Exec...)
		}

		if r.Intn(100) < 40 {
			d.Via = "yaml"
		}

		c.Def = d
	}

	c.Rule.Exec = c14GenExec(r, bad, 6, 78)
	c.Rule.Eh = c14GenEh(r, bad)

	if r.Intn(100) < 55 {
		b := r.Bool()
		c.Rule.Bt = &b
	}

	c.Rule.Backend = !c.Proxy && r.Intn(4) == 0 || c.Proxy && r.Intn(100) < 85
	c.Rule.BadMeth = r.Intn(100) < bad/4
	c.Rule.Extra = c14GenExtra(r)

	return c
}

// ---- what the generator knows about its own cases (non-triviality, tags) ------------------------

func c14KeyOK(k c14Key, cfg string) bool { return k.NotStr == 0 && k.Known && cfg != "badovr" && cfg != "scalar" && cfg != "list" }

func c14IfOK(s string) bool { return s == "nil" || (len(s) == 2 && s[0] == 'c') }

// the step names exactly one known mechanism with a valid override and condition
func c14StepWellFormed(s c14Step, eh bool) bool {
	if eh {
		return s.Eh.Present && c14KeyOK(s.Eh, s.Cfg) && c14IfOK(s.If)
	}

	n := 0

	for _, k := range s.keys() {
		if k.Present {
			n++

			if !c14KeyOK(k, s.Cfg) {
				return false
			}
		}
	}

	return n == 1 && c14IfOK(s.If) && !(s.Authn.Present && s.If != "nil")
}

func c14StepScoped(s c14Step) bool {
	n := 0

	for _, k := range s.keys() {
		if k.Present {
			n++
		}
	}

	return n <= 1 && !(s.Authn.Present && s.If != "nil")
}

func c14AllWellFormed(exec, eh []c14Step) bool {
	for _, s := range exec {
		if !c14StepWellFormed(s, false) {
			return false
		}
	}

	for _, s := range eh {
		if !c14StepWellFormed(s, true) {
			return false
		}
	}

	return true
}

func c14Scoped(c c14Case) bool {
	for _, s := range c.Rule.Exec {
		if !c14StepScoped(s) {
			return false
		}
	}

	if c.Def != nil {
		for _, s := range c.Def.Exec {
			if !c14StepScoped(s) {
				return false
			}
		}
	}

	return true
}

func c14Stages(exec []c14Step) (a, h, f int) {
	for _, s := range exec {
		switch {
		case s.Authn.Present:
			a++
		case s.Authz.Present, s.Ctx.Present:
			h++
		case s.Fin.Present:
			f++
		}
	}

	return a, h, f
}

// Non-trivial: (1) a loaded rule that takes over at least one NON-EMPTY stage of the default rule
// (its own stage is empty, the default rule's is not); (2) a rejected definition inside the scope of
// the statement all of whose steps are individually well formed, so that the rejection is due to the
// order, the missing authenticator or the missing forward_to.
func c14Nontrivial(c c14Case, loaded, rejected bool) bool {
	if !c14Scoped(c) {
		return false
	}

	if loaded && c.Def != nil {
		a, h, f := c14Stages(c.Rule.Exec)
		da, dh, df := c14Stages(c.Def.Exec)

		return (a == 0 && da > 0) || (h == 0 && dh > 0) || (f == 0 && df > 0) || (len(c.Rule.Eh) == 0 && len(c.Def.Eh) > 0)
	}

	return rejected && len(c.Rule.Exec) >= 1 && c14AllWellFormed(c.Rule.Exec, c.Rule.Eh) && !c.Rule.BadMeth
}

func c14Tags(c c14Case, status string) []string {
	tags := []string{"status:" + status, fmt.Sprintf("scoped:%v", c14Scoped(c)), fmt.Sprintf("proxy:%v", c.Proxy)}

	if c.Def == nil {
		tags = append(tags, "default:none")
	} else {
		_, dh, df := c14Stages(c.Def.Exec)
		shape := "partial"

		if dh > 0 && df > 0 && len(c.Def.Eh) > 0 {
			shape = "complete"
		}

		tags = append(tags, "default:"+shape, "default-via:"+c.Def.Via)
	}

	a, h, f := c14Stages(c.Rule.Exec)
	b2 := func(n int) int {
		if n > 0 {
			return 1
		}

		return 0
	}
	tags = append(tags, fmt.Sprintf("own-stages:a%dh%df%de%d", b2(a), b2(h), b2(f), b2(len(c.Rule.Eh))))

	switch {
	case c.Rule.Bt == nil:
		tags = append(tags, "bt:unset")
	case *c.Rule.Bt:
		tags = append(tags, "bt:on")
	default:
		tags = append(tags, "bt:off")
	}

	conds, ovr := 0, 0

	for _, s := range append(append([]c14Step{}, c.Rule.Exec...), c.Rule.Eh...) {
		if len(s.If) == 2 && s.If[0] == 'c' {
			conds++
		}

		if len(s.Cfg) == 2 && s.Cfg[0] == 'm' {
			ovr++
		}
	}

	tags = append(tags, fmt.Sprintf("conditional-steps:%d", min(conds, 3)), fmt.Sprintf("overridden-steps:%d", min(ovr, 3)))

	return tags
}

// ---- to heimdall configuration -------------------------------------------------

func c14KeyVal(k c14Key) any {
	switch k.NotStr {
	case 1:
		return 42
	case 2:
		return true
	case 3:
		return []any{1}
	case 4:
		return map[string]any{"a": "b"}
	}

	if k.Known {
		return fmt.Sprintf("%d", k.ID)
	}

	if k.WrongKind {
		return ""
	}

	return fmt.Sprintf("u%d", k.ID)
}

func c14IfVal(s string) (any, bool) {
	switch s {
	case "nil":
		return nil, false
	case "empty":
		return "", true
	case "notstr":
		return 17, true
	case "badcel":
		return "foo(", true
	}

	return c14Conds[int(s[1]-'0')], true
}

func c14CfgVal(s string) (any, bool) {
	switch s {
	case "m0":
		return map[string]any{}, true
	case "m1":
		return map[string]any{"v": 1}, true
	case "m2":
		return map[string]any{"v": 2, "w": "x"}, true
	case "badovr":
		return map[string]any{"bad": true}, true
	case "scalar":
		return "scalar", true
	case "list":
		return []any{1, 2}, true
	}

	return nil, false
}

type c14KV struct {
	k string
	v any
}

// the entries of a step map in a fixed order (also the order of the YAML rendering)
func c14StepEntries(s c14Step, keyVal func(c14Key, string) any, cfgVal func(c14Step) (any, bool)) []c14KV {
	var out []c14KV

	for _, e := range []struct {
		name string
		k    c14Key
	}{{"authenticator", s.Authn}, {"authorizer", s.Authz}, {"contextualizer", s.Ctx}, {"finalizer", s.Fin}, {"error_handler", s.Eh}} {
		if e.k.Present {
			out = append(out, c14KV{e.name, keyVal(e.k, e.name)})
		}
	}

	if v, ok := c14IfVal(s.If); ok {
		out = append(out, c14KV{"if", v})
	}

	if v, ok := cfgVal(s); ok {
		out = append(out, c14KV{"config", v})
	}

	return out
}

func c14StubEntries(s c14Step) []c14KV {
	return c14StepEntries(s, func(k c14Key, _ string) any { return c14KeyVal(k) },
		func(s c14Step) (any, bool) { return c14CfgVal(s.Cfg) })
}

func c14Steps(ss []c14Step, entries func(c14Step) []c14KV) []config.MechanismConfig {
	var out []config.MechanismConfig

	for _, s := range ss {
		m := config.MechanismConfig{}
		for _, e := range entries(s) {
			m[e.k] = e.v
		}

		out = append(out, m)
	}

	return out
}

// ---- YAML rendering (flow style values) ---------------------------------------------------------

func c14YamlVal(v any) string {
	switch x := v.(type) {
	case int:
		return fmt.Sprintf("%d", x)
	case bool:
		return fmt.Sprintf("%v", x)
	case string:
		return fmt.Sprintf("%q", x)
	case []any:
		parts := make([]string, len(x))
		for i, e := range x {
			parts[i] = c14YamlVal(e)
		}

		return "[" + strings.Join(parts, ", ") + "]"
	case map[string]any:
		keys := make([]string, 0, len(x))
		for k := range x {
			keys = append(keys, k)
		}

		// sorted: the rendering must not depend on map iteration order
		for i := range keys {
			for j := i + 1; j < len(keys); j++ {
				if keys[j] < keys[i] {
					keys[i], keys[j] = keys[j], keys[i]
				}
			}
		}

		parts := make([]string, len(keys))
		for i, k := range keys {
			parts[i] = k + ": " + c14YamlVal(x[k])
		}

		return "{" + strings.Join(parts, ", ") + "}"
	}

	return "null"
}

func c14YamlSteps(sb *strings.Builder, indent, key string, steps []c14Step, entries func(c14Step) []c14KV) {
	if len(steps) == 0 {
		return
	}

	sb.WriteString(indent + key + ":\n")

	for _, s := range steps {
		es := entries(s)
		if len(es) == 0 {
			sb.WriteString(indent + "  - {}\n")

			continue
		}

		for i, e := range es {
			if i == 0 {
				sb.WriteString(indent + "  - ")
			} else {
				sb.WriteString(indent + "    ")
			}

			sb.WriteString(e.k + ": " + c14YamlVal(e.v) + "\n")
		}
	}
}

// ---- the default rule: struct literal or YAML through the real configuration loader -------------

func c14DefaultYaml(d *c14Default, entries func(c14Step) []c14KV) string {
	var sb strings.Builder

	sb.WriteString("default_rule:\n")
	sb.WriteString(fmt.Sprintf("  backtracking_enabled: %v\n", d.Bt))
	c14YamlSteps(&sb, "  ", "execute", d.Exec, entries)
	c14YamlSteps(&sb, "  ", "on_error", d.Eh, entries)

	return sb.String()
}

var c14TmpDir string //nolint:gochecknoglobals

func c14DefaultConf(t *testing.T, d *c14Default, entries func(c14Step) []c14KV) *config.DefaultRule {
	t.Helper()

	if d == nil {
		return nil
	}

	literal := &config.DefaultRule{
		BacktrackingEnabled: d.Bt,
		Execute:             c14Steps(d.Exec, entries),
		ErrorHandler:        c14Steps(d.Eh, entries),
	}

	if d.Via != "yaml" {
		return literal
	}

	if c14TmpDir == "" {
		c14TmpDir = t.TempDir()
	}

	path := filepath.Join(c14TmpDir, "heimdall.yaml")
	if err := os.WriteFile(path, []byte(c14DefaultYaml(d, entries)), 0o600); err != nil {
		t.Fatalf("driver error: %v", err)
	}

	conf, err := config.NewConfiguration("ZZVERIFC14NOENV_", config.ConfigurationPath(path))
	if err != nil {
		// the configuration schema is stricter than the factory (e.g. it refuses two equal steps): not this
		// property's business; such a default rule reaches the factory as a literal
		d.Via = "struct-loader-refused"

		return literal
	}

	if conf.Default == nil {
		// the loader lost the default rule altogether: hand over what it delivered (nothing)
		return nil
	}

	return conf.Default
}

// ---- observation ---------------------------------------------------------------

type c14Run struct {
	Err   bool   `json:"err"`
	Trace []c14T `json:"trace"`
}

type c14RObs struct {
	Runs []c14Run `json:"runs"`
	Bt   bool     `json:"bt"`
}

type c14Obs struct {
	Status string   `json:"status"` // factory_failed factory_panic rejected panic ok
	Rule   *c14RObs `json:"rule,omitempty"`
	Err    string   `json:"err,omitempty"`
	Class  string   `json:"class,omitempty"` // error class of a rejection (histogram only)
}

// the 12 probes, in the order of Model.probes, through [exec] (rule.Rule.Execute or rule.Executor.Execute)
func c14RunsVia(exec func(heimdall.Context) (rule.Backend, error), path string) []c14Run {
	var runs []c14Run

	for _, fail := range []int{c14FailNone, c14FailAuthn, c14FailMid, c14FailFin} {
		for _, meth := range c14Methods {
			p := &c14Probe{fail: fail}
			_, err := exec(c14NewCtx(meth, path, p))
			runs = append(runs, c14Run{Err: err != nil, Trace: p.log})
		}
	}

	return runs
}

func c14Runs(rul rule.Rule, path string) []c14Run { return c14RunsVia(rul.Execute, path) }

func c14ObserveRule(rul rule.Rule, path string) *c14RObs {
	return &c14RObs{Runs: c14Runs(rul, path), Bt: rul.AllowsBacktracking()}
}

func c14ErrClass(err error) string {
	switch {
	case errors.Is(err, heimdall.ErrConfiguration):
		return "configuration"
	case errors.Is(err, heimdall.ErrInternal):
		return "internal"
	case errors.Is(err, errC14Unknown), errors.Is(err, errC14BadOverride):
		return "mechanism-factory"
	}

	return "other"
}

func c14Mode(proxy bool) config.OperationMode {
	if proxy {
		return config.ProxyMode
	}

	return config.DecisionMode
}

// NewRuleFactory under recover; status "" = created
func c14NewFactory(hf mechanisms.MechanismFactory, def *config.DefaultRule, proxy bool) (f rule.Factory, status, msg string) {
	defer func() {
		if p := recover(); p != nil {
			f, status, msg = nil, "factory_panic", fmt.Sprint(p)
		}
	}()

	rf, err := NewRuleFactory(hf, &config.Configuration{Default: def}, c14Mode(proxy), zerolog.Nop())
	if err != nil {
		return nil, "factory_failed", err.Error()
	}

	return rf, "", ""
}

func c14RuleConfig(r c14Rule, id, path string, entries func(c14Step) []c14KV) config2.Rule {
	rc := config2.Rule{
		ID:                     id,
		EncodedSlashesHandling: config2.EncodedSlashesHandling(r.Extra.Slashes),
		Matcher:                config2.Matcher{Routes: []config2.Route{{Path: path}}, BacktrackingEnabled: r.Bt},
		Execute:                c14Steps(r.Exec, entries),
		ErrorHandler:           c14Steps(r.Eh, entries),
	}

	for i := 0; i < r.Extra.ExtraRoutes; i++ {
		rc.Matcher.Routes = append(rc.Matcher.Routes, config2.Route{
			Path:       fmt.Sprintf("/x%s/%d/:id", path, i),
			PathParams: []config2.ParameterMatcher{{Name: "id", Type: "glob", Value: "[0-9]*"}},
		})
	}

	switch r.Extra.Hosts {
	case 1:
		rc.Matcher.Hosts = []config2.HostMatcher{{Type: "exact", Value: "h.example.com"}}
	case 2:
		rc.Matcher.Hosts = []config2.HostMatcher{{Type: "glob", Value: "*.example.com"}, {Type: "exact", Value: "other"}}
	}

	if r.Extra.Methods {
		rc.Matcher.Methods = []string{"GET", "POST", "PUT", "DELETE"}
	}

	if r.Extra.Scheme {
		rc.Matcher.Scheme = "http"
	}

	if r.BadMeth {
		rc.Matcher.Methods = []string{""}
	}

	if r.Backend {
		rc.Backend = &config2.Backend{Host: "up.example.com"}
		if r.Extra.Rewrite {
			rc.Backend.URLRewriter = &config2.URLRewriter{Scheme: "https"}
		}
	}

	return rc
}

// CreateRule under recover; the observation is taken OUTSIDE the recover scope, so that a panic of
// the driver's own code is a failing driver and not an observation
func c14Create(f rule.Factory, version, src string, rc config2.Rule) (rul rule.Rule, o c14Obs) {
	func() {
		defer func() {
			if p := recover(); p != nil {
				rul, o = nil, c14Obs{Status: "panic", Err: fmt.Sprint(p)}
			}
		}()

		r, err := f.CreateRule(version, src, rc)
		if err != nil {
			o = c14Obs{Status: "rejected", Err: err.Error(), Class: c14ErrClass(err)}

			return
		}

		rul, o = r, c14Obs{Status: "ok"}
	}()

	return rul, o
}

func c14RunCase(t *testing.T, c c14Case) c14Obs {
	t.Helper()

	f, status, msg := c14NewFactory(c14Factory{}, c14DefaultConf(t, c.Def, c14StubEntries), c.Proxy)
	if f == nil {
		return c14Obs{Status: status, Err: msg}
	}

	rul, o := c14Create(f, c.Rule.Extra.Version, c.Rule.Extra.SrcID, c14RuleConfig(c.Rule, "r", "/a", c14StubEntries))
	if rul != nil {
		o.Rule = c14ObserveRule(rul, "/a")
	}

	return o
}

// ---- rendering for Coq -----------------------------------------------------------

func c14CoqKey(k c14Key, ok bool) string {
	if !k.Present {
		return "None"
	}

	return "(Some (kv " + vf.CoqOpt(k.NotStr == 0, vf.CoqNat(k.ID)) + " " + vf.CoqBool(ok) + "))"
}

func c14CoqIf(s string) string {
	if len(s) == 2 && s[0] == 'c' {
		return "(CondOk " + vf.CoqNat(int(s[1]-'0')) + ")"
	}

	return map[string]string{"nil": "CondNil", "empty": "CondEmpty", "notstr": "CondNotStr", "badcel": "CondBadCel"}[s]
}

func c14CoqCfg(s string) string {
	switch s {
	case "nil":
		return "CfgNil"
	case "m0", "m1", "m2":
		return "(CfgMap " + vf.CoqNat(int(s[1]-'0')) + ")"
	case "badovr":
		return "(CfgMap 0%nat)"
	}

	return "CfgBad"
}

// k_ok of the stub catalogue: the id is known and the override does not carry the key "bad"
func c14StubOK(k c14Key, cfg string) bool { return k.Known && cfg != "badovr" }

func c14CoqStep(s c14Step) string {
	return vf.CoqApp("st", c14CoqKey(s.Authn, c14StubOK(s.Authn, s.Cfg)), c14CoqKey(s.Authz, c14StubOK(s.Authz, s.Cfg)),
		c14CoqKey(s.Ctx, c14StubOK(s.Ctx, s.Cfg)), c14CoqKey(s.Fin, c14StubOK(s.Fin, s.Cfg)), c14CoqIf(s.If), c14CoqCfg(s.Cfg))
}

func c14CoqEh(s c14Step) string {
	return vf.CoqApp("eh", c14CoqKey(s.Eh, c14StubOK(s.Eh, s.Cfg)), c14CoqIf(s.If), c14CoqCfg(s.Cfg))
}

// compact rendering (the observations are most of a case file): (ta 1 0) = authenticator "1" without override,
// (tf 2 3) = finalizer "2" with override marker 2; (rt [..]) / (rf [..]) = Execute returned an error / did not
func c14CoqT(e c14T) string {
	f := map[string]string{"KAuthn": "ta", "KAuthz": "tz", "KCtx": "tc", "KFin": "tf", "KEh": "te"}[e.K]

	return fmt.Sprintf("(%s %d %d)", f, e.ID, e.Cfg+1)
}

func c14CoqRun(r c14Run) string {
	if r.Err {
		return "(rt " + vf.CoqListOf(r.Trace, c14CoqT) + ")"
	}

	return "(rf " + vf.CoqListOf(r.Trace, c14CoqT) + ")"
}

func c14CoqRObs(o *c14RObs) string {
	return vf.CoqApp("ro", vf.CoqListOf(o.Runs, c14CoqRun), vf.CoqBool(o.Bt))
}

func c14CoqObs(o c14Obs) string {
	switch o.Status {
	case "factory_failed":
		return "FactoryFailed"
	case "factory_panic":
		return "FactoryPanic"
	case "rejected":
		return "(Loaded Rejected)"
	case "panic":
		return "(Loaded Panic)"
	}

	return "(Loaded (Ok " + c14CoqRObs(o.Rule) + "))"
}

func c14CoqDefault(d *c14Default, step, eh func(c14Step) string) string {
	if d == nil {
		return "None"
	}

	return "(Some " + vf.CoqApp("dd", vf.CoqListOf(d.Exec, step), vf.CoqListOf(d.Eh, eh), vf.CoqBool(d.Bt)) + ")"
}

func c14CoqRule(r c14Rule, step, eh func(c14Step) string) string {
	bt := "None"
	if r.Bt != nil {
		bt = "(Some " + vf.CoqBool(*r.Bt) + ")"
	}

	return vf.CoqApp("rd", vf.CoqListOf(r.Exec, step), vf.CoqListOf(r.Eh, eh), bt,
		vf.CoqBool(r.Backend), vf.CoqBool(!r.BadMeth))
}

func c14Coq(c c14Case, o c14Obs) string {
	return vf.CoqApp("cs", vf.CoqBool(c.Proxy), c14CoqDefault(c.Def, c14CoqStep, c14CoqEh),
		c14CoqRule(c.Rule, c14CoqStep, c14CoqEh), c14CoqObs(o))
}

// ---- corpus ------------------------------------------------------------------------

func c14Corpus() []c14Case {
	tr := true
	k := func(id int) c14Key { return c14Key{Present: true, ID: id, Known: true} }
	au := c14Step{Authn: k(1), If: "nil", Cfg: "nil"}
	au2 := c14Step{Authn: k(4), If: "nil", Cfg: "m1"}
	fi := c14Step{Fin: k(2), If: "c0", Cfg: "nil"}
	az := c14Step{Authz: k(3), If: "nil", Cfg: "m1"}
	cx := c14Step{Ctx: k(5), If: "c2", Cfg: "m2"}
	e1 := c14Step{Eh: k(1), If: "c1", Cfg: "nil"}
	e2 := c14Step{Eh: k(2), If: "nil", Cfg: "m2"}
	ex := c14Extra{SrcID: "src", Version: "1alpha4"}
	rl := func(r c14Rule) c14Rule { r.Extra = ex; return r }
	full := &c14Default{Exec: []c14Step{au, az, cx, fi}, Eh: []c14Step{e1, e2}, Bt: true, Via: "struct"}
	fullY := &c14Default{Exec: []c14Step{au, az, cx, fi}, Eh: []c14Step{e1, e2}, Bt: true, Via: "yaml"}

	return []c14Case{
		// C14-F1 witness (fixed by 97aaffa): no default rule, rule asks for backtracking
		{Rule: rl(c14Rule{Exec: []c14Step{au}, Bt: &tr})},
		// partial default, rule defines only a finalizer
		{Def: &c14Default{Exec: []c14Step{au, az}, Bt: true, Via: "struct"}, Rule: rl(c14Rule{Exec: []c14Step{fi}})},
		// finalizer before authorizer
		{Rule: rl(c14Rule{Exec: []c14Step{au, fi, az}})},
		// authenticator after authorizer
		{Rule: rl(c14Rule{Exec: []c14Step{az, au}})},
		// proxy mode without forward_to
		{Proxy: true, Rule: rl(c14Rule{Exec: []c14Step{au}})},
		// no authenticator anywhere
		{Rule: rl(c14Rule{Exec: []c14Step{az}})},
		// complete default rule (from YAML, backtracking on): a rule defining nothing but on_error
		{Def: fullY, Rule: rl(c14Rule{Eh: []c14Step{e2}})},
		// seeded C14-1: rule with all three execute stages and no on_error inherits the error handlers
		{Def: full, Rule: rl(c14Rule{Exec: []c14Step{au2, cx, fi}})},
		// seeded C14-2: authorizer before contextualizer stays before it
		{Def: full, Rule: rl(c14Rule{Exec: []c14Step{az, cx}})},
		// seeded C14-3: own conditional error handlers replace the default rule's
		{Def: full, Rule: rl(c14Rule{Eh: []c14Step{e1}})},
		// audit blind spot 1: rule-level overrides reach the mechanisms
		{Def: full, Rule: rl(c14Rule{Exec: []c14Step{au2, az, cx, {Fin: k(0), If: "nil", Cfg: "m2"}}, Eh: []c14Step{e2}})},
		// audit blind spot 6: every step keeps its own condition
		{Rule: rl(c14Rule{Exec: []c14Step{au, {Authz: k(0), If: "c0", Cfg: "nil"}, {Authz: k(1), If: "c1", Cfg: "nil"}, {Ctx: k(2), If: "c2", Cfg: "nil"}, {Fin: k(3), If: "c3", Cfg: "nil"}}})},
		// bad override (known mechanism) and unknown mechanism
		{Rule: rl(c14Rule{Exec: []c14Step{au, {Authz: k(0), If: "nil", Cfg: "badovr"}}})},
		{Rule: rl(c14Rule{Exec: []c14Step{au, {Fin: c14Key{Present: true, ID: 0}, If: "nil", Cfg: "nil"}}})},
		// backtracking: own off over default on; unset without default
		{Def: full, Rule: rl(c14Rule{Exec: []c14Step{au}, Bt: new(bool)})},
		{Rule: rl(c14Rule{Exec: []c14Step{au}})},
	}
}

// the CEL library must agree with the truth table the evaluator uses (Run/Eval_C14.v [holds])
func c14SelfCheck(t *testing.T) {
	t.Helper()

	for ci, ex := range c14Conds {
		cond, err := newCelExecutionCondition(ex)
		if err != nil {
			t.Fatalf("driver error: condition %q does not compile: %v", ex, err)
		}

		for mi, m := range c14Methods {
			got, err := cond.CanExecuteOnSubject(c14NewCtx(m, "/a", nil), &subject.Subject{ID: "x"})
			if err != nil || got != c14Holds[ci][mi] {
				t.Fatalf("driver error: condition %q on %s: %v %v, table says %v", ex, m, got, err, c14Holds[ci][mi])
			}

			got, err = cond.CanExecuteOnError(c14NewCtx(m, "/a", nil), heimdall.ErrArgument)
			if err != nil || got != c14Holds[ci][mi] {
				t.Fatalf("driver error: condition %q on %s (error): %v %v, table says %v", ex, m, got, err, c14Holds[ci][mi])
			}
		}
	}
}

func TestVerifC14(t *testing.T) {
	c14SelfCheck(t)

	w := vf.NewWriter()
	defer w.Close()

	root := vf.NewRand(vf.Seed())
	n := vf.N(600)
	idx := 0

	emit := func(stream string, c c14Case) {
		if vf.Want(idx) {
			o := c14RunCase(t, c)
			tags := c14Tags(c, o.Status)

			if o.Class != "" {
				tags = append(tags, "reject-class:"+o.Class)
			}

			w.Put(vf.Obs{
				I: idx, Stream: stream, In: c, Out: o, Coq: c14Coq(c, o),
				Nontrivial: c14Nontrivial(c, o.Status == "ok", o.Status == "rejected"), Tags: tags,
			})
		}

		idx++
	}

	for _, c := range c14Corpus() {
		emit("corpus", c)
	}

	for i := 0; i < n; i++ {
		emit("generated", c14Gen(root.Fork(uint64(i))))
	}
}

// ---- stream 2: YAML rule set -> real parser -> real processor -> real repository ----

type c14SetCase struct {
	Proxy   bool        `json:"proxy"`
	Def     *c14Default `json:"default"`
	Op      string      `json:"op"`      // create | update
	Preload int         `json:"preload"` // rules r0.. loaded before an update
	Version string      `json:"version"`
	Rules   []c14Rule   `json:"rules"`
}

func c14RuleYaml(sb *strings.Builder, r c14Rule, i int, entries func(c14Step) []c14KV) {
	sb.WriteString(fmt.Sprintf("  - id: r%d\n", i))

	if r.Extra.Slashes != "" {
		sb.WriteString("    allow_encoded_slashes: " + r.Extra.Slashes + "\n")
	}

	sb.WriteString(fmt.Sprintf("    match:\n      routes:\n        - path: /p%d\n", i))

	for j := 0; j < r.Extra.ExtraRoutes; j++ {
		sb.WriteString(fmt.Sprintf("        - path: /x/p%d/%d/:id\n          path_params:\n            - { name: id, type: glob, value: \"[0-9]*\" }\n", i, j))
	}

	if r.Bt != nil {
		sb.WriteString(fmt.Sprintf("      backtracking_enabled: %v\n", *r.Bt))
	}

	switch {
	case r.BadMeth:
		sb.WriteString("      methods: [ \"\" ]\n")
	case r.Extra.Methods:
		sb.WriteString("      methods: [ GET, POST, PUT, DELETE ]\n")
	}

	switch r.Extra.Hosts {
	case 1:
		sb.WriteString("      hosts:\n        - { type: exact, value: h.example.com }\n")
	case 2:
		sb.WriteString("      hosts:\n        - { type: glob, value: \"*.example.com\" }\n        - { type: exact, value: other }\n")
	}

	if r.Extra.Scheme {
		sb.WriteString("      scheme: http\n")
	}

	if r.Backend {
		sb.WriteString("    forward_to:\n      host: up.example.com\n")

		if r.Extra.Rewrite {
			sb.WriteString("      rewrite:\n        scheme: https\n")
		}
	}

	c14YamlSteps(sb, "    ", "execute", r.Exec, entries)
	c14YamlSteps(sb, "    ", "on_error", r.Eh, entries)
}

func c14SetYaml(version string, rules []c14Rule) string {
	var sb strings.Builder

	sb.WriteString(fmt.Sprintf("version: %q\nname: test\nrules:\n", version))

	for i, r := range rules {
		c14RuleYaml(&sb, r, i, c14StubEntries)
	}

	return sb.String()
}

// the preloaded rules: one authenticator "9", forward_to present (Model.old_rule_def)
func c14OldRules(k int) []c14Rule {
	var out []c14Rule

	for i := 0; i < k; i++ {
		out = append(out, c14Rule{
			Exec:    []c14Step{{Authn: c14Key{Present: true, ID: 9, Known: true}, If: "nil", Cfg: "nil"}},
			Backend: true,
		})
	}

	return out
}

type c14Served struct {
	Kind string    `json:"kind"` // none default rule
	ID   string    `json:"id,omitempty"`
	Runs []c14Run  `json:"runs,omitempty"`
	Rule *c14RObs  `json:"rule,omitempty"`
}

type c14SetObs struct {
	Status   string      `json:"status"` // factory_failed factory_panic panic accepted rejected
	Served   []c14Served `json:"served,omitempty"`
	Err      string      `json:"err,omitempty"`
	Class    string      `json:"class,omitempty"`
	PreError string      `json:"pre_error,omitempty"`
}

func c14ParseSet(t *testing.T, yaml, src string) (*config2.RuleSet, error) {
	t.Helper()

	rs, err := config2.ParseRules("application/yaml", strings.NewReader(yaml), false)
	if err != nil {
		return nil, err
	}

	rs.Source = src

	return rs, nil
}

func c14RunRuleSet(t *testing.T, c c14SetCase) c14SetObs {
	t.Helper()

	factory, status, msg := c14NewFactory(c14Factory{}, c14DefaultConf(t, c.Def, c14StubEntries), c.Proxy)
	if factory == nil {
		return c14SetObs{Status: status, Err: msg}
	}

	repo := newRepository(factory)
	proc := NewRuleSetProcessor(repo, factory)
	src := c.Rules[0].Extra.SrcID

	if c.Preload > 0 {
		old, err := c14ParseSet(t, c14SetYaml(config2.CurrentRuleSetVersion, c14OldRules(c.Preload)), src)
		if err == nil {
			err = proc.OnCreated(old)
		}

		if err != nil {
			t.Fatalf("driver error: the preloaded rule set is refused: %v", err)
		}
	}

	obs := c14SetObs{}

	func() {
		defer func() {
			if p := recover(); p != nil {
				obs = c14SetObs{Status: "panic", Err: fmt.Sprint(p)}
			}
		}()

		rs, err := c14ParseSet(t, c14SetYaml(c.Version, c.Rules), src)
		if err != nil {
			obs = c14SetObs{Status: "rejected", Err: "parse: " + err.Error(), Class: "parse"}

			return
		}

		if c.Op == "create" {
			err = proc.OnCreated(rs)
		} else {
			err = proc.OnUpdated(rs)
		}

		if err != nil {
			obs = c14SetObs{Status: "rejected", Err: err.Error(), Class: c14ErrClass(err)}

			return
		}

		obs = c14SetObs{Status: "accepted"}
	}()

	if obs.Status == "panic" {
		return obs
	}

	obs.Served = c14ServedBy(t, repo, factory, nil)

	return obs
}

// what the repository serves: one lookup per path /p0../p3, then the probes on the rule found (through the
// rule itself, or through [exec] — the rule executor of the wired application — if given)
func c14ServedBy(t *testing.T, repo rule.Repository, factory rule.Factory, exec func(heimdall.Context) (rule.Backend, error)) []c14Served {
	t.Helper()

	var served []c14Served

	for i := 0; i < 4; i++ {
		path := fmt.Sprintf("/p%d", i)

		rul, err := repo.FindRule(c14NewCtx("GET", path, nil))
		if err != nil {
			served = append(served, c14Served{Kind: "none"})

			continue
		}

		run := rul.Execute
		if exec != nil {
			run = exec
		}

		if factory.HasDefaultRule() && rul == factory.DefaultRule() {
			served = append(served, c14Served{Kind: "default", Runs: c14RunsVia(run, path)})

			continue
		}

		if rul.ID() != fmt.Sprintf("r%d", i) {
			t.Fatalf("driver error: path %s is served by rule %q", path, rul.ID())
		}

		served = append(served, c14Served{Kind: "rule", ID: rul.ID(), Rule: &c14RObs{Runs: c14RunsVia(run, path), Bt: rul.AllowsBacktracking()}})
	}

	return served
}

func c14CoqServed(s c14Served) string {
	switch s.Kind {
	case "none":
		return "SNone"
	case "default":
		return "(SDefault " + vf.CoqListOf(s.Runs, c14CoqRun) + ")"
	}

	return "(SRule " + c14CoqRObs(s.Rule) + ")"
}

func c14CoqSet(c c14SetCase, o c14SetObs) string {
	var obs string

	switch o.Status {
	case "factory_failed":
		obs = "SFactoryFailed"
	case "factory_panic":
		obs = "SFactoryPanic"
	case "panic":
		obs = "SPanic"
	default:
		obs = vf.CoqApp("SDone", vf.CoqBool(o.Status == "accepted"), vf.CoqListOf(o.Served, c14CoqServed))
	}

	rules := vf.CoqListOf(c.Rules, func(r c14Rule) string { return c14CoqRule(r, c14CoqStep, c14CoqEh) })

	return vf.CoqApp("crs", vf.CoqBool(c.Proxy), c14CoqDefault(c.Def, c14CoqStep, c14CoqEh), vf.CoqNat(c.Preload),
		vf.CoqBool(c.Version == config2.CurrentRuleSetVersion), rules, obs)
}

// a well-formed rule for this default rule and mode (used for the other rules of a set, so that "one bad rule
// rejects the set" and "a good set replaces the old one" are both exercised)
func c14GenGoodRule(r *vf.Rand, proxy bool, def *c14Default) c14Rule {
	c := c14Gen(r)
	rl := c.Rule
	rl.Exec = c14GenExec(r, 0, 6, 100)
	rl.Eh = c14GenEh(r, 0)
	rl.BadMeth = false
	rl.Backend = rl.Backend || proxy

	if a, _, _ := c14Stages(rl.Exec); a == 0 && (def == nil || len(rl.Exec) == 0) {
		rl.Exec = append([]c14Step{c14GenStep(r, 0, 0)}, rl.Exec...)
	}

	return rl
}

// A rule derived from an earlier rule of the same factory's history: it re-uses some of that rule's stage
// lists byte for byte and varies the others, so that anything the factory (or the processor, the repository)
// keeps between two CreateRule calls and keys by part of a definition shows: same execute / other on_error,
// same on_error / other execute, the same definition with one broken reference, the same pipelines with other
// matcher-level settings.
func c14Derive(r *vf.Rand, base c14Rule, proxy bool, def *c14Default) (c14Rule, string) {
	cp := func(ss []c14Step) []c14Step { return append([]c14Step(nil), ss...) }
	d := base
	d.Exec, d.Eh = cp(base.Exec), cp(base.Eh)
	how := ""

	breakStep := func(st c14Step, eh bool) c14Step {
		switch r.Intn(4) {
		case 0:
			st.Cfg = "badovr"
		case 1:
			st.If = vf.Pick(r, []string{"badcel", "empty", "notstr"})
		default:
			for _, k := range []*c14Key{&st.Authn, &st.Authz, &st.Ctx, &st.Fin, &st.Eh} {
				if k.Present {
					k.Known = false
				}
			}
		}

		if !eh && st.Authn.Present && st.If != "nil" {
			st.If, st.Cfg = "nil", "badovr"
		}

		return st
	}

	switch x := r.Intn(100); {
	case x < 30: // same execute, other on_error (none / fresh / one handler dropped)
		how = "same-execute"

		switch r.Intn(3) {
		case 0:
			d.Eh = nil
		case 1:
			d.Eh = c14GenEh(r, 0)
			if len(d.Eh) == 0 && len(base.Eh) == 0 {
				d.Eh = []c14Step{c14GenStep(r, 4, 0)}
			}
		default:
			if len(d.Eh) > 0 {
				d.Eh = d.Eh[:len(d.Eh)-1]
			} else {
				d.Eh = []c14Step{c14GenStep(r, 4, 0)}
			}
		}
	case x < 50: // same on_error, other execute
		how = "same-on-error"
		d.Exec = c14GenGoodRule(r, proxy, def).Exec
	case x < 65: // same everything, one broken reference in on_error
		how = "broken-on-error"
		if len(d.Eh) == 0 {
			d.Eh = []c14Step{c14GenStep(r, 4, 0)}
		}

		i := r.Intn(len(d.Eh))
		d.Eh[i] = breakStep(d.Eh[i], true)
	case x < 78: // same everything, one broken reference in execute
		how = "broken-execute"
		if len(d.Exec) == 0 {
			d.Exec = []c14Step{c14GenStep(r, 0, 0)}
		}

		i := r.Intn(len(d.Exec))
		d.Exec[i] = breakStep(d.Exec[i], false)
	case x < 90: // same pipelines, other settings around them
		how = "same-pipelines"
		d.Extra = c14GenExtra(r)

		if r.Bool() {
			d.Bt = nil
		} else {
			b := r.Bool()
			d.Bt = &b
		}
	default: // one stage of execute re-used, the rest new: keep the authenticators, replace what follows
		how = "same-authenticators"

		var au []c14Step

		for _, st := range base.Exec {
			if st.Authn.Present {
				au = append(au, st)
			}
		}

		rest := c14GenGoodRule(r, proxy, def).Exec
		for _, st := range rest {
			if !st.Authn.Present {
				au = append(au, st)
			}
		}

		d.Exec = au
	}

	return d, how
}

func c14GenSet(r *vf.Rand) c14SetCase {
	first := c14Gen(r)
	c := c14SetCase{Proxy: first.Proxy, Def: first.Def, Rules: []c14Rule{first.Rule}, Op: "create", Version: config2.CurrentRuleSetVersion}

	if r.Intn(100) < 40 {
		c.Rules[0] = c14GenGoodRule(r, c.Proxy, c.Def)
	}

	// further rules are mostly well-formed; a third of them re-uses stage lists of an earlier rule of the set,
	// some the `execute` list of the preloaded rules
	for i, n := 0, r.Intn(3); i < n; i++ {
		switch x := r.Intn(100); {
		case x < 30:
			d, _ := c14Derive(r, c.Rules[r.Intn(len(c.Rules))], c.Proxy, c.Def)
			c.Rules = append(c.Rules, d)

			continue
		case x < 36:
			d := c14GenGoodRule(r, c.Proxy, c.Def)
			d.Exec = c14OldRules(1)[0].Exec
			c.Rules = append(c.Rules, d)

			continue
		}

		if r.Intn(100) < 85 {
			c.Rules = append(c.Rules, c14GenGoodRule(r, c.Proxy, c.Def))

			continue
		}

		more := c14Gen(r)
		more.Rule.Backend = more.Rule.Backend || first.Proxy && r.Intn(100) < 90
		c.Rules = append(c.Rules, more.Rule)
	}

	if r.Bool() {
		r0 := c.Rules[0]
		last := len(c.Rules) - 1
		c.Rules[0], c.Rules[last] = c.Rules[last], r0
	}

	// updates are the common path in production: two thirds of the cases
	if r.Intn(3) != 0 {
		c.Op = "update"
		c.Preload = r.Intn(4)
	}

	if r.Intn(100) < 5 {
		c.Version = vf.Pick(r, []string{"1alpha3", "1beta1", "2"})
	}

	return c
}

func c14SetNontrivial(c c14SetCase, o c14SetObs) bool {
	if len(c.Rules) > 1 || c.Preload > 0 {
		return o.Status == "accepted" || o.Status == "rejected"
	}

	return c14Nontrivial(c14Case{Proxy: c.Proxy, Def: c.Def, Rule: c.Rules[0]}, o.Status == "accepted", o.Status == "rejected")
}

func TestVerifC14RuleSet(t *testing.T) {
	c14SelfCheck(t)

	w := vf.NewWriter()
	defer w.Close()

	root := vf.NewRand(vf.Seed() + 1000003)
	n := vf.N(600)
	idx := 0

	emit := func(stream string, c c14SetCase) {
		if vf.Want(idx) {
			o := c14RunRuleSet(t, c)
			tags := []string{"rs-status:" + o.Status, fmt.Sprintf("rs-rules:%d", len(c.Rules)), "rs-op:" + c.Op,
				fmt.Sprintf("rs-preload:%d", c.Preload), fmt.Sprintf("rs-version-ok:%v", c.Version == config2.CurrentRuleSetVersion)}

			if o.Class != "" {
				tags = append(tags, "rs-reject-class:"+o.Class)
			}

			w.Put(vf.Obs{
				I: idx, Stream: stream, In: map[string]any{"case": c, "yaml": c14SetYaml(c.Version, c.Rules)}, Out: o,
				Coq: c14CoqSet(c, o), Nontrivial: c14SetNontrivial(c, o), Tags: tags,
			})
		}

		idx++
	}

	for i, c := range c14Corpus() {
		sc := c14SetCase{Proxy: c.Proxy, Def: c.Def, Rules: []c14Rule{c.Rule}, Op: "create", Version: config2.CurrentRuleSetVersion}
		if i%2 == 1 {
			sc.Op, sc.Preload = "update", 1+i%3
		}

		emit("corpus", sc)
	}

	// audit blind spot 2: a malformed rule in an UPDATED set, next to good ones, over a preloaded set
	{
		k := func(id int) c14Key { return c14Key{Present: true, ID: id, Known: true} }
		au := c14Step{Authn: k(1), If: "nil", Cfg: "nil"}
		az := c14Step{Authz: k(3), If: "nil", Cfg: "nil"}
		ex := c14Extra{SrcID: "src"}
		good := c14Rule{Exec: []c14Step{au, az}, Extra: ex}
		bad := c14Rule{Exec: []c14Step{az, au}, Extra: ex}

		emit("corpus", c14SetCase{Op: "update", Preload: 2, Version: config2.CurrentRuleSetVersion, Rules: []c14Rule{good, bad, good}})
		emit("corpus", c14SetCase{Op: "update", Preload: 3, Version: config2.CurrentRuleSetVersion, Rules: []c14Rule{good, good}})
		emit("corpus", c14SetCase{Op: "update", Preload: 1, Version: "1alpha3", Rules: []c14Rule{good}})
	}

	for i := 0; i < n; i++ {
		emit("generated", c14GenSet(root.Fork(uint64(i))))
	}
}
