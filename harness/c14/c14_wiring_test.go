//go:build verif

package rules

// C14 driver, stream "wiring": the rules package as the application wires it (fx, `Module` of module.go): the
// operation mode, the configuration and a mechanism factory are supplied the way cmd/serve does, the rule set is a
// file loaded by the real file_system provider on start, requests go through the real rule executor.

import (
	"context"
	"fmt"
	"os"
	"path/filepath"
	"testing"

	"github.com/rs/zerolog"
	"go.uber.org/fx"

	"github.com/dadrus/heimdall/internal/cache"
	"github.com/dadrus/heimdall/internal/cache/noop"
	"github.com/dadrus/heimdall/internal/config"
	config2 "github.com/dadrus/heimdall/internal/rules/config"
	"github.com/dadrus/heimdall/internal/rules/mechanisms"
	"github.com/dadrus/heimdall/internal/rules/rule"
	"github.com/dadrus/heimdall/internal/zzverif/vf"
)

func c14RunWired(t *testing.T, c c14SetCase, dir string) c14SetObs {
	t.Helper()

	path := filepath.Join(dir, "rules.yaml")
	if err := os.WriteFile(path, []byte(c14SetYaml(c.Version, c.Rules)), 0o600); err != nil {
		t.Fatalf("driver error: %v", err)
	}

	conf := &config.Configuration{
		Default:   c14DefaultConf(t, c.Def, c14StubEntries),
		Providers: config.RuleProviders{FileSystem: map[string]any{"src": path}},
	}

	var (
		repo    rule.Repository
		factory rule.Factory
		exec    rule.Executor
	)

	app := fx.New(fx.NopLogger,
		fx.Supply(conf, zerolog.Nop(), c14Mode(c.Proxy)),
		fx.Provide(func() mechanisms.MechanismFactory { return c14Factory{} }),
		fx.Provide(func() cache.Cache { return &noop.Cache{} }),
		Module,
		fx.Populate(&repo, &factory, &exec),
	)
	if err := app.Err(); err != nil {
		// nothing but the rule factory (the default rule) can fail while the graph is built
		return c14SetObs{Status: "factory_failed", Err: err.Error()}
	}

	obs := c14SetObs{Status: "accepted"}

	if err := app.Start(context.Background()); err != nil {
		obs = c14SetObs{Status: "rejected", Err: err.Error(), Class: c14ErrClass(err)}
	} else {
		defer app.Stop(context.Background()) //nolint:errcheck
	}

	obs.Served = c14ServedBy(t, repo, factory, exec.Execute)

	return obs
}

func TestVerifC14Wiring(t *testing.T) {
	c14SelfCheck(t)

	w := vf.NewWriter()
	defer w.Close()

	dir := t.TempDir()
	root := vf.NewRand(vf.Seed() + 3000017)
	n := vf.N(200)
	idx := 0

	emit := func(stream string, c c14SetCase) {
		if vf.Want(idx) {
			c.Op, c.Preload = "create", 0
			o := c14RunWired(t, c, dir)
			tags := []string{"wired-status:" + o.Status, fmt.Sprintf("wired-proxy:%v", c.Proxy), fmt.Sprintf("wired-rules:%d", len(c.Rules))}

			w.Put(vf.Obs{
				I: idx, Stream: stream, In: map[string]any{"case": c, "yaml": c14SetYaml(c.Version, c.Rules)}, Out: o,
				Coq: c14CoqSet(c, o), Nontrivial: c14SetNontrivial(c, o), Tags: tags,
			})
		}

		idx++
	}

	for _, c := range c14Corpus() {
		emit("corpus", c14SetCase{Proxy: c.Proxy, Def: c.Def, Rules: []c14Rule{c.Rule}, Version: config2.CurrentRuleSetVersion})
	}

	for i := 0; i < n; i++ {
		r := root.Fork(uint64(i))
		c := c14GenSet(r)

		// what this stream is for: the operation mode reaches the factory — a proxy-mode set of good rules, one
		// of which lacks forward_to
		if r.Intn(4) == 0 {
			c.Proxy, c.Version = true, config2.CurrentRuleSetVersion

			for j := range c.Rules {
				c.Rules[j] = c14GenGoodRule(r, true, c.Def)
			}

			c.Rules[r.Intn(len(c.Rules))].Backend = false
		}

		emit("generated", c)
	}
}
