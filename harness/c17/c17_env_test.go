//go:build verif

package mechanisms

// C17 driver, part 2: the environment in which real mechanisms are executed.
//
//   - an in-memory http.RoundTripper installed as http.DefaultTransport (which
//     endpoint.Endpoint.CreateClient reads on every call): identity provider,
//     JWKS, introspection, token, user-info, authorization and context APIs;
//     no sockets, no ports.
//   - a heimdall.Context implementation that records what a mechanism adds,
//   - a cache that always misses and records the TTLs handed to Set,
//   - the projection of one execution to a canonical string (the behaviour
//     digest): error kind, subject, upstream headers/cookies, outputs, pipeline
//     error, cache TTLs, and the requests sent to the APIs.

import (
	"bytes"
	"context"
	"crypto/ecdsa"
	"crypto/elliptic"
	"crypto/rand"
	"crypto/x509"
	"encoding/base64"
	"encoding/json"
	"encoding/pem"
	"errors"
	"fmt"
	"io"
	"math"
	"net/http"
	"net/url"
	"os"
	"path/filepath"
	"sort"
	"strings"
	"sync"
	"time"

	"github.com/go-jose/go-jose/v4"
	"github.com/go-jose/go-jose/v4/jwt"
	"github.com/rs/zerolog"

	"github.com/dadrus/heimdall/internal/cache"
	"github.com/dadrus/heimdall/internal/heimdall"
	"github.com/dadrus/heimdall/internal/rules/mechanisms/subject"
	"github.com/dadrus/heimdall/internal/watcher"
)

// ---------------------------------------------------------------- keys and tokens

var (
	c17Key      *ecdsa.PrivateKey
	c17JWKS     []byte
	c17TokKid   string // signed JWT with kid
	c17TokNoKid string // signed JWT without kid
	c17KeyStore string // PEM file with an EC private key (signer of the jwt finalizer)
)

const c17FarFuture = 5000000000 // 2128: exp-now stays between 2^31 and 2^32 seconds until 2060 (the TTL digest records the order of magnitude)

func c17Setup(dir string) {
	var err error

	c17Key, err = ecdsa.GenerateKey(elliptic.P256(), rand.Reader)
	if err != nil {
		panic(err)
	}

	pub := jose.JSONWebKey{Key: &c17Key.PublicKey, KeyID: "k1", Algorithm: "ES256", Use: "sig"}
	c17JWKS, _ = json.Marshal(jose.JSONWebKeySet{Keys: []jose.JSONWebKey{pub}})

	mk := func(kid bool) string {
		opts := new(jose.SignerOptions).WithType("JWT")
		if kid {
			opts = opts.WithHeader("kid", "k1")
		}

		sig, err := jose.NewSigner(jose.SigningKey{Algorithm: jose.ES256, Key: c17Key}, opts)
		if err != nil {
			panic(err)
		}

		tok, err := jwt.Signed(sig).Claims(map[string]any{
			"iss": "http://idp.test", "sub": "user1", "aud": []string{"svc", "other"}, "scp": []string{"read", "write"},
			"exp": c17FarFuture, "iat": 1700000000, "nbf": 1700000000, "jti": "fixed", "role": "admin",
		}).Serialize()
		if err != nil {
			panic(err)
		}

		return tok
	}

	c17TokKid, c17TokNoKid = mk(true), mk(false)

	der, err := x509.MarshalECPrivateKey(c17Key)
	if err != nil {
		panic(err)
	}

	c17KeyStore = filepath.Join(dir, "c17_keystore.pem")
	if err = os.WriteFile(c17KeyStore, pem.EncodeToMemory(&pem.Block{Type: "EC PRIVATE KEY", Bytes: der}), 0o600); err != nil {
		panic(err)
	}

	http.DefaultTransport = c17Transport{}
}

// ---------------------------------------------------------------- in-memory APIs

type c17LogKey struct{}

// c17ReqLog collects the requests one execution sends (carried in the request context, so that
// concurrent executions do not share it).
type c17ReqLog struct {
	mu   sync.Mutex
	reqs []string
}

func (l *c17ReqLog) add(s string) {
	l.mu.Lock()
	l.reqs = append(l.reqs, s)
	l.mu.Unlock()
}

type c17Transport struct{}

func c17Resp(req *http.Request, code int, ctype, body string, hdr map[string]string) *http.Response {
	h := http.Header{}
	if ctype != "" {
		h.Set("Content-Type", ctype)
	}

	for k, v := range hdr {
		h.Set(k, v)
	}

	return &http.Response{
		Status: fmt.Sprintf("%d", code), StatusCode: code, Proto: "HTTP/1.1", ProtoMajor: 1, ProtoMinor: 1,
		Header: h, Body: io.NopCloser(strings.NewReader(body)), ContentLength: int64(len(body)), Request: req,
	}
}

func (c17Transport) RoundTrip(req *http.Request) (*http.Response, error) {
	var body []byte
	if req.Body != nil {
		body, _ = io.ReadAll(req.Body)
		req.Body.Close()
	}

	if l, ok := req.Context().Value(c17LogKey{}).(*c17ReqLog); ok && l != nil {
		var hs []string

		for k, vs := range req.Header {
			if k == "Traceparent" || k == "Tracestate" || k == "User-Agent" {
				continue
			}

			v := strings.Join(vs, ",")
			// signed material differs from run to run: keep the shape only
			if strings.Contains(v, c17TokKid) {
				v = strings.ReplaceAll(v, c17TokKid, "<jwt-kid>")
			}

			if strings.Contains(v, c17TokNoKid) {
				v = strings.ReplaceAll(v, c17TokNoKid, "<jwt-nokid>")
			}

			hs = append(hs, k+"="+v)
		}

		sort.Strings(hs)

		b := string(body)
		b = strings.ReplaceAll(b, url.QueryEscape(c17TokKid), "<jwt-kid>")
		b = strings.ReplaceAll(b, url.QueryEscape(c17TokNoKid), "<jwt-nokid>")
		b = strings.ReplaceAll(b, c17TokKid, "<jwt-kid>")
		b = strings.ReplaceAll(b, c17TokNoKid, "<jwt-nokid>")
		l.add(req.Method + " " + req.URL.String() + " {" + strings.Join(hs, ";") + "} " + b)
	}

	const js = "application/json"

	// endpoints configured with ?fail=<code> answer with that status (error branches of the mechanisms)
	switch req.URL.Query().Get("fail") {
	case "500":
		return c17Resp(req, 500, "text/plain", "boom", nil), nil
	case "401":
		return c17Resp(req, 401, js, `{"error":"unauthorized"}`, nil), nil
	}

	switch req.URL.Host + req.URL.Path {
	case "idp.test/.well-known/oauth-authorization-server", "idp.test/.well-known/openid-configuration":
		return c17Resp(req, 200, js, `{"issuer":"http://idp.test","jwks_uri":"http://idp.test/jwks",`+
			`"introspection_endpoint":"http://idp.test/introspect"}`, nil), nil
	case "idp.test/jwks":
		return c17Resp(req, 200, js, string(c17JWKS), nil), nil
	case "idp.test/introspect":
		form, _ := url.ParseQuery(string(body))
		tok := form.Get("token")

		if tok == "" || strings.HasPrefix(tok, "bad") {
			return c17Resp(req, 200, js, `{"active":false}`, nil), nil
		}

		if len(tok) > 12 {
			tok = tok[:12]
		}

		return c17Resp(req, 200, js, fmt.Sprintf(`{"active":true,"sub":"user-%s","iss":"http://idp.test","aud":["svc","other"],`+
			`"scope":"read write","exp":%d,"iat":1700000000,"nbf":1700000000,"client_id":"cl","token_type":"access_token","role":"admin"}`,
			tok, int64(c17FarFuture)), nil), nil
	case "idp.test/token":
		form, _ := url.ParseQuery(string(body))

		return c17Resp(req, 200, js, fmt.Sprintf(`{"access_token":"tok[%s]","token_type":"Bearer","expires_in":329}`,
			form.Get("scope")), nil), nil
	case "api.test/userinfo":
		if req.Header.Get("X-Deny") != "" {
			return c17Resp(req, 401, js, `{"error":"denied"}`, nil), nil
		}

		return c17Resp(req, 200, js, `{"sub":"user1","name":"Alice","ext":{"id":"ext-7","groups":["a","b"]},"via":"`+
			req.Method+`","seen":"`+req.Header.Get("X-Fwd")+`"}`, nil), nil
	case "api.test/authz":
		if strings.Contains(string(body), "deny") {
			return c17Resp(req, 403, js, `{"allowed":false}`, nil), nil
		}

		return c17Resp(req, 200, js, `{"allowed":true,"roles":["r1","r2"],"echo":"`+
			base64.StdEncoding.EncodeToString(body)+`"}`, map[string]string{"X-Authz": "granted", "X-Scope": "full"}), nil
	case "api.test/ctx":
		return c17Resp(req, 200, js, `{"tenant":"t1","plan":"gold","echo":"`+
			base64.StdEncoding.EncodeToString(body)+`"}`, nil), nil
	}

	return c17Resp(req, 404, "text/plain", "not found", nil), nil
}

// ---------------------------------------------------------------- cache

// c17Cache: by default every Get misses (so that an execution's behaviour does not depend on earlier ones) and
// the TTLs handed to Set are recorded; with [keep] it is a real (mutex-protected) cache, shared by the
// goroutines of a race case so that the cache-hit paths of the mechanisms run concurrently too.
type c17Cache struct {
	mu   sync.Mutex
	ttls []string
	keep map[string][]byte
}

func (c *c17Cache) Start(context.Context) error { return nil }
func (c *c17Cache) Stop(context.Context) error  { return nil }

func (c *c17Cache) Get(_ context.Context, key string) ([]byte, error) {
	if c.keep != nil {
		c.mu.Lock()
		v, ok := c.keep[key]
		c.mu.Unlock()

		if ok {
			return v, nil
		}
	}

	return nil, errors.New("miss")
}

// c17TTL: a configured TTL is a whole number of seconds, at most a few hours, and is recorded exactly; a
// TTL derived from the clock (expiry minus now, with the far-future expiries the APIs here hand out, or
// with sub-second precision) is recorded by its order of magnitude only.
func c17TTL(ttl time.Duration) string {
	if ttl%time.Second == 0 && ttl <= 24*time.Hour {
		return fmt.Sprintf("%ds", int64(ttl/time.Second))
	}

	return fmt.Sprintf("~2^%d", int(math.Log2(ttl.Seconds())))
}

func (c *c17Cache) Set(_ context.Context, key string, val []byte, ttl time.Duration) error {
	c.mu.Lock()
	if c.keep != nil {
		c.keep[key] = val
	} else {
		c.ttls = append(c.ttls, c17TTL(ttl))
	}
	c.mu.Unlock()

	return nil
}

var _ cache.Cache = (*c17Cache)(nil)

// ---------------------------------------------------------------- request context

type c17ReqFns struct {
	headers map[string]string
	cookies map[string]string
	body    any
}

func (r *c17ReqFns) Header(name string) string   { return r.headers[http.CanonicalHeaderKey(name)] }
func (r *c17ReqFns) Cookie(name string) string   { return r.cookies[name] }
func (r *c17ReqFns) Headers() map[string]string { return r.headers }
func (r *c17ReqFns) Body() any                  { return r.body }

type c17Ctx struct {
	mu      sync.Mutex
	app     context.Context
	req     *heimdall.Request
	hdrs    []string
	cookies []string
	outputs map[string]any
	perr    error
}

func (c *c17Ctx) Request() *heimdall.Request { return c.req }

func (c *c17Ctx) AddHeaderForUpstream(name, value string) {
	c.mu.Lock()
	c.hdrs = append(c.hdrs, name+"="+value)
	c.mu.Unlock()
}

func (c *c17Ctx) AddCookieForUpstream(name, value string) {
	c.mu.Lock()
	c.cookies = append(c.cookies, name+"="+value)
	c.mu.Unlock()
}

func (c *c17Ctx) AppContext() context.Context { return c.app }
func (c *c17Ctx) SetPipelineError(err error)  { c.perr = err }
func (c *c17Ctx) Outputs() map[string]any     { return c.outputs }

// c17Request: the request variants a case can use (fixed per case).
//
//	0 JWT with kid in Authorization   1 JWT without kid   2 opaque token   3 basic auth   4 no credentials
func c17NewCtx(variant int, shared *c17Cache) (*c17Ctx, *c17ReqLog, *c17Cache) {
	h := map[string]string{"X-Fwd": "fwd-value", "X-Token": "opaque-1", "Accept": "text/html", "X-Tenant": "t9"}
	ck := map[string]string{"session": "s-123", "pref": "dark"}
	q := ""

	switch variant {
	case 0:
		h["Authorization"] = "Bearer " + c17TokKid
	case 1:
		h["Authorization"] = "Bearer " + c17TokNoKid
	case 2:
		h["Authorization"] = "Bearer opaque-token-2"
		q = "access_token=opaque-q"
	case 3:
		h["Authorization"] = "Basic " + base64.StdEncoding.EncodeToString([]byte("alice:wonderland"))
	}

	u := &heimdall.URL{URL: url.URL{Scheme: "https", Host: "app.test", Path: "/orders/42", RawQuery: q},
		Captures: map[string]string{"id": "42"}}

	log, cch := &c17ReqLog{}, &c17Cache{}
	if shared != nil {
		cch = shared
	}
	app := context.WithValue(context.Background(), c17LogKey{}, log)
	app = cache.WithContext(app, cch)

	return &c17Ctx{
		app: app, outputs: map[string]any{"prev": map[string]any{"k": "v"}},
		req: &heimdall.Request{
			RequestFunctions: &c17ReqFns{headers: h, cookies: ck, body: map[string]any{"access_token": "opaque-b"}},
			Method:           "GET", URL: u, ClientIPAddresses: []string{"10.1.2.3"},
		},
	}, log, cch
}

func c17Subject() *subject.Subject {
	return &subject.Subject{ID: "user1", Attributes: map[string]any{"role": "admin", "groups": []any{"a", "b"}}}
}

var c17ErrKinds = []struct {
	e error
	n string
}{
	{heimdall.ErrAuthentication, "authn"}, {heimdall.ErrAuthorization, "authz"}, {heimdall.ErrCommunicationTimeout, "timeout"},
	{heimdall.ErrCommunication, "comm"}, {heimdall.ErrConfiguration, "config"}, {heimdall.ErrArgument, "arg"},
	{heimdall.ErrInternal, "internal"}, {heimdall.ErrNoRuleFound, "norule"},
}

func c17ErrKind(err error) string {
	if err == nil {
		return "ok"
	}

	var red *heimdall.RedirectError
	if errors.As(err, &red) {
		return fmt.Sprintf("redirect(%d,%s)", red.Code, red.RedirectTo)
	}

	var ks []string

	for _, k := range c17ErrKinds {
		if errors.Is(err, k.e) {
			ks = append(ks, k.n)
		}
	}

	if len(ks) == 0 {
		return "other"
	}

	return strings.Join(ks, "+")
}

func c17JSON(v any) string {
	b, err := json.Marshal(v)
	if err != nil {
		return "!" + err.Error()
	}

	return string(b)
}

// c17NormHeader replaces a JWT issued by the jwt finalizer (fresh iat/exp/jti and signature on every
// call) by its header and its claims without the volatile ones, plus exp-iat.
func c17NormHeader(h string) string {
	i := strings.LastIndex(h, " ")
	tok := h[i+1:]

	parts := strings.Split(tok, ".")
	if len(parts) != 3 || !strings.HasPrefix(parts[0], "eyJ") {
		return h
	}

	hd, err1 := base64.RawURLEncoding.DecodeString(parts[0])
	pl, err2 := base64.RawURLEncoding.DecodeString(parts[1])

	if err1 != nil || err2 != nil {
		return h
	}

	var claims map[string]any

	dec := json.NewDecoder(bytes.NewReader(pl))
	dec.UseNumber()

	if dec.Decode(&claims) != nil {
		return h
	}

	ttl := "?"

	if e, ok := claims["exp"].(json.Number); ok {
		if a, ok := claims["iat"].(json.Number); ok {
			ev, _ := e.Int64()
			av, _ := a.Int64()
			ttl = fmt.Sprint(ev - av)
		}
	}

	for _, k := range []string{"exp", "iat", "nbf", "jti"} {
		delete(claims, k)
	}

	return h[:i+1] + "JWT(" + string(hd) + "," + c17JSON(claims) + ",ttl=" + ttl + ")"
}

// c17Exec executes mechanism m (of the given kind) once and returns the canonical behaviour string.
func c17Exec(kind string, m any, variant int) string { return c17ExecWith(kind, m, variant, nil) }

func c17ExecWith(kind string, m any, variant int, shared *c17Cache) (res string) {
	ctx, log, cch := c17NewCtx(variant, shared)

	var (
		sub *subject.Subject
		err error
	)

	defer func() {
		if r := recover(); r != nil {
			res = fmt.Sprintf("PANIC %v", r)
		}
	}()

	switch kind {
	case "authenticator":
		sub, err = m.(c17Authn).Execute(ctx)
	case "authorizer", "contextualizer", "finalizer":
		in := c17Subject()
		err = m.(c17SubExec).Execute(ctx, in)
		sub = in
	case "errorhandler":
		err = m.(c17Eh).Execute(ctx, heimdall.ErrAuthentication)
	}

	var sb strings.Builder

	sb.WriteString("err=" + c17ErrKind(err))

	if sub != nil {
		sb.WriteString(" sub=" + sub.ID + c17JSON(sub.Attributes))
	}

	for i, h := range ctx.hdrs {
		ctx.hdrs[i] = c17NormHeader(h)
	}

	// mechanisms iterate over maps of header / cookie templates: the order of the additions is not an observable
	sort.Strings(ctx.hdrs)
	sort.Strings(ctx.cookies)
	sb.WriteString(" hdrs=" + strings.Join(ctx.hdrs, "|"))
	sb.WriteString(" cookies=" + strings.Join(ctx.cookies, "|"))
	sb.WriteString(" out=" + c17JSON(ctx.outputs))
	sb.WriteString(" perr=" + c17ErrKind(ctx.perr))
	sb.WriteString(" ttls=" + strings.Join(cch.ttls, ","))
	sb.WriteString(" reqs=" + strings.Join(log.reqs, " ## "))

	return sb.String()
}

type c17Authn interface {
	Execute(ctx heimdall.Context) (*subject.Subject, error)
}

type c17SubExec interface {
	Execute(ctx heimdall.Context, sub *subject.Subject) error
}

type c17Eh interface {
	Execute(ctx heimdall.Context, causeErr error) error
}

// ---------------------------------------------------------------- creation context

// c17Watcher records the change listeners mechanisms register (key-store reload of the jwt finalizer's signer, of
// http_message_signatures); the race stream fires them while the mechanisms execute.
type c17Watcher struct {
	mu        sync.Mutex
	listeners []watcher.ChangeListener
}

func (w *c17Watcher) Add(_ string, cl watcher.ChangeListener) error {
	w.mu.Lock()
	w.listeners = append(w.listeners, cl)
	w.mu.Unlock()

	return nil
}

func (w *c17Watcher) fire() {
	w.mu.Lock()
	ls := append([]watcher.ChangeListener{}, w.listeners...)
	w.mu.Unlock()

	for _, l := range ls {
		l.OnChanged(c17Logger)
	}
}

var c17LastWatcher *c17Watcher // watcher of the most recently loaded catalogue

var c17Logger = zerolog.Nop()
