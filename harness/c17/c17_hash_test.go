//go:build verif

package mechanisms

// C17 driver, part 1: reflection deep-hash of a mechanism instance.
//
// fieldHashes(v) walks the object graph reachable from every field of the
// concrete mechanism struct behind v (unexported fields, pointers, interfaces,
// maps, slices included) and returns one content hash per field.  Addresses
// are never hashed, only contents, so that two freshly loaded catalogues give
// equal hashes and a variant that shares a field with its prototype hashes
// that field alike.
//
// Not visible to reflection, hence not covered (stated in the level note):
// variables captured by closures (only the code pointer of a func value is
// hashed) and memory behind unsafe.Pointer / uintptr.  Deliberately skipped:
// the state words of sync / sync/atomic primitives (they change while a lock
// is held and carry no configuration).

import (
	"encoding/binary"
	"hash/fnv"
	"math"
	"reflect"
	"sort"
	"strings"
)

type c17Visit struct {
	p uintptr
	t reflect.Type
}

type c17Hasher struct {
	seen  map[c17Visit]bool   // on the current path (cycle cut)
	memo  map[c17Visit]uint64 // finished pointer / map nodes (shared sub-graphs are hashed once)
	nodes int
}

// types whose contents are synchronisation state, not configuration
func c17Opaque(t reflect.Type) bool {
	pp := t.PkgPath()
	if pp == "sync" || pp == "sync/atomic" || pp == "internal/sync" {
		return true
	}

	if strings.HasPrefix(pp, "sync/") || strings.HasPrefix(pp, "internal/race") {
		return true
	}

	// process-global, lazily initialised library objects (protobuf descriptors behind cel-go's type
	// registry): not configuration of a mechanism
	if strings.HasPrefix(pp, "google.golang.org/protobuf/") {
		return true
	}

	// reflect.Value / runtime type descriptors (the function tables of text/template): read-only runtime data
	if pp == "reflect" || pp == "internal/abi" {
		return true
	}

	// the function tables of text/template: the same ~220 entries (code pointers) in every template heimdall builds
	if s := t.String(); s == "template.FuncMap" || s == "map[string]reflect.Value" {
		return true
	}

	// cel-go: the environment (function declarations, type registry, dispatcher) a program was compiled in is
	// immutable after construction and identical for every expression of heimdall; only the compiled
	// expression tree distinguishes one program from another
	if strings.HasPrefix(pp, "github.com/google/cel-go/") {
		switch t.String() {
		case "cel.Env", "types.Registry", "interpreter.defaultDispatcher", "checker.Env", "decls.FunctionDecl",
			"containers.Container", "interpreter.attrFactory":
			return true
		}
	}

	return false
}

func c17Mix(h uint64, x uint64) uint64 {
	h ^= x + 0x9E3779B97F4A7C15 + (h << 6) + (h >> 2)
	h *= 0xBF58476D1CE4E5B9
	h ^= h >> 29

	return h
}

func c17Str(s string) uint64 {
	f := fnv.New64a()
	f.Write([]byte(s))

	return f.Sum64()
}

var c17Profile map[string]int // diagnostic: nodes per type (VERIF_C17_PROFILE=1)

func (hs *c17Hasher) hash(v reflect.Value, depth int) uint64 {
	hs.nodes++

	if c17Profile != nil && v.IsValid() {
		c17Profile[v.Type().String()]++
	}

	if !v.IsValid() {
		return 0x11
	}

	t := v.Type()
	h := c17Str(t.String())

	if depth > 200 {
		return c17Mix(h, 0xDEE9)
	}

	if c17Opaque(t) {
		return c17Mix(h, 0x0FA0)
	}

	switch v.Kind() {
	case reflect.Bool:
		if v.Bool() {
			return c17Mix(h, 1)
		}

		return c17Mix(h, 2)
	case reflect.Int, reflect.Int8, reflect.Int16, reflect.Int32, reflect.Int64:
		return c17Mix(h, uint64(v.Int()))
	case reflect.Uint, reflect.Uint8, reflect.Uint16, reflect.Uint32, reflect.Uint64:
		return c17Mix(h, v.Uint())
	case reflect.Uintptr, reflect.UnsafePointer:
		// an address: not content
		return c17Mix(h, 0xADD8)
	case reflect.Float32, reflect.Float64:
		return c17Mix(h, math.Float64bits(v.Float()))
	case reflect.Complex64, reflect.Complex128:
		c := v.Complex()

		return c17Mix(c17Mix(h, math.Float64bits(real(c))), math.Float64bits(imag(c)))
	case reflect.String:
		return c17Mix(h, c17Str(v.String()))
	case reflect.Func:
		if v.IsNil() {
			return c17Mix(h, 0x9117)
		}
		// code pointer only; captured variables are invisible to reflection.  The code pointer is
		// the same for every closure created from one function literal.
		return c17Mix(h, 0xF09C)
	case reflect.Chan:
		if v.IsNil() {
			return c17Mix(h, 0x9117)
		}

		return c17Mix(h, uint64(v.Len())+0xC4A9)
	case reflect.Pointer:
		if v.IsNil() {
			return c17Mix(h, 0x9117)
		}

		k := c17Visit{v.Pointer(), t}
		if r, ok := hs.memo[k]; ok {
			return r
		}

		if hs.seen[k] {
			return c17Mix(h, 0xA11A5)
		}

		hs.seen[k] = true
		r := c17Mix(h, hs.hash(v.Elem(), depth+1))
		delete(hs.seen, k)
		hs.memo[k] = r

		return r
	case reflect.Interface:
		if v.IsNil() {
			return c17Mix(h, 0x9117)
		}

		return c17Mix(h, hs.hash(v.Elem(), depth+1))
	case reflect.Slice:
		if v.IsNil() {
			return c17Mix(h, 0x9117)
		}

		h = c17Mix(h, uint64(v.Len()))

		if t.Elem().Kind() == reflect.Uint8 {
			f := fnv.New64a()
			f.Write(v.Bytes())

			return c17Mix(h, f.Sum64())
		}

		k := c17Visit{v.Pointer(), t}
		if v.Len() > 0 {
			if hs.seen[k] {
				return c17Mix(h, 0xA11A5)
			}

			hs.seen[k] = true
			defer delete(hs.seen, k)
		}

		for i := 0; i < v.Len(); i++ {
			h = c17Mix(h, hs.hash(v.Index(i), depth+1))
		}

		return h
	case reflect.Array:
		for i := 0; i < v.Len(); i++ {
			h = c17Mix(h, hs.hash(v.Index(i), depth+1))
		}

		return h
	case reflect.Map:
		if v.IsNil() {
			return c17Mix(h, 0x9117)
		}

		k := c17Visit{v.Pointer(), t}
		if r, ok := hs.memo[k]; ok {
			return r
		}

		if hs.seen[k] {
			return c17Mix(h, 0xA11A5)
		}

		hs.seen[k] = true

		// entries are visited in the order of their keys where keys are strings or integers (the usual
		// case), so that the walk — and with it the place where a cycle is cut — does not depend on
		// Go's random map iteration order
		keys := v.MapKeys()

		switch t.Key().Kind() {
		case reflect.String:
			sort.Slice(keys, func(i, j int) bool { return keys[i].String() < keys[j].String() })
		case reflect.Int, reflect.Int8, reflect.Int16, reflect.Int32, reflect.Int64:
			sort.Slice(keys, func(i, j int) bool { return keys[i].Int() < keys[j].Int() })
		case reflect.Uint, reflect.Uint8, reflect.Uint16, reflect.Uint32, reflect.Uint64:
			sort.Slice(keys, func(i, j int) bool { return keys[i].Uint() < keys[j].Uint() })
		}

		ents := make([]uint64, 0, len(keys))
		for _, mk := range keys {
			ents = append(ents, c17Mix(hs.hash(mk, depth+1), hs.hash(v.MapIndex(mk), depth+1)))
		}

		sort.Slice(ents, func(i, j int) bool { return ents[i] < ents[j] })

		h = c17Mix(h, uint64(len(ents)))
		for _, e := range ents {
			h = c17Mix(h, e)
		}

		delete(hs.seen, k)
		hs.memo[k] = h

		return h
	case reflect.Struct:
		for i := 0; i < v.NumField(); i++ {
			h = c17Mix(h, c17Str(t.Field(i).Name))
			h = c17Mix(h, hs.hash(v.Field(i), depth+1))
		}

		return h
	}

	return c17Mix(h, 0xBAD)
}

// c17Fields: concrete type name and one hash per field of the struct behind mechanism m
// (a pointer to a struct for every mechanism of heimdall; anything else is one pseudo-field).
func c17Fields(m any) (typeName string, names []string, hashes []uint64, nodes int) {
	v := reflect.ValueOf(m)
	hs := &c17Hasher{seen: map[c17Visit]bool{}, memo: map[c17Visit]uint64{}}

	if v.Kind() == reflect.Pointer && !v.IsNil() && v.Elem().Kind() == reflect.Struct {
		e := v.Elem()
		typeName = e.Type().Name()

		for i := 0; i < e.NumField(); i++ {
			names = append(names, e.Type().Field(i).Name)
			hashes = append(hashes, hs.hash(e.Field(i), 0))
		}

		return typeName, names, hashes, hs.nodes
	}

	typeName = v.Type().String()
	names = []string{"_"}
	hashes = []uint64{hs.hash(v, 0)}

	return typeName, names, hashes, hs.nodes
}

func c17U64s(xs []uint64) string {
	b := make([]byte, 8*len(xs))
	for i, x := range xs {
		binary.LittleEndian.PutUint64(b[8*i:], x)
	}

	return string(b)
}
