//go:build verif

package mechanisms

// C17 driver, part 3: for every mechanism type of heimdall, generators of catalogue (prototype)
// configurations and of rule-level override configurations.

import (
	"fmt"
	"sort"
	"strings"

	"github.com/dadrus/heimdall/internal/zzverif/vf"
)

type c17Spec struct {
	kind     string // authenticator | authorizer | contextualizer | finalizer | errorhandler
	typ      string // type name in the configuration
	goType   string // name of the Go struct (row of the effect table)
	proto    func(r *vf.Rand) map[string]any
	ovr      func(r *vf.Rand) map[string]any // a (mostly) valid override
	variants []int                           // request variants (see c17NewCtx) that reach the interesting paths
	weight   int
}

type m = map[string]any

func c17Dur(r *vf.Rand) string {
	return vf.Pick(r, []string{"0s", "5s", "10s", "30s", "1m", "5m", "15m", "1h"})
}

func c17Tmpl(r *vf.Rand) string {
	return vf.Pick(r, []string{
		`{{ .Subject.ID }}`, `{"sub":{{ quote .Subject.ID }}}`, `static-value`, `{{ .Request.Method }} {{ .Request.URL.Path }}`,
		`{{ .Subject.Attributes.role }}`, `{{ .Request.Header "X-Tenant" }}`, `{"deny":false,"who":"{{ .Subject.ID }}"}`,
		`{{ .Values.a }}-{{ .Subject.ID }}`, `{"deny":true}`,
	})
}

func c17Values(r *vf.Rand) m {
	out := m{}
	for _, k := range []string{"a", "b", "c", "tenant"} {
		if r.Chance(45) {
			out[k] = vf.Pick(r, []string{`{{ .Subject.ID }}`, `v-` + k, `{{ .Request.Method }}`, `x`})
		}
	}

	return out
}

func c17Strs(r *vf.Rand, pool []string, minN int) []any {
	var out []any

	for _, p := range pool {
		if r.Chance(50) {
			out = append(out, p)
		}
	}

	for len(out) < minN {
		out = append(out, pool[r.Intn(len(pool))])
	}

	return out
}

func c17Endpoint(r *vf.Rand, u string) m {
	// one endpoint in eight answers 500 / 401 (the error branches of the mechanisms are executed too)
	switch r.Intn(16) {
	case 0:
		u += "?fail=500"
	case 1:
		u += "?fail=401"
	}

	e := m{"url": u}
	if r.Chance(40) {
		e["method"] = vf.Pick(r, []string{"GET", "POST"})
	}

	if r.Chance(50) {
		h := m{}
		if r.Chance(60) {
			h["X-Api"] = vf.Pick(r, []string{"k1", "k2"})
		}

		if r.Chance(40) {
			h["Accept"] = "application/json"
		}

		if r.Chance(30) {
			h["X-Sub"] = "{{ .Subject.ID }}"
		}

		e["headers"] = h
	}

	if r.Chance(25) && !strings.Contains(u, "fail=") {
		// (a failing endpoint with retry would spend give_up_after in every execution)
		e["retry"] = m{"give_up_after": "1s", "max_delay": "100ms"}
	}

	if r.Chance(25) {
		e["http_cache"] = m{"enabled": r.Bool(), "default_ttl": c17Dur(r)}
	}

	if r.Chance(25) {
		e["auth"] = vf.Pick(r, []m{
			{"type": "basic_auth", "config": m{"user": "u", "password": "p"}},
			{"type": "api_key", "config": m{"in": "header", "name": "X-Key", "value": "secret"}},
			{"type": "api_key", "config": m{"in": "cookie", "name": "key", "value": "secret"}},
			{"type": "api_key", "config": m{"in": "query", "name": "key", "value": "secret"}},
		})
	}

	return e
}

func c17Assertions(r *vf.Rand, needIssuer bool) m {
	a := m{}
	if needIssuer || r.Chance(50) {
		a["issuers"] = c17Strs(r, []string{"http://idp.test", "http://other.test"}, 1)
	}

	if r.Chance(40) {
		a["audience"] = c17Strs(r, []string{"svc", "other", "none"}, 1)
	}

	if r.Chance(40) {
		a["scopes"] = vf.Pick(r, []any{
			[]any{"read"}, []any{"read", "write"}, []any{"admin"},
			m{"matching_strategy": "wildcard", "values": []any{"rea*"}},
			m{"matching_strategy": "exact", "values": []any{"write"}},
		})
	}

	if r.Chance(30) {
		a["allowed_algorithms"] = c17Strs(r, []string{"ES256", "RS256", "PS512"}, 1)
	}

	if r.Chance(30) {
		a["validity_leeway"] = vf.Pick(r, []string{"5s", "1m"})
	}

	return a
}

func c17MetaEndpoint(r *vf.Rand) m {
	e := m{"url": vf.Pick(r, []string{
		"http://idp.test/.well-known/oauth-authorization-server", "http://idp.test/.well-known/openid-configuration",
		"http://idp.test/.well-known/openid-configuration?iss={{ .TokenIssuer | urlenc }}",
	})}

	if r.Chance(30) {
		e["headers"] = m{"X-Meta": "1"}
	}

	if r.Chance(20) {
		e["method"] = "GET"
	}

	if r.Chance(20) {
		e["http_cache"] = m{"enabled": true, "default_ttl": "5m"}
	}

	if r.Chance(20) {
		e["disable_issuer_identifier_verification"] = true
	}

	return e
}

func c17Exprs(r *vf.Rand, payload bool) []any {
	pool := []string{
		`Subject.ID == "user1"`, `Request.Method == "GET"`, `Subject.Attributes.role == "admin"`,
		`Request.URL.Path.startsWith("/orders")`, `Subject.ID == "nobody"`, `size(Subject.ID) > 2`,
	}
	if payload {
		pool = append(pool, `Payload.allowed == true`, `"r1" in Payload.roles`, `Payload.allowed == false`)
	}

	n := r.Range(1, 3)
	out := make([]any, 0, n)

	for i := 0; i < n; i++ {
		e := m{"expression": pool[r.Intn(len(pool))]}
		if r.Bool() {
			e["message"] = fmt.Sprintf("msg%d", r.Intn(3))
		}

		out = append(out, e)
	}

	return out
}

func c17TmplMap(r *vf.Rand, keys []string) m {
	out := m{}
	for _, k := range keys {
		if r.Chance(50) {
			out[k] = c17Tmpl(r)
		}
	}

	if len(out) == 0 {
		out[keys[0]] = c17Tmpl(r)
	}

	return out
}

func c17Subset(r *vf.Rand, full m, minN int) m {
	out := m{}

	keys := make([]string, 0, len(full))
	for k := range full {
		keys = append(keys, k)
	}

	sort.Strings(keys)

	for _, k := range keys {
		if r.Chance(55) {
			out[k] = full[k]
		}
	}

	for len(out) < minN && len(out) < len(keys) {
		k := keys[r.Intn(len(keys))]
		out[k] = full[k]
	}

	return out
}

var c17Specs = []c17Spec{
	{kind: "authenticator", typ: "anonymous", goType: "anonymousAuthenticator", weight: 2, variants: []int{4, 0},
		proto: func(r *vf.Rand) m {
			if r.Bool() {
				return m{}
			}

			return m{"subject": vf.Pick(r, []string{"anon", "guest"})}
		},
		ovr: func(r *vf.Rand) m { return m{"subject": vf.Pick(r, []string{"anon", "guest", "nobody", "x"})} }},
	{kind: "authenticator", typ: "basic_auth", goType: "basicAuthAuthenticator", weight: 3, variants: []int{3, 3, 4, 0},
		proto: func(r *vf.Rand) m {
			c := m{"user_id": vf.Pick(r, []string{"alice", "bob"}), "password": vf.Pick(r, []string{"wonderland", "pw"})}
			if r.Chance(40) {
				c["allow_fallback_on_error"] = r.Bool()
			}

			return c
		},
		ovr: func(r *vf.Rand) m {
			return c17Subset(r, m{"user_id": vf.Pick(r, []string{"alice", "bob", "carol"}),
				"password": vf.Pick(r, []string{"wonderland", "pw", "zz"}), "allow_fallback_on_error": r.Bool()}, 1)
		}},
	{kind: "authenticator", typ: "unauthorized", goType: "unauthorizedAuthenticator", weight: 1, variants: []int{4, 0},
		proto: func(*vf.Rand) m { return m{} },
		ovr:   func(r *vf.Rand) m { return m{"anything": "goes"} }},
	{kind: "authenticator", typ: "generic", goType: "genericAuthenticator", weight: 6, variants: []int{2, 0, 4, 3},
		proto: func(r *vf.Rand) m {
			c := m{
				"identity_info_endpoint": c17Endpoint(r, "http://api.test/userinfo"),
				"authentication_data_source": vf.Pick(r, [][]any{
					{m{"header": "X-Token"}}, {m{"header": "Authorization", "scheme": "Bearer"}},
					{m{"cookie": "session"}, m{"header": "X-Token"}}, {m{"query_parameter": "access_token"}, m{"cookie": "session"}},
				}),
				"subject": vf.Pick(r, []m{{"id": "sub"}, {"id": "ext.id", "attributes": "ext"}, {"id": "name", "attributes": "@this"}}),
			}
			if r.Chance(50) {
				c["forward_headers"] = c17Strs(r, []string{"X-Fwd", "X-Tenant", "X-Missing"}, 1)
			}

			if r.Chance(40) {
				c["forward_cookies"] = c17Strs(r, []string{"session", "pref"}, 1)
			}

			if r.Chance(40) {
				c["payload"] = vf.Pick(r, []string{`token={{ urlenc .AuthenticationData }}`, `{"t":{{ quote .AuthenticationData }}}`})
			}

			if r.Chance(50) {
				c["cache_ttl"] = c17Dur(r)
			}

			if r.Chance(30) {
				c["allow_fallback_on_error"] = r.Bool()
			}

			if r.Chance(25) {
				c["session_lifespan"] = m{"active": "ext.active", "issued_at": "iat", "not_before": "nbf", "not_after": "exp",
					"time_format": "Unix", "validity_leeway": "10s"}
			}

			return c
		},
		ovr: func(r *vf.Rand) m {
			return c17Subset(r, m{"cache_ttl": c17Dur(r), "allow_fallback_on_error": r.Bool()}, 1)
		}},
	{kind: "authenticator", typ: "jwt", goType: "jwtAuthenticator", weight: 8, variants: []int{0, 0, 1, 2, 4},
		proto: func(r *vf.Rand) m {
			c := m{}
			if r.Chance(55) {
				c["metadata_endpoint"] = c17MetaEndpoint(r)
				if r.Chance(60) {
					c["assertions"] = c17Assertions(r, false)
				}
			} else {
				c["jwks_endpoint"] = c17Endpoint(r, "http://idp.test/jwks")
				delete(c["jwks_endpoint"].(m), "auth")
				c["jwks_endpoint"].(m)["method"] = "GET"
				c["assertions"] = c17Assertions(r, true)
			}

			if r.Chance(40) {
				c["cache_ttl"] = c17Dur(r)
			}

			if r.Chance(30) {
				c["allow_fallback_on_error"] = r.Bool()
			}

			if r.Chance(30) {
				c["subject"] = vf.Pick(r, []m{{"id": "sub"}, {"id": "role"}, {"id": "sub", "attributes": "@this"}})
			}

			if r.Chance(30) {
				c["jwt_source"] = vf.Pick(r, [][]any{
					{m{"header": "Authorization", "scheme": "Bearer"}}, {m{"header": "X-Token"}, m{"header": "Authorization", "scheme": "Bearer"}},
				})
			}

			if r.Chance(20) {
				c["validate_jwk"] = r.Bool()
			}

			return c
		},
		ovr: func(r *vf.Rand) m {
			return c17Subset(r, m{"assertions": c17Assertions(r, false), "cache_ttl": c17Dur(r), "allow_fallback_on_error": r.Bool()}, 1)
		}},
	{kind: "authenticator", typ: "oauth2_introspection", goType: "oauth2IntrospectionAuthenticator", weight: 8, variants: []int{2, 2, 0, 4},
		proto: func(r *vf.Rand) m {
			c := m{}
			if r.Chance(55) {
				c["metadata_endpoint"] = c17MetaEndpoint(r)
				c["metadata_endpoint"].(m)["url"] = "http://idp.test/.well-known/oauth-authorization-server"
				if r.Chance(60) {
					c["assertions"] = c17Assertions(r, false)
				}
			} else {
				c["introspection_endpoint"] = c17Endpoint(r, "http://idp.test/introspect")
				c["introspection_endpoint"].(m)["method"] = "POST"
				c["assertions"] = c17Assertions(r, true)
			}

			if r.Chance(40) {
				c["cache_ttl"] = c17Dur(r)
			}

			if r.Chance(30) {
				c["allow_fallback_on_error"] = r.Bool()
			}

			if r.Chance(30) {
				c["subject"] = vf.Pick(r, []m{{"id": "sub"}, {"id": "client_id"}, {"id": "sub", "attributes": "@this"}})
			}

			if r.Chance(30) {
				c["token_source"] = vf.Pick(r, [][]any{
					{m{"header": "Authorization", "scheme": "Bearer"}}, {m{"header": "X-Token"}}, {m{"query_parameter": "access_token"}},
				})
			}

			return c
		},
		ovr: func(r *vf.Rand) m {
			return c17Subset(r, m{"assertions": c17Assertions(r, false), "cache_ttl": c17Dur(r), "allow_fallback_on_error": r.Bool()}, 1)
		}},
	{kind: "authorizer", typ: "allow", goType: "allowAuthorizer", weight: 1, variants: []int{0},
		proto: func(*vf.Rand) m { return m{} }, ovr: func(*vf.Rand) m { return m{"x": "y"} }},
	{kind: "authorizer", typ: "deny", goType: "denyAuthorizer", weight: 1, variants: []int{0},
		proto: func(*vf.Rand) m { return m{} }, ovr: func(*vf.Rand) m { return m{"x": "y"} }},
	{kind: "authorizer", typ: "cel", goType: "celAuthorizer", weight: 4, variants: []int{0, 4},
		proto: func(r *vf.Rand) m { return m{"expressions": c17Exprs(r, false)} },
		ovr:   func(r *vf.Rand) m { return m{"expressions": c17Exprs(r, false)} }},
	{kind: "authorizer", typ: "remote", goType: "remoteAuthorizer", weight: 9, variants: []int{0, 2, 4},
		proto: func(r *vf.Rand) m {
			c := m{"endpoint": c17Endpoint(r, "http://api.test/authz"), "payload": c17Tmpl(r)}
			if r.Chance(50) {
				c["expressions"] = c17Exprs(r, true)
			}

			if r.Chance(50) {
				c["forward_response_headers_to_upstream"] = c17Strs(r, []string{"X-Authz", "X-Scope", "X-None"}, 1)
			}

			if r.Chance(50) {
				c["cache_ttl"] = c17Dur(r)
			}

			if r.Chance(60) {
				c["values"] = c17Values(r)
			}

			return c
		},
		ovr: func(r *vf.Rand) m {
			return c17Subset(r, m{"payload": c17Tmpl(r), "expressions": c17Exprs(r, true),
				"forward_response_headers_to_upstream": c17Strs(r, []string{"X-Authz", "X-Scope", "X-None"}, 1),
				"cache_ttl": c17Dur(r), "values": c17Values(r)}, 1)
		}},
	{kind: "contextualizer", typ: "generic", goType: "genericContextualizer", weight: 9, variants: []int{0, 2, 4},
		proto: func(r *vf.Rand) m {
			c := m{"endpoint": c17Endpoint(r, "http://api.test/ctx")}
			if r.Chance(50) {
				c["forward_headers"] = c17Strs(r, []string{"X-Fwd", "X-Tenant", "X-Missing"}, 1)
			}

			if r.Chance(40) {
				c["forward_cookies"] = c17Strs(r, []string{"session", "pref"}, 1)
			}

			if r.Chance(60) {
				c["payload"] = c17Tmpl(r)
			}

			if r.Chance(50) {
				c["cache_ttl"] = c17Dur(r)
			}

			if r.Chance(30) {
				c["continue_pipeline_on_error"] = r.Bool()
			}

			if r.Chance(60) {
				c["values"] = c17Values(r)
			}

			return c
		},
		ovr: func(r *vf.Rand) m {
			return c17Subset(r, m{"forward_headers": c17Strs(r, []string{"X-Fwd", "X-Tenant", "X-Missing"}, 1),
				"forward_cookies": c17Strs(r, []string{"session", "pref"}, 1), "payload": c17Tmpl(r), "cache_ttl": c17Dur(r),
				"continue_pipeline_on_error": r.Bool(), "values": c17Values(r)}, 1)
		}},
	{kind: "finalizer", typ: "cookie", goType: "cookieFinalizer", weight: 3, variants: []int{0},
		proto: func(r *vf.Rand) m { return m{"cookies": c17TmplMap(r, []string{"c1", "c2", "c3"})} },
		ovr:   func(r *vf.Rand) m { return m{"cookies": c17TmplMap(r, []string{"c1", "c2", "c4"})} }},
	{kind: "finalizer", typ: "header", goType: "headerFinalizer", weight: 3, variants: []int{0},
		proto: func(r *vf.Rand) m { return m{"headers": c17TmplMap(r, []string{"X-A", "X-B", "X-C"})} },
		ovr:   func(r *vf.Rand) m { return m{"headers": c17TmplMap(r, []string{"X-A", "X-B", "X-D"})} }},
	{kind: "finalizer", typ: "jwt", goType: "jwtFinalizer", weight: 5, variants: []int{0},
		proto: func(r *vf.Rand) m {
			s := m{"key_store": m{"path": "$KEYSTORE"}}
			if r.Bool() {
				s["name"] = vf.Pick(r, []string{"heimdall-a", "issuer-b"})
			}

			c := m{"signer": s}
			if r.Chance(50) {
				c["ttl"] = vf.Pick(r, []string{"30s", "1m", "5m"})
			}

			if r.Chance(50) {
				c["claims"] = vf.Pick(r, []string{`{"role":{{ quote .Subject.Attributes.role }}}`, `{"m":{{ quote .Request.Method }}}`})
			}

			if r.Chance(40) {
				c["header"] = m{"name": "X-JWT", "scheme": vf.Pick(r, []string{"", "Token"})}
			}

			return c
		},
		ovr: func(r *vf.Rand) m {
			return c17Subset(r, m{"ttl": vf.Pick(r, []string{"10s", "2m", "10m"}),
				"claims": vf.Pick(r, []string{`{"g":"x"}`, `{"id":{{ quote .Subject.ID }}}`})}, 1)
		}},
	{kind: "finalizer", typ: "noop", goType: "noopFinalizer", weight: 1, variants: []int{0},
		proto: func(*vf.Rand) m { return m{} }, ovr: func(*vf.Rand) m { return m{"x": "y"} }},
	{kind: "finalizer", typ: "oauth2_client_credentials", goType: "oauth2ClientCredentialsFinalizer", weight: 6, variants: []int{0},
		proto: func(r *vf.Rand) m {
			c := m{"token_url": "http://idp.test/token", "client_id": vf.Pick(r, []string{"cl1", "cl2"}), "client_secret": "s3cr3t"}
			if r.Chance(40) {
				c["auth_method"] = vf.Pick(r, []string{"basic_auth", "request_body"})
			}

			if r.Chance(60) {
				c["scopes"] = c17Strs(r, []string{"read", "write", "admin"}, 1)
			}

			if r.Chance(40) {
				c["cache_ttl"] = c17Dur(r)
			}

			if r.Chance(40) {
				c["header"] = m{"name": "X-Upstream-Auth", "scheme": vf.Pick(r, []string{"", "Tok"})}
			}

			return c
		},
		ovr: func(r *vf.Rand) m {
			return c17Subset(r, m{"scopes": c17Strs(r, []string{"read", "write", "admin", "x"}, 1), "cache_ttl": c17Dur(r),
				"header": m{"name": vf.Pick(r, []string{"X-Other", "Authorization"}), "scheme": vf.Pick(r, []string{"", "Zed"})}}, 0)
		}},
	{kind: "errorhandler", typ: "default", goType: "defaultErrorHandler", weight: 1, variants: []int{0},
		proto: func(*vf.Rand) m { return m{} }, ovr: func(*vf.Rand) m { return m{} }},
	{kind: "errorhandler", typ: "redirect", goType: "redirectErrorHandler", weight: 2, variants: []int{0},
		proto: func(r *vf.Rand) m {
			c := m{"to": vf.Pick(r, []string{"http://login.test/?origin={{ .Request.URL | urlenc }}", "http://login.test/"})}
			if r.Bool() {
				c["code"] = vf.Pick(r, []int{301, 302, 303, 307})
			}

			return c
		},
		ovr: func(r *vf.Rand) m {
			if r.Bool() {
				return m{}
			}

			return m{"to": "http://evil.test/"}
		}},
	{kind: "errorhandler", typ: "www_authenticate", goType: "wwwAuthenticateErrorHandler", weight: 2, variants: []int{0},
		proto: func(r *vf.Rand) m {
			if r.Bool() {
				return m{}
			}

			return m{"realm": vf.Pick(r, []string{"r1", "r2"})}
		},
		ovr: func(r *vf.Rand) m { return m{"realm": vf.Pick(r, []string{"r1", "r2", "r3"})} }},
}

// c17BadOverride: a malformed override (unknown key, wrong type) that every reconfigurable type must reject.
func c17BadOverride(r *vf.Rand, s *c17Spec) m {
	o := s.ovr(r)

	keys := make([]string, 0, len(o))
	for k := range o {
		keys = append(keys, k)
	}

	sort.Strings(keys)

	switch r.Intn(3) {
	case 0:
		o["no_such_option"] = "x"
	case 1:
		if len(keys) > 0 {
			o[keys[0]] = m{"unexpected": []any{1, 2}}
		} else {
			o["no_such_option"] = 1
		}
	default:
		o["cache_ttl"] = "not-a-duration"
	}

	return o
}
