//go:build verif

package mechanisms

// C17 driver, part 4: the correspondence streams.
//
// Stream "variants" (TestVerifC17): a catalogue of one or two prototypes is loaded through the REAL
// NewMechanismFactory; up to four rule-level variants are created through the real factory (and a
// few more by calling WithConfig on variants), in every creation order, interleaved with executions
// and accessor calls.  After every operation the reflection deep-hash of every field of every
// instance that exists is taken and compared with the previous one.  The reference for "catalogue
// configuration overlaid with its own overrides" is the same implementation in the minimal history:
// a freshly loaded catalogue on which only this variant's own chain of overrides is applied.
//
// Stream "race" (TestVerifC17Race, built with -race): prototype and variants are executed by 16
// goroutines while further variants are created; race-detector reports are attributed to the case
// through GORACE=log_path; every case runs in a child process so that a fatal runtime error
// ("concurrent map writes") is an observation, not a crash of the driver.

import (
	"bufio"
	"encoding/json"
	"fmt"
	"os"
	"os/exec"
	"path/filepath"
	"reflect"
	"sort"
	"strconv"
	"strings"
	"sync"
	"sync/atomic"
	"syscall"
	"testing"
	"time"

	"github.com/go-jose/go-jose/v4"

	"github.com/dadrus/heimdall/internal/config"
	"github.com/dadrus/heimdall/internal/otel/metrics/certificate"
	"github.com/dadrus/heimdall/internal/keyholder"
	"github.com/dadrus/heimdall/internal/zzverif/vf"
)

// ---------------------------------------------------------------- creation context fakes

type c17Registry struct{ n int }

func (r *c17Registry) AddKeyHolder(keyholder.KeyHolder) { r.n++ }
func (r *c17Registry) Keys() []jose.JSONWebKey         { return nil }

type c17Observer struct{ n int }

func (o *c17Observer) Add(certificate.Supplier) { o.n++ }
func (o *c17Observer) Start() error              { return nil }

// ---------------------------------------------------------------- generated inputs

type c17Proto struct {
	Kind   string         `json:"kind"`
	Type   string         `json:"type"`
	GoType string         `json:"go_type"`
	Conf   map[string]any `json:"conf"`
}

// c17Op: one operation of a history.
//
//	with:  create a variant of instance Src with override Ovr (through the factory when Src is a prototype)
//	exec:  execute instance I        call: call the accessors of instance I
type c17Op struct {
	Op  string         `json:"op"`
	Src int            `json:"src,omitempty"`
	I   int            `json:"i,omitempty"`
	Ovr map[string]any `json:"ovr,omitempty"`
}

type c17Case struct {
	Cat     []c17Proto `json:"catalogue"`
	Ops     []c17Op    `json:"ops"`
	Variant int        `json:"request_variant"`
	Group   string     `json:"group"` // content group and creation order
}

func c17Copy(v any) any {
	switch x := v.(type) {
	case map[string]any:
		out := make(map[string]any, len(x))
		for k, e := range x {
			out[k] = c17Copy(e)
		}

		return out
	case []any:
		out := make([]any, len(x))
		for i, e := range x {
			out[i] = c17Copy(e)
		}

		return out
	case string:
		if x == "$KEYSTORE" {
			return c17KeyStore
		}

		return x
	}

	return v
}

func c17Conf(c map[string]any) map[string]any {
	if c == nil {
		return nil
	}

	return c17Copy(c).(map[string]any)
}

func c17SpecOf(kind, typ string) *c17Spec {
	for i := range c17Specs {
		if c17Specs[i].kind == kind && c17Specs[i].typ == typ {
			return &c17Specs[i]
		}
	}

	return nil
}

// c17Wanted: VERIF_C17_TYPES=goType,goType restricts generation to these mechanism types (used when the
// regenerated effect table lists a write for them: the search is focused there).
func c17Wanted(s *c17Spec) bool {
	f := os.Getenv("VERIF_C17_TYPES")
	if f == "" {
		return true
	}

	for _, t := range strings.Split(f, ",") {
		if t == s.goType {
			return true
		}
	}

	return false
}

func c17PickSpec(r *vf.Rand) *c17Spec {
	tot := 0

	for i := range c17Specs {
		if c17Wanted(&c17Specs[i]) {
			tot += c17Specs[i].weight
		}
	}

	if tot == 0 {
		return &c17Specs[r.Intn(len(c17Specs))]
	}

	n := r.Intn(tot)

	for i := range c17Specs {
		if !c17Wanted(&c17Specs[i]) {
			continue
		}

		n -= c17Specs[i].weight
		if n < 0 {
			return &c17Specs[i]
		}
	}

	return &c17Specs[0]
}

// permutation number p (0 <= p < k!) of 0..k-1
func c17Perm(k, p int) []int {
	items := make([]int, k)
	for i := range items {
		items[i] = i
	}

	out := make([]int, 0, k)

	for n := k; n > 0; n-- {
		f := 1
		for j := 2; j < n; j++ {
			f *= j
		}

		idx := (p / f) % n
		p %= f
		out = append(out, items[idx])
		items = append(items[:idx], items[idx+1:]...)
	}

	return out
}

type c17Content struct {
	cat     []c17Proto
	ovrs    []c17Op // "with" operations on prototypes (Src = prototype index)
	variant int
}

// c17GenContent: catalogue + the set of k overrides whose creation orders are enumerated.
func c17GenContent(r *vf.Rand, k int) c17Content {
	s := c17PickSpec(r)
	c := c17Content{cat: []c17Proto{{s.kind, s.typ, s.goType, s.proto(r)}}, variant: vf.Pick(r, s.variants)}

	if r.Chance(45) {
		// a bystander: second prototype, same kind; same type more often than not
		s2 := s
		if r.Chance(35) {
			for tries := 0; tries < 20; tries++ {
				if t := c17PickSpec(r); t.kind == s.kind {
					s2 = t

					break
				}
			}
		}

		c.cat = append(c.cat, c17Proto{s2.kind, s2.typ, s2.goType, s2.proto(r)})
	}

	for j := 0; j < k; j++ {
		src := 0
		if len(c.cat) > 1 && r.Chance(25) {
			src = 1
		}

		sp := c17SpecOf(c.cat[src].Kind, c.cat[src].Type)

		var o map[string]any

		switch {
		case r.Chance(8):
			o = map[string]any{} // empty override: the factory hands out the prototype itself or a plain copy
		case r.Chance(12):
			o = c17BadOverride(r, sp)
		default:
			o = sp.ovr(r)
		}

		c.ovrs = append(c.ovrs, c17Op{Op: "with", Src: src, Ovr: o})
	}

	return c
}

// c17GenCase: case number i.  Cases come in content groups: a catalogue and a set of k <= 4
// overrides, followed by ALL k! creation orders of the set (k = 1: 1 case, 2: 2, 3: 6, 4: 24 cases).
var c17Layout struct {
	seed   uint64
	starts []int // first case index of group g
	ks     []int
}

func c17GroupK(root *vf.Rand, g int) int {
	x := root.Fork(uint64(2_000_000 + g)).Intn(100)

	switch {
	case x < 15:
		return 1
	case x < 55:
		return 2
	case x < 92:
		return 3
	}

	return 4
}

func c17Locate(root *vf.Rand, i int) (g, k, slot int) {
	l := &c17Layout
	if key := root.Fork(0).U64(); l.seed != key || len(l.starts) == 0 {
		l.seed, l.starts, l.ks = key, []int{0}, nil
	}

	for l.starts[len(l.starts)-1] <= i {
		g := len(l.ks)
		k := c17GroupK(root, g)
		l.ks = append(l.ks, k)
		l.starts = append(l.starts, l.starts[g]+[]int{1, 1, 2, 6, 24}[k])
	}

	g = sort.SearchInts(l.starts, i+1) - 1

	return g, l.ks[g], i - l.starts[g]
}

func c17GenCase(root *vf.Rand, i int) c17Case {
	g, k, slot := c17Locate(root, i)
	content := c17GenContent(root.Fork(uint64(1_000_000+g)), k)
	perm := c17Perm(k, slot)
	group := fmt.Sprintf("g%d/k%d/order%d", g, k, slot)

	r := root.Fork(uint64(i))
	c := c17Case{Cat: content.cat, Variant: content.variant, Group: group}
	n := len(content.cat) // number of instances so far

	execSome := func(p int) {
		for x := 0; x < n; x++ {
			if r.Chance(p) {
				if r.Chance(80) {
					c.Ops = append(c.Ops, c17Op{Op: "exec", I: x})
				} else {
					c.Ops = append(c.Ops, c17Op{Op: "call", I: x})
				}
			}
		}
	}

	execSome(40)

	created := []int{} // instance numbers of accepted-or-not creations (an instance number is consumed only if accepted; fixed up by the runner)

	for _, pi := range perm {
		c.Ops = append(c.Ops, content.ovrs[pi])
		created = append(created, pi)
		n++ // upper bound; the runner maps instance numbers modulo the number that exist
		execSome(35)
	}

	// variants of variants (WithConfig called on a variant, as a rule loader could)
	if len(perm) > 0 && r.Chance(30) {
		src := len(content.cat) + r.Intn(len(perm))
		base := content.ovrs[perm[src-len(content.cat)]]
		sp := c17SpecOf(content.cat[base.Src].Kind, content.cat[base.Src].Type)
		c.Ops = append(c.Ops, c17Op{Op: "with", Src: src, Ovr: sp.ovr(r)})
		n++
		execSome(50)
	}

	execSome(30)

	// rule A then rule B on one shared real cache (cross-rule cache reuse)
	if n >= 2 {
		for x := 0; x < 2; x++ {
			a, b := r.Intn(n), r.Intn(n)
			if a != b {
				c.Ops = append(c.Ops, c17Op{Op: "cross", I: a, Src: b})
			}
		}
	}

	return c
}

// ---------------------------------------------------------------- running a case

type c17Inst struct {
	kind   string
	m      any
	origin int
	chain  []map[string]any
}

func c17Factory(cat []c17Proto) (*mechanismsFactory, error) {
	p := &config.MechanismPrototypes{}

	for i, c := range cat {
		mc := config.Mechanism{ID: fmt.Sprintf("p%d", i), Type: c.Type, Config: c17Conf(c.Conf)}
		if mc.Config == nil {
			mc.Config = map[string]any{}
		}

		switch c.Kind {
		case "authenticator":
			p.Authenticators = append(p.Authenticators, mc)
		case "authorizer":
			p.Authorizers = append(p.Authorizers, mc)
		case "contextualizer":
			p.Contextualizers = append(p.Contextualizers, mc)
		case "finalizer":
			p.Finalizers = append(p.Finalizers, mc)
		case "errorhandler":
			p.ErrorHandlers = append(p.ErrorHandlers, mc)
		}
	}

	w := &c17Watcher{}
	c17LastWatcher = w

	f, err := NewMechanismFactory(&config.Configuration{Prototypes: p}, c17Logger, w, &c17Registry{}, &c17Observer{})
	if err != nil {
		return nil, err
	}

	return f.(*mechanismsFactory), nil
}

func c17Create(f *mechanismsFactory, kind, id string, conf map[string]any) (res any, err error) {
	defer func() {
		if r := recover(); r != nil {
			res, err = nil, fmt.Errorf("PANIC: %v", r)
		}
	}()

	var mc config.MechanismConfig
	if conf != nil {
		mc = c17Conf(conf)
	}

	switch kind {
	case "authenticator":
		return f.CreateAuthenticator("", id, mc)
	case "authorizer":
		return f.CreateAuthorizer("", id, mc)
	case "contextualizer":
		return f.CreateContextualizer("", id, mc)
	case "finalizer":
		return f.CreateFinalizer("", id, mc)
	default:
		return f.CreateErrorHandler("", id, mc)
	}
}

// c17With calls m.WithConfig(conf) by reflection (the result type differs per kind).
func c17With(m any, conf map[string]any) (res any, err error) {
	defer func() {
		if r := recover(); r != nil {
			res, err = nil, fmt.Errorf("PANIC: %v", r)
		}
	}()

	out := reflect.ValueOf(m).MethodByName("WithConfig").Call([]reflect.Value{reflect.ValueOf(c17Conf(conf))})
	if !out[1].IsNil() {
		return nil, out[1].Interface().(error)
	}

	return out[0].Interface(), nil
}

func c17Accessors(kind string, m any) string {
	v := reflect.ValueOf(m)
	s := "id=" + v.MethodByName("ID").Call(nil)[0].String()

	for _, n := range []string{"IsFallbackOnErrorAllowed", "ContinueOnError"} {
		if mt := v.MethodByName(n); mt.IsValid() {
			s += fmt.Sprintf(" %s=%v", n, mt.Call(nil)[0].Bool())
		}
	}

	return s
}

// c17Runner holds the per-case interning of hashes (so that the Gallina case is small and does not
// depend on addresses or on the key material generated for this run).
type c17Runner struct {
	c       c17Case
	intern  map[uint64]int
	istr    map[string]int
	solos   map[string]*c17Solo
	nodes    int
	unstable bool
	soloRefs int      // overrides whose reference had to be taken from the minimal history (merged config did not load)
	used     map[string]*c17Solo // the references the case actually relies on (behaviour table)
	mask     [][]bool // per prototype: fields that differ between two fresh loads of the same catalogue (instance identity, not configuration)
}

type c17Solo struct {
	ok     bool
	view   []int
	digest int    // full behaviour (always-miss cache): outcome + cache TTLs + requests sent
	out    int    // outcome only (error kind, subject, upstream headers/cookies, outputs, pipeline error)
	raw    string
	merged bool // reference taken from a catalogue whose prototype is configured with catalogue (+) overrides
}

// c17Outcome: the part of a behaviour string that does not depend on whether a cache entry was hit
func c17Outcome(raw string) string {
	if i := strings.Index(raw, " ttls="); i >= 0 {
		return raw[:i]
	}

	return raw
}

func (rn *c17Runner) id(h uint64) int {
	if v, ok := rn.intern[h]; ok {
		return v
	}

	v := len(rn.intern) + 1
	rn.intern[h] = v

	return v
}

func (rn *c17Runner) sid(s string) int {
	if v, ok := rn.istr[s]; ok {
		return v
	}

	v := len(rn.istr) + 1
	rn.istr[s] = v

	return v
}

// viewOf: the view of an instance deriving from prototype [origin]; fields that are not a function of the
// configuration (they differ between two fresh loads) are blanked.
func (rn *c17Runner) viewOf(m any, origin int) []int {
	v := rn.view(m)
	if origin < len(rn.mask) {
		for i := range v {
			if i < len(rn.mask[origin]) && rn.mask[origin][i] {
				v[i] = 0
			}
		}
	}

	return v
}

func (rn *c17Runner) view(m any) []int {
	_, _, hs, nodes := c17Fields(m)
	rn.nodes += nodes

	out := make([]int, len(hs))
	for i, h := range hs {
		out[i] = rn.id(h)
	}

	return out
}

func c17ChainKey(origin int, chain []map[string]any) string {
	b, _ := json.Marshal(chain)

	return fmt.Sprintf("%d|%s", origin, b)
}

// solo: the minimal history — a freshly loaded catalogue on which only this chain of overrides is applied.
func (rn *c17Runner) solo(origin int, chain []map[string]any) *c17Solo {
	k := c17ChainKey(origin, chain)
	if s, ok := rn.solos[k]; ok {
		return s
	}

	s := &c17Solo{}
	rn.solos[k] = s

	f, err := c17Factory(rn.c.Cat)
	if err != nil {
		return s
	}

	kind := rn.c.Cat[origin].Kind
	id := fmt.Sprintf("p%d", origin)

	var m any

	if len(chain) == 0 {
		m, err = c17Create(f, kind, id, nil)
	} else {
		m, err = c17Create(f, kind, id, chain[0])
		for _, o := range chain[1:] {
			if err != nil {
				break
			}

			m, err = c17With(m, o)
		}
	}

	if err != nil || m == nil {
		return s
	}

	rn.fill(s, kind, m, origin)

	return s
}

func (rn *c17Runner) fill(s *c17Solo, kind string, m any, origin int) {
	s.ok = true
	s.view = rn.viewOf(m, origin)
	s.raw = "acc{" + c17Accessors(kind, m) + "} " + c17Exec(kind, m, rn.c.Variant)
	s.digest = rn.sid(s.raw)
	s.out = rn.sid("out:" + c17Outcome(s.raw))

	// executing must not have changed it either (otherwise the reference itself is unstable)
	if !c17EqInts(s.view, rn.viewOf(m, origin)) {
		rn.unstable = true
	}
}

// merged: the implementation-INDEPENDENT reference for "catalogue configuration overlaid with own overrides": a
// fresh catalogue whose prototype is configured with c17Merge(catalogue config, overrides…) — built by the
// constructor, not by WithConfig.  nil if that configuration does not load.
func (rn *c17Runner) merged(origin int, chain []map[string]any) *c17Solo {
	k := "merged|" + c17ChainKey(origin, chain)
	if s, ok := rn.solos[k]; ok {
		if s.ok {
			return s
		}

		return nil
	}

	s := &c17Solo{merged: true}
	rn.solos[k] = s

	sp := c17SpecOf(rn.c.Cat[origin].Kind, rn.c.Cat[origin].Type)
	conf := rn.c.Cat[origin].Conf

	for _, o := range chain {
		conf = c17Merge(sp, conf, o)
	}

	cat := append([]c17Proto{}, rn.c.Cat...)
	cat[origin].Conf = conf

	f, err := c17Factory(cat)
	if err != nil {
		return nil
	}

	m, err := c17Create(f, cat[origin].Kind, fmt.Sprintf("p%d", origin), nil)
	if err != nil || m == nil {
		return nil
	}

	rn.fill(s, cat[origin].Kind, m, origin)

	return s
}

// ref: what an instance with this chain of overrides is specified to look like and to do
func (rn *c17Runner) ref(origin int, chain []map[string]any) *c17Solo {
	s := rn.solo(origin, chain)
	if !s.ok {
		return s
	}

	if len(chain) > 0 {
		if mg := rn.merged(origin, chain); mg != nil {
			s = mg
		} else {
			rn.soloRefs++
		}
	}

	if rn.used == nil {
		rn.used = map[string]*c17Solo{}
	}

	rn.used[c17ChainKey(origin, chain)] = s

	return s
}

// c17GetWithBodyCached: does the configuration contain an endpoint with method GET and http_cache.enabled?
func c17GetWithBodyCached(conf map[string]any) bool {
	for _, v := range conf {
		e, ok := v.(map[string]any)
		if !ok {
			continue
		}

		hc, _ := e["http_cache"].(map[string]any)
		if en, _ := hc["enabled"].(bool); en && e["method"] == "GET" && e["url"] != nil {
			return true
		}
	}

	return false
}

func c17IsEmpty(v any) bool {
	switch x := v.(type) {
	case nil:
		return true
	case string:
		return x == ""
	case []any:
		return len(x) == 0
	case map[string]any:
		return len(x) == 0
	}

	return false
}

// c17Merge: the override semantics of heimdall's rule-level `config` as documented per mechanism: an option given
// in the override replaces the catalogue's; `assertions` and `values` are merged entry by entry (empty entries do
// not override); the `header` of the oauth2_client_credentials finalizer keeps the catalogue's scheme if the
// override gives none; mechanisms without reconfigurable options ignore the override.  (A first version copied the
// then-recorded finding C10-F3 "cache_ttl: 0s of the remote authorizer does not override"; the reference flagged it
// as soon as fix e0dc5e2 had repaired that — the reference is independent of WithConfig.)
func c17Merge(sp *c17Spec, base, o map[string]any) map[string]any {
	out := c17Copy(base).(map[string]any)
	if out == nil {
		out = map[string]any{}
	}

	switch sp.goType {
	case "unauthorizedAuthenticator", "allowAuthorizer", "denyAuthorizer", "noopFinalizer":
		return out
	}

	for k, v := range o {
		switch {
		case k == "assertions" || k == "values":
			sub := map[string]any{}
			if b, ok := out[k].(map[string]any); ok {
				sub = b
			}

			if ov, ok := v.(map[string]any); ok {
				for kk, vv := range ov {
					if !c17IsEmpty(vv) {
						sub[kk] = vv
					}
				}
			}

			// an override without entries leaves an absent option absent (nil, not an empty map)
			if _, had := out[k]; had || len(sub) > 0 {
				out[k] = sub
			}
		case k == "header" && sp.goType == "oauth2ClientCredentialsFinalizer":
			sub := map[string]any{}
			if b, ok := out[k].(map[string]any); ok {
				sub = b
			}

			if ov, ok := v.(map[string]any); ok {
				sub["name"] = ov["name"]
				if !c17IsEmpty(ov["scheme"]) {
					sub["scheme"] = ov["scheme"]
				}
			}

			out[k] = sub
		default:
			out[k] = c17Copy(v)
		}
	}

	return out
}

func c17EqInts(a, b []int) bool {
	if len(a) != len(b) {
		return false
	}

	for i := range a {
		if a[i] != b[i] {
			return false
		}
	}

	return true
}

type c17Step struct {
	Op      string  `json:"op"`
	New     []int   `json:"new,omitempty"`
	Changed [][]int `json:"changed,omitempty"` // [instance, view...]
	Beh     int     `json:"beh,omitempty"`
	Acc     string  `json:"acc,omitempty"`
	Note    string  `json:"note,omitempty"`
}

func c17Ints(xs []int) string {
	s := make([]string, len(xs))
	for i, x := range xs {
		s[i] = strconv.Itoa(x) + "%Z"
	}

	return "[" + strings.Join(s, ";") + "]"
}

func c17OptInts(xs []int, present bool) string {
	if !present {
		return "None"
	}

	return "(Some " + c17Ints(xs) + ")"
}

// run executes the case and renders it.  Returns the observation, the Gallina term, tags.
func (rn *c17Runner) run() (obs map[string]any, coq string, tags []string, nontrivial bool) {
	c := rn.c
	tags = append(tags, fmt.Sprintf("catalogue:%d", len(c.Cat)))

	f, err := c17Factory(c.Cat)
	if err != nil {
		return map[string]any{"catalogue_rejected": err.Error()}, "", append(tags, "catalogue-rejected"), false
	}

	var insts []*c17Inst

	for i, p := range c.Cat {
		pm, err := c17Create(f, p.Kind, fmt.Sprintf("p%d", i), nil)
		if err != nil {
			return map[string]any{"catalogue_rejected": err.Error()}, "", append(tags, "catalogue-rejected"), false
		}

		insts = append(insts, &c17Inst{kind: p.Kind, m: pm, origin: i})
	}

	// fields that are not a function of the configuration (they differ between two fresh loads of the same
	// catalogue: instance ids, timestamps …) are blanked in every view of the case
	if f2, err := c17Factory(c.Cat); err == nil {
		nm := 0

		for i, p := range c.Cat {
			var mk []bool

			if m2, err := c17Create(f2, p.Kind, fmt.Sprintf("p%d", i), nil); err == nil {
				a, b := rn.view(insts[i].m), rn.view(m2)
				mk = make([]bool, len(a))

				for x := range a {
					if x >= len(b) || a[x] != b[x] {
						mk[x] = true
						nm++
					}
				}
			}

			rn.mask = append(rn.mask, mk)
		}

		if nm > 0 {
			tags = append(tags, "fields-not-a-function-of-config")
		}
	}

	// catalogue views come from the history's own prototypes (Go type by reflection), the behaviour table from the references
	var catCoq []string

	prev := [][]int{}

	for i := range c.Cat {
		s := rn.solo(i, nil)
		if !s.ok {
			return map[string]any{"catalogue_rejected": "solo"}, "", append(tags, "catalogue-rejected"), false
		}

		tn, _, _, _ := c17Fields(insts[i].m)
		if i == 0 {
			tags = append(tags, "type:"+tn)
		}

		v := rn.viewOf(insts[i].m, i)
		catCoq = append(catCoq, "("+vf.CoqStr(tn)+", "+c17Ints(v)+")")
		prev = append(prev, v)
	}

	var (
		steps    []c17Step
		opsCoq   []string
		nWith    int
		nExec    int
		nReject  int
		nChanged int
		nCross   int

		skippedCross int
	)

	observe := func(st *c17Step, upto int) string {
		var ch []string

		for x := 0; x < upto; x++ {
			v := rn.viewOf(insts[x].m, insts[x].origin)
			if !c17EqInts(v, prev[x]) {
				st.Changed = append(st.Changed, append([]int{x}, v...))
				ch = append(ch, fmt.Sprintf("(%d%%nat, %s)", x, c17Ints(v)))
				prev[x] = v
				nChanged++
			}
		}

		return "[" + strings.Join(ch, "; ") + "]"
	}

	for _, op := range c.Ops {
		switch op.Op {
		case "with":
			src := op.Src % len(insts)
			si := insts[src]
			chain := append(append([]map[string]any{}, si.chain...), op.Ovr)
			base, ref := rn.ref(si.origin, si.chain), rn.ref(si.origin, chain)

			var (
				nm   any
				werr error
			)

			if len(si.chain) == 0 {
				nm, werr = c17Create(f, si.kind, fmt.Sprintf("p%d", si.origin), op.Ovr)
			} else {
				nm, werr = c17With(si.m, op.Ovr)
			}

			st := c17Step{Op: fmt.Sprintf("with %d", src)}
			n0 := len(insts)

			var newView []int

			if werr == nil && nm != nil {
				insts = append(insts, &c17Inst{kind: si.kind, m: nm, origin: si.origin, chain: chain})
				newView = rn.viewOf(nm, si.origin)
				st.New = newView
				prev = append(prev, newView)
			} else if werr != nil && strings.HasPrefix(werr.Error(), "PANIC") {
				st.Note = werr.Error()
			}

			chg := observe(&st, n0)

			if ref.ok && base.ok {
				// the override, field by field, as the minimal history shows it
				ov := make([]string, len(ref.view))
				for x := range ref.view {
					if x < len(base.view) && ref.view[x] == base.view[x] {
						ov[x] = "None"
					} else {
						ov[x] = fmt.Sprintf("(Some %d%%Z)", ref.view[x])
					}
				}

				opsCoq = append(opsCoq, fmt.Sprintf("(XWith %d [%s], os %s %s None)", src, strings.Join(ov, ";"),
					c17OptInts(newView, newView != nil), chg))
				nWith++
			} else {
				opsCoq = append(opsCoq, fmt.Sprintf("(XReject %d, os %s %s None)", src, c17OptInts(newView, newView != nil), chg))
				nReject++
			}

			steps = append(steps, st)
		case "exec":
			x := op.I % len(insts)
			raw := "acc{" + c17Accessors(insts[x].kind, insts[x].m) + "} " + c17Exec(insts[x].kind, insts[x].m, c.Variant)
			st := c17Step{Op: fmt.Sprintf("exec %d", x), Beh: rn.sid(raw)}

			if strings.HasPrefix(raw, "PANIC") {
				st.Note = raw
			}

			chg := observe(&st, len(insts))
			opsCoq = append(opsCoq, fmt.Sprintf("(XExec %d, os None %s (Some %d%%Z))", x, chg, st.Beh))
			steps = append(steps, st)
			nExec++
		case "cross":
			// A then B on ONE shared, real cache; B's outcome must be what B does alone
			x, y := op.I%len(insts), op.Src%len(insts)

			if c17GetWithBodyCached(c.Cat[insts[y].origin].Conf) {
				// an endpoint called with GET *and* a request body *and* http_cache enabled: the HTTP cache keys a
				// response by method + URL (RFC 7234 §2), so two rules that differ only in the rendered body share
				// it.  Outside HTTP semantics (a GET body has none); not counted against C17, see docs/notes/C17.md.
				skippedCross++

				continue
			}
			shared := &c17Cache{keep: map[string][]byte{}}
			c17ExecWith(insts[x].kind, insts[x].m, c.Variant, shared)
			raw := "acc{" + c17Accessors(insts[y].kind, insts[y].m) + "} " + c17ExecWith(insts[y].kind, insts[y].m, c.Variant, shared)
			st := c17Step{Op: fmt.Sprintf("cross %d %d", x, y), Beh: rn.sid("out:" + c17Outcome(raw))}

			if strings.HasPrefix(raw, "PANIC") {
				st.Note = raw
			}

			chg := observe(&st, len(insts))
			opsCoq = append(opsCoq, fmt.Sprintf("(XCross %d %d, os None %s (Some %d%%Z))", x, y, chg, st.Beh))
			steps = append(steps, st)
			nCross++
		case "call":
			x := op.I % len(insts)
			st := c17Step{Op: fmt.Sprintf("call %d", x), Acc: c17Accessors(insts[x].kind, insts[x].m)}
			chg := observe(&st, len(insts))
			opsCoq = append(opsCoq, fmt.Sprintf("(XCall %d, os None %s None)", x, chg))
			steps = append(steps, st)
		}
	}

	// behaviour table: view -> digest, from every minimal history used
	for i := range c.Cat {
		rn.ref(i, nil)
	}

	for _, in := range insts {
		rn.ref(in.origin, in.chain)
	}

	keys := make([]string, 0, len(rn.used))
	for k := range rn.used {
		keys = append(keys, k)
	}

	sort.Strings(keys)

	var beh []string

	for _, k := range keys {
		if s := rn.used[k]; s.ok {
			beh = append(beh, fmt.Sprintf("(%s, (%d%%Z, %d%%Z))", c17Ints(s.view), s.digest, s.out))
		}
	}

	coq = fmt.Sprintf("(cs [%s] [%s] [%s])", strings.Join(catCoq, "; "), strings.Join(beh, "; "), strings.Join(opsCoq, "; "))

	tags = append(tags, fmt.Sprintf("variants:%d", nWith), fmt.Sprintf("rejected:%d", nReject),
		fmt.Sprintf("execs:%d", min(nExec, 6)), fmt.Sprintf("request:%d", c.Variant), fmt.Sprintf("cross-cache:%d", min(nCross, 3)))
	if rn.soloRefs > 0 {
		tags = append(tags, "reference:minimal-history")
	}

	if skippedCross > 0 {
		tags = append(tags, "cross-cache-skipped:GET-with-body+http_cache")
	}

	for _, s := range rn.solos {
		if s.ok && s.merged {
			tags = append(tags, "reference:merged-catalogue")

			break
		}
	}

	if nChanged > 0 {
		tags = append(tags, "instance-changed")
	}

	okExec, failExec := false, false

	for raw := range rn.istr {
		if strings.Contains(raw, "} err=ok") || strings.HasPrefix(raw, "out:") {
			okExec = true
		} else {
			failExec = true
		}
	}

	if okExec {
		tags = append(tags, "exec:some-succeed")
	}

	if failExec {
		tags = append(tags, "exec:some-fail")
	}

	tags = append(tags, fmt.Sprintf("behaviours:%d", min(len(rn.istr), 5)))

	for _, in := range insts {
		if len(in.chain) >= 2 {
			tags = append(tags, "variant-of-variant")

			break
		}
	}

	if rn.unstable {
		tags = append(tags, "reference-unstable")
	}

	obs = map[string]any{"steps": steps, "instances": len(insts), "hashed_nodes": rn.nodes, "reference_unstable": rn.unstable}

	if vf.Only() >= 0 {
		// replay of a single case: show the behaviour strings behind the digests
		raw := map[string]string{}
		for s, n := range rn.istr {
			raw[strconv.Itoa(n)] = s
		}

		obs["behaviours"] = raw
	}

	// non-trivial: at least one accepted variant whose view differs from its source, and at least one
	// execution after a variant was created
	return obs, coq, tags, nWith >= 1 && nExec >= 1
}

func c17NewRunner(c c17Case) *c17Runner {
	return &c17Runner{c: c, intern: map[uint64]int{}, istr: map[string]int{}, solos: map[string]*c17Solo{}}
}

// ---------------------------------------------------------------- corpus

// one fixed case per mechanism type (every type is covered by every run, whatever the seed)
func c17Corpus() []c17Case {
	var out []c17Case

	for i := range c17Specs {
		s := &c17Specs[i]
		if !c17Wanted(s) {
			continue
		}

		r := vf.NewRand(uint64(7000 + i))
		c := c17Case{Cat: []c17Proto{{s.kind, s.typ, s.goType, s.proto(r)}}, Variant: s.variants[0], Group: "corpus/" + s.goType}
		o1, o2 := s.ovr(r), s.ovr(r)
		c.Ops = []c17Op{
			{Op: "exec", I: 0}, {Op: "with", Src: 0, Ovr: o1}, {Op: "exec", I: 0}, {Op: "exec", I: 1}, {Op: "call", I: 0},
			{Op: "with", Src: 0, Ovr: o2}, {Op: "exec", I: 2}, {Op: "exec", I: 1}, {Op: "exec", I: 0}, {Op: "with", Src: 0, Ovr: map[string]any{}},
			{Op: "exec", I: 3}, {Op: "call", I: 1}, {Op: "cross", I: 1, Src: 2}, {Op: "cross", I: 2, Src: 0}, {Op: "cross", I: 0, Src: 1},
		}
		out = append(out, c)
	}

	// the witness of the repaired finding C17-F1: prototype with a metadata endpoint without headers / method /
	// http_cache, executed before and after a variant is created
	for _, typ := range []string{"jwt", "oauth2_introspection"} {
		s := c17SpecOf("authenticator", typ)
		if !c17Wanted(s) {
			continue
		}

		out = append(out, c17Case{
			Cat: []c17Proto{{s.kind, s.typ, s.goType, map[string]any{
				"metadata_endpoint": map[string]any{"url": "http://idp.test/.well-known/oauth-authorization-server"}}}},
			Variant: s.variants[0], Group: "corpus/C17-F1/" + typ,
			Ops: []c17Op{{Op: "with", Src: 0, Ovr: map[string]any{"cache_ttl": "5s"}}, {Op: "exec", I: 0}, {Op: "exec", I: 1},
				{Op: "with", Src: 0, Ovr: map[string]any{"cache_ttl": "7s"}}, {Op: "exec", I: 2}, {Op: "exec", I: 0}},
		})
	}

	return out
}

// ---------------------------------------------------------------- stream 1

func TestVerifC17(t *testing.T) {
	c17Setup(t.TempDir())

	w := vf.NewWriter()
	defer w.Close()

	root := vf.NewRand(vf.Seed())
	n := vf.N(600)
	corpus := c17Corpus()
	idx := 0

	put := func(c c17Case, stream string) {
		defer func() { idx++ }()

		if !vf.Want(idx) {
			return
		}

		rn := c17NewRunner(c)
		obs, coq, tags, nt := rn.run()

		if coq == "" {
			t.Errorf("case %d (%s): catalogue rejected: %v", idx, c.Group, obs)

			return
		}

		w.Put(vf.Obs{I: idx, Stream: stream, In: c, Out: obs, Coq: coq, Nontrivial: nt, Tags: tags})
	}

	if os.Getenv("VERIF_C17_PROFILE") != "" {
		c17Profile = map[string]int{}

		defer func() {
			type kv struct {
				k string
				v int
			}

			var l []kv
			for k, v := range c17Profile {
				l = append(l, kv{k, v})
			}

			sort.Slice(l, func(i, j int) bool { return l[i].v > l[j].v })

			for i := 0; i < len(l) && i < 40; i++ {
				fmt.Printf("PROFILE %8d %s\n", l[i].v, l[i].k)
			}
		}()
	}

	for _, c := range corpus {
		put(c, "corpus")
	}

	for i := 0; idx < n; i++ {
		put(c17GenCase(root, i), "generated")
	}
}

// ---------------------------------------------------------------- stream 2: race detector

type c17RaceObs struct {
	note string
	Races   int      `json:"races"`
	Crashed string   `json:"crashed,omitempty"`
	Changed int      `json:"changed"`
	Where   []string `json:"where,omitempty"`
}

const c17Goroutines = 16

// c17RaceCase: create the variants, then 16 goroutines execute prototype(s) and variants while
// further variants are created concurrently; finally every instance is hashed again.
func c17RaceRun(c c17Case) (changed int, note string) {
	f, err := c17Factory(c.Cat)
	if err != nil {
		return 0, "catalogue rejected: " + err.Error()
	}

	wt := c17LastWatcher

	var insts []*c17Inst

	for i, p := range c.Cat {
		pm, err := c17Create(f, p.Kind, fmt.Sprintf("p%d", i), nil)
		if err != nil {
			return 0, "catalogue rejected"
		}

		insts = append(insts, &c17Inst{kind: p.Kind, m: pm, origin: i})

		tn, _, _, _ := c17Fields(pm)
		note += "types=" + tn + ";"
	}

	var late []c17Op

	for k, op := range c.Ops {
		if op.Op != "with" || op.Src >= len(c.Cat) {
			continue
		}

		if k%2 == 1 {
			late = append(late, op)

			continue
		}

		if nm, err := c17Create(f, insts[op.Src].kind, fmt.Sprintf("p%d", op.Src), op.Ovr); err == nil && nm != nil {
			insts = append(insts, &c17Inst{kind: insts[op.Src].kind, m: nm, origin: op.Src})
		}
	}

	before := make([]string, len(insts))
	for i, in := range insts {
		_, _, hs, _ := c17Fields(in.m)
		before[i] = c17U64s(hs)
	}

	// half of the cases share a real cache between the goroutines (cache-hit paths), half always miss
	var shared *c17Cache
	if len(c.Ops)%2 == 0 {
		shared = &c17Cache{keep: map[string][]byte{}}
	}

	var wg sync.WaitGroup

	start := make(chan struct{})

	for g := 0; g < c17Goroutines; g++ {
		wg.Add(1)

		go func(g int) {
			defer wg.Done()
			<-start

			for it := 0; it < 3; it++ {
				in := insts[(g+it)%len(insts)]

				switch {
				case g < 2 && it == 1 && wt != nil:
					// secrets reload (key store of a signer) while requests are being served
					wt.fire()
					c17ExecWith(in.kind, in.m, c.Variant, shared)
				case g >= c17Goroutines-2 && len(late) > 0:
					op := late[(g+it)%len(late)]
					if nm, err := c17Create(f, insts[op.Src].kind, fmt.Sprintf("p%d", op.Src), op.Ovr); err == nil && nm != nil {
						c17ExecWith(insts[op.Src].kind, nm, c.Variant, shared)
					}
				case g%5 == 4:
					c17Accessors(in.kind, in.m)
					c17ExecWith(in.kind, in.m, c.Variant, shared)
				default:
					c17ExecWith(in.kind, in.m, c.Variant, shared)
				}
			}
		}(g)
	}

	close(start)
	wg.Wait()

	for i, in := range insts {
		_, _, hs, _ := c17Fields(in.m)
		if c17U64s(hs) != before[i] {
			changed++
		}
	}

	return changed, ""
}

func c17RaceCases(n int) []c17Case {
	root := vf.NewRand(vf.Seed() + 977)
	out := c17Corpus()

	for i := 0; len(out) < n; i++ {
		// first case of every content group (one creation order is enough here: the schedule is what varies)
		_, _, slot := c17Locate(root, i)
		if slot != 0 {
			continue
		}

		out = append(out, c17GenCase(root, i))
	}

	return out[:n]
}

// c17RaceWhere extracts, from race-detector output, the top frames of the conflicting accesses.
func c17RaceWhere(report string) []string {
	var out []string

	lines := strings.Split(report, "\n")
	for i, l := range lines {
		l = strings.TrimSpace(l)
		if (strings.HasPrefix(l, "Write at") || strings.HasPrefix(l, "Previous write at") || strings.HasPrefix(l, "Read at") ||
			strings.HasPrefix(l, "Previous read at") || strings.HasPrefix(l, "fatal error:")) && len(out) < 8 {
			w := l
			if j := strings.Index(w, " at 0x"); j > 0 {
				w = w[:j]
			}

			// first frame inside heimdall (function line followed by "      <file>:<line> +0x..")
			for k := i + 1; k+1 < len(lines) && k < i+60; k++ {
				fn := strings.TrimSpace(lines[k])
				if fn == "" {
					break
				}

				loc := strings.TrimSpace(lines[k+1])
				if strings.Contains(fn, "github.com/dadrus/heimdall/") && strings.Contains(loc, ".go:") &&
					!strings.Contains(loc, "zz_verif") && !strings.Contains(loc, "zzverif") {
					if p := strings.Index(loc, " +0x"); p >= 0 {
						loc = loc[:p]
					}

					if p := strings.LastIndex(loc, "/internal/"); p >= 0 {
						loc = loc[p+1:]
					}

					fn = strings.TrimPrefix(fn, "github.com/dadrus/heimdall/internal/")
					w += " in " + fn + " " + loc

					break
				}
			}

			out = append(out, w)
		}
	}

	return out
}

// c17RaceStall: how long the race child may stay silent before it is considered stuck
const c17RaceStall = 90 * time.Second

func TestVerifC17Race(t *testing.T) {
	n := vf.N(60)

	if os.Getenv("VERIF_C17_CHILD") != "" {
		// child: run cases [from, n), print one line per finished case
		c17Setup(t.TempDir())

		from, _ := strconv.Atoi(os.Getenv("VERIF_C17_CHILD"))
		cases := c17RaceCases(n)
		out := os.NewFile(3, "results")

		for i := from; i < n; i++ {
			if !vf.Want(i) {
				continue
			}

			fmt.Fprintf(out, "BEGIN %d\n", i)

			changed, note := c17RaceRun(cases[i])
			fmt.Fprintf(out, "END %d %d %s\n", i, changed, strings.ReplaceAll(note, "\n", " "))
		}

		return
	}

	c17Setup(t.TempDir())

	w := vf.NewWriter()
	defer w.Close()

	cases := c17RaceCases(n)
	dir := t.TempDir()
	res := map[int]*c17RaceObs{}
	attempts, notRepro := map[int]int{}, map[int]string{}

	for from := 0; from < n; {
		logBase := filepath.Join(dir, fmt.Sprintf("race_%d", from))
		cmd := exec.Command(os.Args[0], "-test.run", "^TestVerifC17Race$", "-test.count=1")
		cmd.Env = append(os.Environ(), fmt.Sprintf("VERIF_C17_CHILD=%d", from), "VERIF_OUT=/dev/null",
			"GORACE=halt_on_error=0 log_path="+logBase)

		pr, pw, _ := os.Pipe()
		cmd.ExtraFiles = []*os.File{pw}

		var stderr strings.Builder

		cmd.Stderr = &stderr
		cmd.Stdout = &stderr

		if err := cmd.Start(); err != nil {
			t.Fatal(err)
		}

		pw.Close()

		// watchdog: a case normally takes milliseconds.  A child that reports nothing for c17RaceStall is stuck inside the
		// case (seen with seeded/C17-9: an atomic.Value copied by WithConfig while its first Store is in progress keeps
		// the "store in progress" marker for ever and every later Load/Store on the copy spins); it gets SIGQUIT (stacks
		// into stderr), then SIGKILL, and the case is reported as Crashed ("no progress").
		var hung atomic.Bool

		watchdog := time.AfterFunc(c17RaceStall, func() {
			hung.Store(true)
			_ = cmd.Process.Signal(syscall.SIGQUIT)
			time.AfterFunc(5*time.Second, func() { _ = cmd.Process.Kill() })
		})

		cur, last := -1, from-1
		sc := bufio.NewScanner(pr)
		readLog := func() string {
			ms, _ := filepath.Glob(logBase + ".*")

			var sb strings.Builder

			for _, mf := range ms {
				b, _ := os.ReadFile(mf)
				sb.Write(b)
			}

			return sb.String()
		}
		seen := 0

		for sc.Scan() {
			watchdog.Reset(c17RaceStall)

			fs := strings.SplitN(sc.Text(), " ", 4)

			switch fs[0] {
			case "BEGIN":
				cur, _ = strconv.Atoi(fs[1])
			case "END":
				i, _ := strconv.Atoi(fs[1])
				ch, _ := strconv.Atoi(fs[2])
				lg := readLog()
				nw := lg[seen:]
				seen = len(lg)
				res[i] = &c17RaceObs{Races: strings.Count(nw, "WARNING: DATA RACE"), Changed: ch, Where: c17RaceWhere(nw)}
				if len(fs) > 3 {
					res[i].note = fs[3]
				}
				last, cur = i, -1
			}
		}

		err := cmd.Wait()
		watchdog.Stop()
		pr.Close()

		if cur >= 0 {
			// the child died inside case cur
			lg := readLog()
			txt := lg[seen:] + "\n" + stderr.String()
			first := "crashed"

			for _, l := range strings.Split(stderr.String(), "\n") {
				if strings.HasPrefix(l, "fatal error:") || strings.HasPrefix(l, "panic:") {
					first = l

					break
				}
			}

			if hung.Load() {
				first = fmt.Sprintf("no progress for %s inside the case (livelock / deadlock); child killed", c17RaceStall)

				for _, l := range strings.Split(stderr.String(), "\n") {
					if strings.Contains(l, "sync/atomic.(*Value)") || strings.Contains(l, "heimdall/internal/rules") {
						first += "; " + strings.TrimSpace(l)

						break
					}
				}
			}

			o := &c17RaceObs{Races: strings.Count(txt, "WARNING: DATA RACE"), Crashed: first, Where: c17RaceWhere(txt)}

			// a runtime crash that is neither a detected race nor a concurrent map access (e.g. "found bad pointer in Go
			// heap", seen once in ~40 runs on the unchanged tree, inside a dependency using unsafe) is reported only if
			// it happens again when the case is repeated in a fresh process
			if o.Races == 0 && !strings.Contains(first, "concurrent map") && !hung.Load() {
				attempts[cur]++
				if attempts[cur] < 3 {
					notRepro[cur] = first
					from = cur

					continue
				}
			}

			res[cur] = o
			from = cur + 1

			continue
		}

		_ = err
		_ = last

		break
	}

	for i := 0; i < n; i++ {
		if !vf.Want(i) {
			continue
		}

		o := res[i]
		if o == nil {
			o = &c17RaceObs{Crashed: "no result"}
		}

		c := cases[i]
		tags := []string{"type:" + c.Cat[0].GoType, fmt.Sprintf("catalogue:%d", len(c.Cat))}

		if msg, ok := notRepro[i]; ok && o.Crashed == "" {
			tags = append(tags, "crash-not-reproduced")
			o.Where = append(o.Where, "not reproduced on repetition: "+msg)
		}

		verdict := "RaceFree"

		switch {
		case o.Crashed != "":
			verdict = "Crashed"
			tags = append(tags, "crashed")
		case o.Races > 0:
			verdict = "Raced"
			tags = append(tags, "race-reported")
		case o.Changed > 0:
			verdict = "Changed"
			tags = append(tags, "instance-changed")
		}

		var types []string

		for _, part := range strings.Split(o.note, ";") {
			if tn, ok := strings.CutPrefix(part, "types="); ok {
				types = append(types, vf.CoqStr(tn)) // Go type by reflection, as the child saw it
			}
		}

		if len(types) == 0 {
			for _, p := range c.Cat {
				types = append(types, vf.CoqStr(p.GoType))
			}
		}

		w.Put(vf.Obs{I: i, Stream: "race", In: c, Out: o, Nontrivial: true, Tags: tags,
			Coq: fmt.Sprintf("(rc [%s] %s)", strings.Join(types, "; "), verdict)})
	}
}
