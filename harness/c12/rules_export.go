//go:build verif

package rules

// Verification shim of the C12 driver (injected with `go test -overlay`; not part of
// /repo): builds a REAL ruleImpl whose only authenticator fails with a given error
// and whose error_handler list is a real compositeErrorHandler of real
// conditionalErrorHandlers (no `if`: defaultExecutionCondition; otherwise a real
// compiled CEL condition).

import (
	"github.com/dadrus/heimdall/internal/heimdall"
	"github.com/dadrus/heimdall/internal/rules/mechanisms/subject"
	"github.com/dadrus/heimdall/internal/rules/rule"
)

// VerifHandler is one entry of a rule's error_handler list.
type VerifHandler struct {
	Handler interface {
		ID() string
		Execute(ctx heimdall.Context, causeErr error) error
	}
	If string // CEL expression of the `if` clause; "" = none
}

type verifFailingAuthenticator struct{ err error }

func (a verifFailingAuthenticator) Execute(heimdall.Context) (*subject.Subject, error) { return nil, a.err }
func (a verifFailingAuthenticator) IsFallbackOnErrorAllowed() bool                     { return false }

// VerifFailingRule returns a rule whose pipeline fails with cause.
func VerifFailingRule(cause error, handlers []VerifHandler) (rule.Rule, error) {
	eh := compositeErrorHandler{}

	for _, h := range handlers {
		var cond executionCondition = defaultExecutionCondition{}

		if h.If != "" {
			c, err := newCelExecutionCondition(h.If)
			if err != nil {
				return nil, err
			}

			cond = c
		}

		eh = append(eh, &conditionalErrorHandler{h: h.Handler, c: cond})
	}

	return &ruleImpl{
		id:    "verif-c12",
		srcID: "verif",
		sc:    compositeSubjectCreator{verifFailingAuthenticator{err: cause}},
		eh:    eh,
	}, nil
}
