//go:build verif

package c12

// C12 driver.  Every case = (respond configuration + where it comes from, a request, an
// error tree, a scenario).  The error tree is turned into a real Go error value (real
// errorchain.ErrorChain, fmt.Errorf %w, errors.Join, *heimdall.RedirectError, a real
// *cellib.EvalError, foreign and standard-library errors) and
//   - errors.Is for every target the translators use, and errors.As(&redirectError),
//   - the real HTTP translator (errorhandler.New(...).HandleError on an httptest recorder),
//   - the real gRPC translator (errorhandler.New(...) interceptor),
//   - the complete real decision, proxy and Envoy gRPC service stacks (recovery
//     middleware, service handler, request contexts, Finalize) around an executor that
//     returns the error / runs a REAL rule (ruleImpl with a real compositeErrorHandler of
//     conditional handlers around REAL default / redirect / www_authenticate mechanisms
//     after WithConfig) whose authenticator fails with it / panics / succeeds with an
//     upstream that cannot be reached (proxy only)
// are observed.  The respond configuration is either put into the config struct or written
// to a configuration file (documented names) and loaded by the real loader.

import (
	"bytes"
	"context"
	"encoding/xml"
	"errors"
	"fmt"
	"io"
	"net"
	"net/http"
	"net/http/httptest"
	"net/url"
	"os"
	"path/filepath"
	"sort"
	"strings"
	"syscall"
	"testing"
	"time"

	"github.com/elnormous/contenttype"
	envoy_core "github.com/envoyproxy/go-control-plane/envoy/config/core/v3"
	envoy_auth "github.com/envoyproxy/go-control-plane/envoy/service/auth/v3"
	"github.com/goccy/go-json"
	"github.com/google/cel-go/cel"
	"github.com/iancoleman/strcase"
	"github.com/rs/zerolog"
	"google.golang.org/grpc"
	"google.golang.org/grpc/codes"
	"google.golang.org/grpc/credentials/insecure"
	"google.golang.org/grpc/status"
	"google.golang.org/grpc/test/bufconn"

	"github.com/dadrus/heimdall/internal/cache"
	"github.com/dadrus/heimdall/internal/cache/memory"
	"github.com/dadrus/heimdall/internal/config"
	"github.com/dadrus/heimdall/internal/handler/decision"
	"github.com/dadrus/heimdall/internal/handler/envoyextauth/grpcv3"
	gerr "github.com/dadrus/heimdall/internal/handler/middleware/grpc/errorhandler"
	herr "github.com/dadrus/heimdall/internal/handler/middleware/http/errorhandler"
	"github.com/dadrus/heimdall/internal/handler/proxy"
	"github.com/dadrus/heimdall/internal/heimdall"
	"github.com/dadrus/heimdall/internal/rules"
	"github.com/dadrus/heimdall/internal/rules/mechanisms/cellib"
	"github.com/dadrus/heimdall/internal/rules/mechanisms/errorhandlers"
	"github.com/dadrus/heimdall/internal/rules/rule"
	"github.com/dadrus/heimdall/internal/x/errorchain"
	"github.com/dadrus/heimdall/internal/zzverif/vf"
)

// ---- error trees ------------------------------------------------------------------

type node struct {
	K    string `json:"k"`              // s r e f w j c
	Kind string `json:"kind,omitempty"` // sentinel kind
	N    int    `json:"n,omitempty"`    // foreign flavour+id / other sentinel id / wrap+join flavour
	Code int    `json:"code,omitempty"`
	To   string `json:"to,omitempty"`
	Ctx  int    `json:"ctx,omitempty"` // error chain context: 0 none, 1 *RedirectError, 2 string, 3 status carrier, 4 struct with StatusCode
	Sub  []node `json:"sub,omitempty"`
}

var sentinels = map[string]error{ //nolint:gochecknoglobals
	"authn": heimdall.ErrAuthentication, "authz": heimdall.ErrAuthorization, "comm": heimdall.ErrCommunication,
	"timeout": heimdall.ErrCommunicationTimeout, "arg": heimdall.ErrArgument, "conf": heimdall.ErrConfiguration,
	"int": heimdall.ErrInternal, "norule": heimdall.ErrNoRuleFound,
}

var sentinelNames = []string{"authn", "authz", "comm", "timeout", "arg", "conf", "int", "norule"} //nolint:gochecknoglobals

var otherSentinels = []error{errors.New("other 0"), errors.New("other 1"), errors.New("")} //nolint:gochecknoglobals

// foreign leaf types
type foreignVal struct{ N int }

func (f foreignVal) Error() string { return fmt.Sprintf("foreign value %d", f.N) }

type foreignMap struct{ M map[string]int } // encoding/xml cannot marshal it

func (f *foreignMap) Error() string { return "foreign map" }

type foreignSilent struct{}

func (*foreignSilent) Error() string { return "" }

// a foreign error that looks like it knows its own HTTP status, is "temporary", a "timeout",
// and has Is/As methods of its own family (none of heimdall's kinds)
type statusCarrier struct{ Code int }

func (s *statusCarrier) Error() string   { return fmt.Sprintf("status carrier %d", s.Code) }
func (s *statusCarrier) HTTPStatus() int { return s.Code }
func (s *statusCarrier) StatusCode() int { return s.Code }
func (s *statusCarrier) Timeout() bool   { return true }
func (s *statusCarrier) Temporary() bool { return true }
func (s *statusCarrier) Is(target error) bool {
	_, ok := target.(*statusCarrier)

	return ok
}

type foreignCoded struct {
	Code       int
	StatusCode int
	Status     string
}

func (f *foreignCoded) Error() string { return "foreign coded " + f.Status }

// foreign wrappers
type customWrap struct{ inner error }

func (w *customWrap) Error() string { return "custom: " + w.inner.Error() }
func (w *customWrap) Unwrap() error { return w.inner }

type customMulti struct{ inner []error }

func (w *customMulti) Error() string   { return fmt.Sprintf("multi(%d)", len(w.inner)) }
func (w *customMulti) Unwrap() []error { return w.inner }

var evalErr error //nolint:gochecknoglobals

func realEvalError() error {
	if evalErr == nil {
		env, err := cel.NewEnv(cellib.Library())
		if err != nil {
			panic(err)
		}

		expr, err := cellib.CompileExpression(env, "1 == 2", "expression is false")
		if err != nil {
			panic(err)
		}

		evalErr = expr.Eval(map[string]any{})
		if evalErr == nil {
			panic("no EvalError")
		}
	}

	return evalErr
}

const foreignFlavours = 12

func foreignLeaf(n int) error {
	switch n % foreignFlavours {
	case 0:
		return fmt.Errorf("foreign %d", n) //nolint:goerr113
	case 1:
		return foreignVal{n}
	case 2:
		return &foreignMap{M: map[string]int{"a": 1}}
	case 3:
		return &foreignSilent{}
	case 4:
		return context.Canceled
	case 5:
		return context.DeadlineExceeded
	case 6:
		return io.EOF
	case 7:
		return syscall.ENOENT
	case 8:
		return &url.Error{Op: "Get", URL: "http://upstream.local/x", Err: context.DeadlineExceeded}
	case 9:
		return &net.OpError{Op: "dial", Net: "tcp", Err: errors.New("connection refused")} //nolint:goerr113
	case 10:
		return &statusCarrier{Code: []int{204, 200, 302, 401}[(n/foreignFlavours)%4]}
	default:
		return &foreignCoded{Code: 200, StatusCode: 204, Status: "200 OK"}
	}
}

func build(n node) error {
	switch n.K {
	case "s":
		if n.Kind == "other" {
			return otherSentinels[n.N%len(otherSentinels)]
		}

		return sentinels[n.Kind]
	case "r":
		return &heimdall.RedirectError{Message: "redirect", Code: n.Code, RedirectTo: n.To}
	case "e":
		return realEvalError()
	case "f":
		return foreignLeaf(n.N)
	case "w":
		inner := build(n.Sub[0])
		if n.N%2 == 0 {
			return fmt.Errorf("wrapped: %w", inner)
		}

		return &customWrap{inner}
	case "j":
		subs := make([]error, len(n.Sub))
		for i, s := range n.Sub {
			subs[i] = build(s)
		}

		switch {
		case len(subs) == 0 || n.N%3 == 2:
			return &customMulti{subs}
		case len(subs) == 2 && n.N%3 == 1:
			return fmt.Errorf("both: %w and %w", subs[0], subs[1])
		default:
			return errors.Join(subs...)
		}
	case "c":
		if len(n.Sub) == 0 {
			return &errorchain.ErrorChain{}
		}

		var ec *errorchain.ErrorChain

		for i, s := range n.Sub {
			switch {
			case i == 0 && n.N%2 == 0:
				ec = errorchain.NewWithMessage(build(s), "something failed")
			case i == 0:
				ec = errorchain.New(build(s))
			default:
				ec = ec.CausedBy(build(s))
			}
		}

		switch n.Ctx {
		case 1:
			// adversarial context: a RedirectError must NOT be found through the context
			ec = ec.WithErrorContext(&heimdall.RedirectError{Message: "ctx", Code: 204, RedirectTo: "http://context"})
		case 2:
			ec = ec.WithErrorContext("some context")
		case 3:
			ec = ec.WithErrorContext(&statusCarrier{Code: 200})
		case 4:
			ec = ec.WithErrorContext(struct{ StatusCode int }{StatusCode: 200})
		}

		return ec
	}

	panic("bad node " + n.K)
}

func coqErr(n node) string {
	switch n.K {
	case "s":
		if n.Kind == "other" {
			return vf.CoqApp("sOther", vf.CoqNat(n.N%len(otherSentinels)))
		}

		return map[string]string{
			"authn": "sAuthn", "authz": "sAuthz", "comm": "sComm", "timeout": "sTimeout", "arg": "sArg",
			"conf": "sConf", "int": "sInt", "norule": "sNoRule",
		}[n.Kind]
	case "r":
		return vf.CoqApp("Redirect", vf.CoqZ(int64(n.Code)), vf.CoqStr(n.To))
	case "e":
		return "EvalErr"
	case "f":
		return vf.CoqApp("Foreign", vf.CoqNat(n.N))
	case "w":
		return vf.CoqApp("WrapW", coqErr(n.Sub[0]))
	case "j":
		return vf.CoqApp("JoinW", vf.CoqListOf(n.Sub, coqErr))
	case "c":
		return vf.CoqApp("Chain", vf.CoqListOf(n.Sub, coqErr), vf.CoqBool(n.Ctx != 0))
	}

	panic("bad node")
}

func hasEmptyChain(n node) bool {
	if n.K == "c" && len(n.Sub) == 0 {
		return true
	}

	for _, s := range n.Sub {
		if hasEmptyChain(s) {
			return true
		}
	}

	return false
}

func depth(n node) int {
	d := 0
	for _, s := range n.Sub {
		if x := depth(s); x > d {
			d = x
		}
	}

	return d + 1
}

func kindsIn(n node, acc map[string]bool) {
	switch n.K {
	case "s":
		acc[n.Kind] = true
	case "r":
		acc["redirect"] = true
	case "e":
		acc["eval"] = true
	case "f":
		if f := n.N % foreignFlavours; f >= 4 && f <= 9 {
			acc["stdlib"] = true
		} else {
			acc["foreign"] = true
		}
	}

	for _, s := range n.Sub {
		kindsIn(s, acc)
	}
}

// texts of the failure ("error details"): messages of the leaves, of the chains, contexts
func detailTokens(n node, acc map[string]bool) {
	add := func(s string) {
		if len(s) >= 5 && s != heimdall.ErrInternal.Error() {
			acc[s] = true
			acc[strcase.ToLowerCamel(s)] = true
		}
	}

	switch n.K {
	case "s", "r", "e", "f":
		add(build(n).Error())
	case "c":
		if len(n.Sub) != 0 && n.N%2 == 0 {
			add("something failed")
		}

		switch n.Ctx {
		case 1:
			add("http://context")
		case 2:
			add("some context")
		case 3:
			add("status carrier 200")
		}
	}

	for _, s := range n.Sub {
		detailTokens(s, acc)
	}
}

// texts heimdall itself attaches to failures on the paths driven here
var ownTokens = []string{ //nolint:gochecknoglobals
	"authentication error", "authorization error", "communication error", "communication timeout error", "argument error",
	"configuration error", "no rule found", "authenticationError", "authorizationError", "communicationError",
	"communicationTimeoutError", "argumentError", "configurationError", "noRuleFound",
	"runtime error occurred", "verif: stub panics", "failed to render", "No upstream reference defined",
	"Failed to proxy request", "can't evaluate field", "NoSuchField",
}

var redirectCodes = []int{301, 302, 302, 303, 307, 308, 302, 301} //nolint:gochecknoglobals

// codes a redirect error handler can be configured with since the loader validates them (300..399, boundaries included)
var handlerCodes = []int{301, 302, 303, 307, 308, 300, 399, 304} //nolint:gochecknoglobals

// codes tried against the real constructor (creation probe)
var probeCodes = []int{0, 299, 300, 301, 302, 399, 400, 200, 204, 100, 5, 99, -1, -302, 1000, 3020} //nolint:gochecknoglobals

var oddCodes = []int{200, 204, 299, 100, 103, 0, 5, 99, -1, 1000, 1200} //nolint:gochecknoglobals

func genLeaf(r *vf.Rand, odd bool) node {
	switch x := r.Intn(100); {
	case x < 52:
		return node{K: "s", Kind: vf.Pick(r, sentinelNames)}
	case x < 57:
		return node{K: "s", Kind: "other", N: r.Intn(3)}
	case x < 69:
		code := vf.Pick(r, redirectCodes)
		if odd && r.Chance(50) {
			code = vf.Pick(r, oddCodes)
		}

		return node{K: "r", Code: code, To: vf.Pick(r, []string{"http://a.example/login", "/relative?x=1", "", "https://b.example/\"q\""})}
	case x < 74:
		return node{K: "e"}
	default:
		return node{K: "f", N: r.Intn(2 * foreignFlavours)}
	}
}

func genTree(r *vf.Rand, d int, odd, allowEmpty bool) node {
	if d <= 1 || r.Chance(18) {
		return genLeaf(r, odd)
	}

	switch x := r.Intn(100); {
	case x < 25:
		return node{K: "w", N: r.Intn(2), Sub: []node{genTree(r, d-1, odd, allowEmpty)}}
	case x < 50:
		n := r.Range(1, 4)
		if r.Chance(5) {
			n = 0
		}

		subs := make([]node, n)
		for i := range subs {
			subs[i] = genTree(r, d-1, odd, allowEmpty)
		}

		return node{K: "j", N: r.Intn(3), Sub: subs}
	default:
		n := r.Range(1, 4)
		if allowEmpty && r.Chance(3) {
			n = 0
		}

		subs := make([]node, n)
		for i := range subs {
			subs[i] = genTree(r, d-1, odd, allowEmpty)
		}

		ctx := 0
		if r.Chance(28) {
			ctx = r.Range(1, 4)
		}

		return node{K: "c", N: r.Intn(2), Ctx: ctx, Sub: subs}
	}
}

// ---- cases ------------------------------------------------------------------------------

// respond mirrors `serve.<service>.respond` of heimdall's configuration.
type respond struct {
	Verbose  bool `json:"verbose"`
	Authn    int  `json:"authn"`
	Authz    int  `json:"authz"`
	Comm     int  `json:"comm"`
	Precond  int  `json:"precond"`
	NoRule   int  `json:"norule"`
	Internal int  `json:"internal"`
}

type reqDesc struct {
	Method string            `json:"method"`
	Path   string            `json:"path"`
	Accept []string          `json:"accept"` // one entry per Accept header line; nil = no Accept header
	Extra  map[string]string `json:"extra,omitempty"`
	Remote string            `json:"remote"`
	// state of the request context while the failure is handled: "" live | "cancelled" (before the request is
	// served: the client is gone) | "cancelled-during" (while the pipeline runs) | "deadline" (deadline exceeded)
	Ctx string `json:"context,omitempty"`
}

type mech struct {
	T     string `json:"t"` // default redirect www
	Code  int    `json:"code,omitempty"`
	To    string `json:"to,omitempty"`             // rendered target
	Fails bool   `json:"fails,omitempty"`          // the `to` template fails at render time
	Tmpl  bool   `json:"to_from_header,omitempty"` // `to` is {{ .Request.Header "X-Login-Url" }}; To = what it renders on this request
	Realm string `json:"realm,omitempty"`
	WC    string `json:"with_config,omitempty"` // rule level config: "" none | "empty" {} | "realm" {realm: WCRealm}
	WCR   string `json:"with_config_realm,omitempty"`
	If    string `json:"if,omitempty"` // CEL condition of the entry: "" none | "true" | "false"
}

type scenario struct {
	T        string `json:"t"`                   // fail panic proxy
	Hs       []mech `json:"handlers,omitempty"`  // the rule's error_handler list (fail); none = the executor itself returns the error
	PanicErr bool   `json:"panic_err,omitempty"` // panic value is the error (else a string)
	Proxy    string `json:"proxy,omitempty"`     // noupstream reset timeout
}

type c12Case struct {
	R     respond  `json:"respond"`
	File  bool     `json:"from_config_file"` // the respond settings go through a configuration file and the real loader
	Req   reqDesc  `json:"request"`
	E     node     `json:"err"`
	Sc    scenario `json:"scenario"`
	Probe int      `json:"probe_code"` // redirect handler code tried against the real constructor
}

var accepts = []string{ //nolint:gochecknoglobals
	"", "*/*", "text/*", "application/*", "application/json", "application/xml", "text/html", "text/plain",
	"image/png", "garbage;;", "text/plain;q=0.1, application/xml;q=0.9", "text/plain, application/json",
	"application/json;q=0.5, text/html;q=0.5", "*/*;q=0.1, text/plain", "TEXT/HTML", "application/xml;q=0",
	"application/xml, */*;q=0.2", "text/html;level=1", "application/json ; q=0.3 , text/plain;q=0.4",
	"application/xml;q=0.2, application/json;q=0.2, text/plain;q=0.7, text/html;q=0.1", "image/png, text/plain;q=0.01",
}

// a second Accept line only ever adds acceptable ranges
var secondAccepts = []string{"application/json", "text/plain;q=0.5", "*/*;q=0.1", "application/xml;q=0.9"} //nolint:gochecknoglobals

var (
	methods = []string{http.MethodGet, http.MethodGet, http.MethodGet, http.MethodGet, http.MethodPost, http.MethodPost, //nolint:gochecknoglobals
		http.MethodHead, http.MethodOptions, http.MethodOptions, http.MethodPut, http.MethodDelete, http.MethodPatch, "PROPFIND"}
	paths   = []string{"/verif", "/", "/a/b?x=1", "/api/v1/items/17", "/%2Fenc", "/verif/", "/admin", "/healthz"} //nolint:gochecknoglobals
	remotes = []string{"192.0.2.1:1234", "127.0.0.1:5555", "[::1]:80", "10.1.2.3:40000"}                          //nolint:gochecknoglobals
	extras  = [][2]string{ //nolint:gochecknoglobals
		{"X-Forwarded-For", "127.0.0.1"}, {"Origin", "https://app.example"}, {"Authorization", "Bearer abc"},
		{"X-Requested-With", "XMLHttpRequest"}, {"Content-Type", "application/json"}, {"Access-Control-Request-Method", "POST"},
		{"X-Debug", "1"}, {"User-Agent", "curl/8"}, {"Accept-Language", "de"}, {"X-Forwarded-Proto", "https"},
	}
)

func genCode(r *vf.Rand, odd bool) int {
	switch x := r.Intn(100); {
	case x < 60:
		return 0
	case x < 90 || !odd:
		return vf.Pick(r, []int{400, 401, 403, 404, 418, 470, 500, 502, 503, 599, 300, 399, 600, 999})
	case x < 95:
		return vf.Pick(r, []int{200, 204, 299, 100, 103, 199})
	default:
		return vf.Pick(r, []int{-1, -401, 1, 50, 99, 1000, 4010, 70000})
	}
}

func genMech(r *vf.Rand, rq *reqDesc) mech {
	m := mech{}

	switch y := r.Intn(100); {
	case y < 25:
		m.T = "default"
		if r.Chance(20) {
			m.WC = "empty"
		}
	case y < 62:
		m.T = "redirect"
		m.To = vf.Pick(r, []string{"http://idp.example/login", "https://x.example/a?b=c", "/local"})
		m.Fails = r.Chance(14)

		// request dependent target that renders nothing / blanks / a URL (the header is chosen with the request)
		if !m.Fails && r.Chance(35) {
			m.Tmpl = true
			m.To = rq.Extra["X-Login-Url"]
		}

		if r.Chance(60) {
			m.Code = vf.Pick(r, handlerCodes)
		}

		if r.Chance(15) {
			m.WC = "empty"
		}
	default:
		m.T = "www"
		m.Realm = vf.Pick(r, []string{"", "myrealm", "two words", "q\"uote", "x"})

		switch z := r.Intn(100); {
		case z < 50:
		case z < 62:
			m.WC = "empty"
		default:
			m.WC, m.WCR = "realm", vf.Pick(r, []string{"", "rule realm", "y", "myrealm", "Please authenticate"})
		}
	}

	switch z := r.Intn(100); {
	case z < 55:
	case z < 75:
		m.If = "true"
	default:
		m.If = "false"
	}

	return m
}

func genReq(r *vf.Rand) reqDesc {
	rq := reqDesc{Method: vf.Pick(r, methods), Path: vf.Pick(r, paths), Remote: vf.Pick(r, remotes), Extra: map[string]string{}}
	if r.Chance(45) {
		rq.Method, rq.Path = http.MethodGet, "/verif"
	}

	if !r.Chance(15) {
		rq.Accept = []string{vf.Pick(r, accepts)}
		if r.Chance(10) {
			rq.Accept = append(rq.Accept, vf.Pick(r, secondAccepts))
		}
	}

	for n := r.Intn(3); n > 0 && r.Chance(70); n-- {
		e := vf.Pick(r, extras)
		rq.Extra[e[0]] = e[1]
	}

	// the client may be gone / the deadline over by the time the failure is answered
	if r.Chance(22) {
		rq.Ctx = vf.Pick(r, []string{"cancelled", "cancelled-during", "cancelled-during", "deadline"})
	}

	// the header a request dependent redirect target is taken from: absent / empty / blanks / a URL
	switch x := r.Intn(100); {
	case x < 30:
	case x < 45:
		rq.Extra["X-Login-Url"] = vf.Pick(r, []string{"", " ", " \t"})
	default:
		rq.Extra["X-Login-Url"] = "http://idp.example/from-header"
	}

	return rq
}

func gen(r *vf.Rand) c12Case {
	odd := r.Chance(25)
	c := c12Case{}
	c.R = respond{
		Verbose: r.Chance(60),
		Authn:   genCode(r, odd), Authz: genCode(r, odd), Comm: genCode(r, odd), Precond: genCode(r, odd),
		NoRule: genCode(r, odd), Internal: genCode(r, odd),
	}
	c.File = r.Chance(12)
	c.Req = genReq(r)
	c.E = genTree(r, r.Range(1, 6), odd, !c.R.Verbose)

	// a request whose context is done typically fails BECAUSE of that: context.Canceled / DeadlineExceeded / a
	// *url.Error somewhere in the chain of a failure of some kind
	if c.Req.Ctx != "" && r.Chance(60) {
		cause := node{K: "f", N: vf.Pick(r, []int{4, 5, 8, 16})}
		if r.Chance(50) {
			cause = node{K: "w", N: r.Intn(2), Sub: []node{cause}}
		}

		switch r.Intn(3) {
		case 0:
			c.E = node{K: "c", N: r.Intn(2), Sub: []node{c.E, cause}}
		case 1:
			c.E = node{K: "c", N: r.Intn(2), Sub: []node{{K: "s", Kind: vf.Pick(r, sentinelNames)}, cause}}
		default:
			c.E = node{K: "j", N: r.Intn(3), Sub: []node{cause, c.E}}
		}
	}

	// configuration files: make the precondition override (repaired finding C12-F4) and precondition failures frequent
	if c.File && r.Chance(50) {
		c.R.Precond = vf.Pick(r, []int{418, 422, 400, 499, 300, 999})

		if r.Chance(70) {
			c.E = node{K: "c", N: r.Intn(2), Sub: []node{{K: "s", Kind: "arg"}, c.E}}
		}
	}
	c.Probe = vf.Pick(r, probeCodes)

	switch x := r.Intn(100); {
	case x < 36:
		c.Sc = scenario{T: "fail"}
	case x < 84:
		n := 1
		if r.Chance(45) {
			n = r.Range(2, 3)
		}

		hs := make([]mech, n)
		for i := range hs {
			hs[i] = genMech(r, &c.Req)
		}

		c.Sc = scenario{T: "fail", Hs: hs}
	case x < 93:
		c.Sc = scenario{T: "panic", PanicErr: r.Bool()}
	default:
		c.Sc = scenario{T: "proxy", Proxy: vf.Pick(r, []string{"noupstream", "noupstream", "reset", "reset", "reset", "timeout"})}
	}

	return c
}

func get() reqDesc {
	return reqDesc{Method: http.MethodGet, Path: "/verif", Remote: "192.0.2.1:1234", Extra: map[string]string{}}
}

func withCtx(r reqDesc, state string) reqDesc {
	r.Ctx = state

	return r
}

func getAccept(a ...string) reqDesc {
	r := get()
	r.Accept = a

	return r
}

func corpus() []c12Case {
	authz := node{K: "s", Kind: "authz"}
	arg := node{K: "c", Sub: []node{{K: "s", Kind: "arg"}}}
	fail := func(hs ...mech) scenario { return scenario{T: "fail", Hs: hs} }
	options := get()
	options.Method = http.MethodOptions
	loopback := getAccept("*/*")
	loopback.Remote = "127.0.0.1:5555"
	loopback.Method = http.MethodPost
	loopback.Extra["X-Debug"] = "1"

	return []c12Case{
		// C12-F1 witness: www_authenticate handler, 401 without WWW-Authenticate header
		{Req: getAccept("text/html"), E: authz, Sc: fail(mech{T: "www", Realm: "r"})},
		// C12-F2 witness: negative override for authentication errors
		{R: respond{Authn: -5}, Req: get(), E: node{K: "s", Kind: "authn"}, Sc: fail()},
		// C12-F2: override below 100 (HTTP panics, gRPC sends 50)
		{R: respond{NoRule: 50}, Req: get(), E: node{K: "c", Sub: []node{{K: "s", Kind: "norule"}}}, Sc: fail()},
		// C12-F5: redirect code 0 built by hand
		{Req: get(), E: node{K: "r", Code: 0, To: "http://a"}, Sc: fail()},
		// regression witness for the repair of C12-F4 (ed62adc): precondition_error.code: 418 from a configuration file arrives
		// (VERIF_C12_FX="false false" expects the old behaviour: accepted and ignored, 400)
		{R: respond{Precond: 418}, File: true, Req: get(), E: arg, Sc: fail()},
		// ... the other overrides arrive from a file; so does verbose
		{R: respond{Verbose: true, Authn: 419, Authz: 420, Comm: 421, NoRule: 422, Internal: 423}, File: true, Req: getAccept("application/json"),
			E: authz, Sc: fail()},
		{R: respond{Internal: 423, Precond: 418}, File: true, Req: get(), E: node{K: "f", N: 4}, Sc: fail()},
		// C12-F3 (note only): Accept */* negotiates html over HTTP and json over gRPC
		{R: respond{Verbose: true}, Req: getAccept("*/*"), E: authz, Sc: fail()},
		// nothing acceptable: HTTP sends no body, gRPC falls back to text/html (pinned by heimdall's unit test)
		{R: respond{Verbose: true}, Req: getAccept("image/png"), E: authz, Sc: fail()},
		// two Accept lines: HTTP negotiates on the first one only
		{R: respond{Verbose: true}, Req: getAccept("text/html;q=0.1", "application/json"), E: authz, Sc: fail()},
		// override to a success status (outside the hypotheses of never-success)
		{R: respond{Authn: 200}, Req: get(), E: node{K: "s", Kind: "authn"}, Sc: fail()},
		// a redirect handler with code 200 can no longer be created (fix: 6c5864d); boundaries of the accepted range
		{Req: get(), E: authz, Sc: fail(), Probe: 200},
		{Req: get(), E: authz, Sc: fail(mech{T: "redirect", Code: 300, To: "http://idp"}), Probe: 299},
		{Req: get(), E: authz, Sc: fail(mech{T: "redirect", Code: 399, To: "http://idp"}), Probe: 400},
		// precedence: authentication deep inside wins over authorization at the head
		{R: respond{Verbose: true}, Req: get(), E: node{K: "c", Sub: []node{authz, {K: "w", Sub: []node{{K: "j", Sub: []node{
			{K: "f", N: 1}, {K: "c", Ctx: 1, Sub: []node{{K: "s", Kind: "authn"}}}}}}}}}, Sc: fail()},
		// redirect hidden behind a chain context must not be found; first redirect wins
		{Req: get(), E: node{K: "j", Sub: []node{{K: "c", Ctx: 1, Sub: []node{{K: "f", N: 0}}}, {K: "r", Code: 303, To: "/first"},
			{K: "r", Code: 307, To: "/second"}}}, Sc: fail()},
		// panic with an error value that carries an authentication error
		{Req: get(), E: node{K: "w", Sub: []node{{K: "s", Kind: "authn"}}}, Sc: scenario{T: "panic", PanicErr: true}},
		// panic with a non-error value, verbose
		{R: respond{Verbose: true, Internal: 503}, Req: getAccept("*/*"), E: authz, Sc: scenario{T: "panic"}},
		// redirect target taken from a request header that is absent: an empty Location, still a redirect
		{Req: get(), E: authz, Sc: fail(mech{T: "redirect", Tmpl: true})},
		// redirect template fails at render time
		{Req: get(), E: authz, Sc: fail(mech{T: "redirect", To: "x", Fails: true})},
		// negative internal override: the recovery middleware panics itself
		{R: respond{Internal: -1}, Req: get(), E: node{K: "f", N: 0}, Sc: fail()},
		// a failed OPTIONS request, a POST from loopback with a debug header: the answer depends on the failure only
		{Req: options, E: authz, Sc: fail()},
		{Req: loopback, E: node{K: "c", Sub: []node{{K: "s", Kind: "comm"}, {K: "f", N: 5}}}, Sc: fail()},
		// standard library errors are "anything else": client gone, deadline, EOF, errno, url.Error, status carrier
		{Req: get(), E: node{K: "f", N: 4}, Sc: fail()},
		{R: respond{Verbose: true}, Req: get(), E: node{K: "w", Sub: []node{{K: "f", N: 5}}}, Sc: fail()},
		{Req: get(), E: node{K: "c", Ctx: 3, Sub: []node{{K: "f", N: 8}, {K: "f", N: 10}}}, Sc: fail()},
		{Req: get(), E: node{K: "j", Sub: []node{{K: "f", N: 22}, {K: "f", N: 11}, {K: "f", N: 7}}}, Sc: fail(mech{T: "default"})},
		// rule level realm: replaces the prototype's, an empty one is NOT replaced by the default
		{Req: get(), E: authz, Sc: fail(mech{T: "www", Realm: "proto", WC: "realm", WCR: "rule realm"})},
		{Req: get(), E: authz, Sc: fail(mech{T: "www", Realm: "proto", WC: "realm", WCR: ""})},
		{Req: get(), E: authz, Sc: fail(mech{T: "www", WC: "empty"})},
		// handler lists: the first applicable entry decides, even when it fails itself; none applicable: the cause
		{Req: get(), E: authz, Sc: fail(mech{T: "www", Realm: "r", If: "false"}, mech{T: "redirect", To: "x", Fails: true}, mech{T: "default"})},
		{Req: get(), E: authz, Sc: fail(mech{T: "default", If: "false"}, mech{T: "redirect", To: "http://idp", If: "true"})},
		{Req: get(), E: authz, Sc: fail(mech{T: "default", If: "false"}, mech{T: "www", If: "false"})},
		// the client is gone / the deadline is over and the failure says so: still the response of its kind, never the
		// implicit 200 of a handler that writes nothing (seeded C12-9)
		{Req: withCtx(get(), "cancelled"), E: node{K: "c", Sub: []node{{K: "s", Kind: "authn"}, {K: "f", N: 4}}}, Sc: fail()},
		{Req: withCtx(get(), "cancelled-during"), E: node{K: "c", Sub: []node{{K: "s", Kind: "comm"}, {K: "w", Sub: []node{{K: "f", N: 4}}}}},
			Sc: fail(mech{T: "default"})},
		{Req: withCtx(get(), "deadline"), E: node{K: "w", Sub: []node{{K: "f", N: 5}}}, Sc: fail()},
		{Req: withCtx(get(), "cancelled"), E: node{K: "f", N: 4}, Sc: scenario{T: "panic", PanicErr: true}},
		{Req: withCtx(get(), "cancelled"), E: authz, Sc: scenario{T: "proxy", Proxy: "reset"}},
		{Req: withCtx(get(), "cancelled-during"), E: authz, Sc: scenario{T: "proxy", Proxy: "timeout"}},
		// the proxy's own Finalize fails
		{Req: get(), E: authz, Sc: scenario{T: "proxy", Proxy: "noupstream"}},
		{R: respond{Verbose: true}, Req: getAccept("text/plain"), E: authz, Sc: scenario{T: "proxy", Proxy: "reset"}},
		{R: respond{Comm: 504}, Req: get(), E: authz, Sc: scenario{T: "proxy", Proxy: "timeout"}},
	}
}

// ---- oracles ----------------------------------------------------------------------------

var fourTypes = []string{"text/html", "application/json", "text/plain", "application/xml"} //nolint:gochecknoglobals

type oracle struct {
	NegHTTP string `json:"neg_http"` // Content-Type the real HTTP translator answers a verbose probe failure with ("" = none)
	NegGRPC string `json:"neg_grpc"`
	JSON    bool   `json:"json_ne"`
	XML     bool   `json:"xml_ne"`
	Plain   bool   `json:"plain_ne"`
	// what the Accept header admits
	Free    bool     `json:"accept_free"`    // no constraint (no / empty / malformed header, or none of the candidate types acceptable)
	Allowed []string `json:"accept_allowed"` // most preferred acceptable candidate types (all acceptable ones with several Accept lines)
}

func mediaType(s string) contenttype.MediaType { return contenttype.NewMediaType(s) }

func acceptable(header string, types ...string) (string, error) {
	l := make([]contenttype.MediaType, len(types))
	for i, t := range types {
		l[i] = mediaType(t)
	}

	mt, _, err := contenttype.GetAcceptableMediaTypeFromHeader(header, l)
	if err != nil {
		return "", err
	}

	return mt.MIME(), nil
}

// negView: the request's Accept header read per RFC 7231 (all lines joined), ranked by the
// negotiation library on lists of one and two candidates (so no server side order matters)
func negView(accept []string, candidates []string) (bool, []string) {
	if accept == nil {
		return true, nil
	}

	header := strings.Join(accept, ",")
	if strings.TrimSpace(header) == "" {
		return true, nil
	}

	acc := []string{}

	for _, t := range candidates {
		if _, err := acceptable(header, t); err == nil {
			acc = append(acc, t)
		} else if !errors.Is(err, contenttype.ErrNoAcceptableTypeFound) {
			return true, nil // malformed
		}
	}

	if len(acc) == 0 {
		return true, nil
	}

	if len(accept) > 1 {
		return false, acc
	}

	best := []string{}

	for _, t := range acc {
		ok := true

		for _, u := range acc {
			if u != t {
				if w, err := acceptable(header, t, u); err != nil || w != t {
					ok = false
				}
			}
		}

		if ok {
			best = append(best, t)
		}
	}

	return false, best
}

var errProbe = errors.New("verif probe") //nolint:gochecknoglobals

func coqMedia(s string) string {
	switch s {
	case "text/html":
		return "Html"
	case "application/json":
		return "Json"
	case "text/plain":
		return "Plain"
	case "application/xml":
		return "Xml"
	}

	return ""
}

func coqOptMedia(s string) string {
	if m := coqMedia(s); m != "" {
		return "(Some " + m + ")"
	}

	return "None"
}

func coqCType(s string) string {
	if s == "" {
		return "CtNone"
	}

	if m := coqMedia(s); m != "" {
		return "(CtKnown " + m + ")"
	}

	return "(CtOther " + vf.CoqStr(s) + ")"
}

// ---- observation --------------------------------------------------------------------------

// res is the canonical observation of one request through one translator / stack.
type res struct {
	// http | abort (panic reached the caller) | denied | ok | status (gRPC status error) | notrun
	Kind     string   `json:"kind"`
	Status   int      `json:"status"`
	GCode    string   `json:"gcode,omitempty"`
	Location *string  `json:"location"`
	WWW      *string  `json:"www"`
	CType    string   `json:"ctype,omitempty"`
	Body     bool     `json:"body"`
	BodyWF   bool     `json:"body_wf"`
	Details  bool     `json:"details"`           // a text of the failure shows in the body, a header value or the gRPC status message
	Where    string   `json:"details_where,omitempty"`
	Headers  []string `json:"headers,omitempty"` // names of all response headers
	Panic    string   `json:"panic,omitempty"`
}

// wellFormed tells whether a response body is what its Content-Type says: valid JSON, parseable XML
// with a root element; anything for text/html, text/plain and types the driver does not know.
func wellFormed(ctype string, body []byte) bool {
	if len(body) == 0 {
		return true
	}

	switch ctype {
	case "application/json":
		return json.Valid(body)
	case "application/xml":
		dec := xml.NewDecoder(bytes.NewReader(body))
		elems := 0

		for {
			tok, err := dec.Token()
			if errors.Is(err, io.EOF) {
				return elems > 0
			}

			if err != nil {
				return false
			}

			if _, ok := tok.(xml.StartElement); ok {
				elems++
			}
		}
	case "":
		return false // a body without a Content-Type
	}

	return true
}

func mime(v string) string {
	if i := strings.IndexByte(v, ';'); i >= 0 {
		v = v[:i]
	}

	return strings.TrimSpace(v)
}

func findDetails(tokens []string, places map[string]string) (bool, string) {
	names := make([]string, 0, len(places))
	for k := range places {
		names = append(names, k)
	}

	sort.Strings(names)

	for _, where := range names {
		for _, t := range tokens {
			if strings.Contains(places[where], t) {
				return true, where + ": " + t
			}
		}
	}

	return false, ""
}

// context returns the request context in the state the case asks for, and the function that brings a
// "cancelled-during" context into its final state (called by the executor, i.e. while the pipeline runs)
func (rq reqDesc) context() (context.Context, func()) {
	switch rq.Ctx {
	case "cancelled":
		ctx, cancel := context.WithCancel(context.Background())
		cancel()

		return ctx, func() {}
	case "cancelled-during":
		return context.WithCancel(context.Background())
	case "deadline":
		ctx, cancel := context.WithDeadline(context.Background(), time.Unix(1, 0))
		_ = cancel

		return ctx, func() {}
	}

	return context.Background(), func() {}
}

// duringHook is called by every executor of a case when it starts (cancels a "cancelled-during" context)
var duringHook = func() {} //nolint:gochecknoglobals

func (rq reqDesc) httpRequest() *http.Request {
	req := httptest.NewRequest(rq.Method, "http://heimdall.local"+rq.Path, nil)
	req.RemoteAddr = rq.Remote

	if rq.Accept != nil {
		req.Header["Accept"] = append([]string{}, rq.Accept...)
	}

	for k, v := range rq.Extra {
		req.Header[http.CanonicalHeaderKey(k)] = []string{v}
	}

	return req
}

func (rq reqDesc) checkRequest() *envoy_auth.CheckRequest {
	headers := map[string]string{}
	if rq.Accept != nil {
		headers["accept"] = strings.Join(rq.Accept, ",") // Envoy joins repeated header lines
	}

	for k, v := range rq.Extra {
		headers[strings.ToLower(k)] = v
	}

	host, port, _ := net.SplitHostPort(rq.Remote)
	p := uint32(0)
	fmt.Sscanf(port, "%d", &p) //nolint:errcheck

	return &envoy_auth.CheckRequest{
		Attributes: &envoy_auth.AttributeContext{
			Source: &envoy_auth.AttributeContext_Peer{Address: &envoy_core.Address{Address: &envoy_core.Address_SocketAddress{
				SocketAddress: &envoy_core.SocketAddress{Address: host, PortSpecifier: &envoy_core.SocketAddress_PortValue{PortValue: p}},
			}}},
			Request: &envoy_auth.AttributeContext_Request{
				Http: &envoy_auth.AttributeContext_HttpRequest{
					Method: rq.Method, Scheme: "http", Host: "heimdall.local", Path: rq.Path, Headers: headers,
				},
			},
		},
	}
}

func recorded(rec *httptest.ResponseRecorder, tokens []string) res {
	r := res{Kind: "http", Status: rec.Code, Body: rec.Body.Len() != 0}
	places := map[string]string{"body": rec.Body.String()}

	for k, vs := range rec.Result().Header { // the headers as they were when the status line was written

		r.Headers = append(r.Headers, k)
		places["header "+k] = strings.Join(vs, "\n")

		if len(vs) == 0 {
			continue
		}

		v := vs[0]

		switch k {
		case "Location":
			r.Location = &v
		case "Www-Authenticate":
			r.WWW = &v
		case "Content-Type":
			r.CType = mime(v)
		}
	}

	sort.Strings(r.Headers)
	r.BodyWF = wellFormed(r.CType, rec.Body.Bytes())
	r.Details, r.Where = findDetails(tokens, places)

	return r
}

func envoyResult(resp *envoy_auth.CheckResponse, tokens []string) res {
	gc := codes.Code(resp.GetStatus().GetCode()).String() //nolint:gosec
	places := map[string]string{"grpc status message": resp.GetStatus().GetMessage()}

	if d := resp.GetDeniedResponse(); d != nil {
		r := res{Kind: "denied", GCode: gc, Status: int(d.GetStatus().GetCode()), Body: len(d.GetBody()) != 0}
		places["body"] = d.GetBody()

		for _, h := range d.GetHeaders() {
			v := h.GetHeader().GetValue()
			k := http.CanonicalHeaderKey(h.GetHeader().GetKey())
			r.Headers = append(r.Headers, k)
			places["header "+k] += v + "\n"

			switch k {
			case "Location":
				r.Location = &v
			case "Www-Authenticate":
				r.WWW = &v
			case "Content-Type":
				r.CType = mime(v)
			}
		}

		sort.Strings(r.Headers)
		r.BodyWF = wellFormed(r.CType, []byte(d.GetBody()))
		r.Details, r.Where = findDetails(tokens, places)

		return r
	}

	return res{Kind: "ok", GCode: gc}
}

func statusErr(err error, tokens []string) res {
	st := status.Convert(err)
	r := res{Kind: "status", GCode: st.Code().String()}
	r.Details, r.Where = findDetails(tokens, map[string]string{"grpc status message": st.Message()})

	return r
}

func httpOpts(r config.RespondConfig, verbose bool) []herr.Option {
	return []herr.Option{
		herr.WithVerboseErrors(verbose), herr.WithPreconditionErrorCode(r.With.ArgumentError.Code),
		herr.WithAuthenticationErrorCode(r.With.AuthenticationError.Code), herr.WithAuthorizationErrorCode(r.With.AuthorizationError.Code),
		herr.WithCommunicationErrorCode(r.With.CommunicationError.Code), herr.WithNoRuleErrorCode(r.With.NoRuleError.Code),
		herr.WithInternalServerErrorCode(r.With.InternalError.Code),
	}
}

func grpcOpts(r config.RespondConfig, verbose bool) []gerr.Option {
	return []gerr.Option{
		gerr.WithVerboseErrors(verbose), gerr.WithPreconditionErrorCode(r.With.ArgumentError.Code),
		gerr.WithAuthenticationErrorCode(r.With.AuthenticationError.Code), gerr.WithAuthorizationErrorCode(r.With.AuthorizationError.Code),
		gerr.WithCommunicationErrorCode(r.With.CommunicationError.Code), gerr.WithNoRuleErrorCode(r.With.NoRuleError.Code),
		gerr.WithInternalServerErrorCode(r.With.InternalError.Code),
	}
}

func translateHTTP(opts []herr.Option, rq reqDesc, err error, tokens []string) (r res) {
	defer func() {
		if p := recover(); p != nil {
			r = res{Kind: "abort", Panic: fmt.Sprint(p)}
		}
	}()

	rec := httptest.NewRecorder()
	ctx, finish := rq.context()
	finish()
	herr.New(opts...).HandleError(rec, rq.httpRequest().WithContext(ctx), err)

	return recorded(rec, tokens)
}

func translateGRPC(opts []gerr.Option, rq reqDesc, err error, tokens []string) (r res) {
	defer func() {
		if p := recover(); p != nil {
			r = res{Kind: "abort", Panic: fmt.Sprint(p)}
		}
	}()

	ctx, finish := rq.context()
	finish()

	out, e := gerr.New(opts...)(ctx, rq.checkRequest(), nil,
		func(context.Context, any) (any, error) { return nil, err })
	if e != nil {
		return statusErr(e, tokens)
	}

	return envoyResult(out.(*envoy_auth.CheckResponse), tokens) //nolint:forcetypeassert
}

// ---- configuration --------------------------------------------------------------------------

func (r respond) struc() config.RespondConfig {
	rc := config.RespondConfig{Verbose: r.Verbose}
	rc.With.AuthenticationError.Code = r.Authn
	rc.With.AuthorizationError.Code = r.Authz
	rc.With.CommunicationError.Code = r.Comm
	rc.With.ArgumentError.Code = r.Precond
	rc.With.NoRuleError.Code = r.NoRule
	rc.With.InternalError.Code = r.Internal

	return rc
}

// yaml renders the respond settings under the names the configuration schema and the documentation use
func (r respond) yaml(indent string) string {
	var b strings.Builder

	fmt.Fprintf(&b, "%srespond:\n%s  verbose: %v\n", indent, indent, r.Verbose)

	with := ""

	for _, kv := range []struct {
		name string
		code int
	}{
		{"authentication_error", r.Authn}, {"authorization_error", r.Authz}, {"communication_error", r.Comm},
		{"precondition_error", r.Precond}, {"no_rule_error", r.NoRule}, {"internal_error", r.Internal},
	} {
		if kv.code != 0 {
			with += fmt.Sprintf("%s    %s:\n%s      code: %d\n", indent, kv.name, indent, kv.code)
		}
	}

	if with != "" {
		fmt.Fprintf(&b, "%s  with:\n%s", indent, with)
	}

	return b.String()
}

var (
	confCache = map[string]config.Configuration{} //nolint:gochecknoglobals
	confDir   string                              //nolint:gochecknoglobals
)

func (c c12Case) conf() *config.Configuration {
	if !c.File {
		conf := &config.Configuration{}
		sc := config.ServiceConfig{Host: "127.0.0.1", Port: 1, Respond: c.R.struc()}
		conf.Serve.Decision, conf.Serve.Proxy = sc, sc

		return conf
	}

	text := "serve:\n  decision:\n" + c.R.yaml("    ") + "  proxy:\n" + c.R.yaml("    ")

	if cached, ok := confCache[text]; ok {
		return &cached
	}

	path := filepath.Join(confDir, fmt.Sprintf("heimdall-%d.yaml", len(confCache)))
	if err := os.WriteFile(path, []byte(text), 0o600); err != nil {
		panic(err)
	}

	conf, err := config.NewConfiguration("BIC12VERIFNOSUCHPREFIX_", config.ConfigurationPath(path))
	if err != nil {
		panic(fmt.Sprintf("configuration file rejected: %v\n%s", err, text))
	}

	confCache[text] = *conf
	cp := *conf

	return &cp
}

// ---- stacks -----------------------------------------------------------------------------------

var sharedCache cache.Cache //nolint:gochecknoglobals

func theCache() cache.Cache {
	if sharedCache == nil {
		cch, err := memory.NewCache(nil, nil, nil)
		if err != nil {
			panic(err)
		}

		sharedCache = cch
	}

	return sharedCache
}

type execFunc func(ctx heimdall.Context) (rule.Backend, error)

func (f execFunc) Execute(ctx heimdall.Context) (rule.Backend, error) { return f(ctx) }

type backend struct{ u *url.URL }

func (b backend) URL() *url.URL { return b.u }

func runHTTP(h http.Handler, rq reqDesc, tokens []string) (r res) {
	rec := httptest.NewRecorder()

	defer func() {
		if p := recover(); p != nil {
			r = res{Kind: "abort", Panic: fmt.Sprint(p)}
		}
	}()

	ctx, finish := rq.context()
	duringHook = finish

	defer func() { duringHook = func() {} }()

	h.ServeHTTP(rec, rq.httpRequest().WithContext(ctx))

	return recorded(rec, tokens)
}

func runEnvoy(conf *config.Configuration, exec rule.Executor, rq reqDesc, tokens []string) res {
	lis := bufconn.Listen(1 << 20)
	srv := grpcv3.VerifNewService(conf, theCache(), zerolog.Nop(), exec)

	go srv.Serve(lis) //nolint:errcheck

	conn, err := grpc.NewClient("passthrough://bufnet",
		grpc.WithContextDialer(func(context.Context, string) (net.Conn, error) { return lis.Dial() }),
		grpc.WithTransportCredentials(insecure.NewCredentials()))
	if err != nil {
		panic(err)
	}

	defer func() {
		conn.Close()
		srv.Stop()
	}()

	resp, err := envoy_auth.NewAuthorizationClient(conn).Check(context.Background(), rq.checkRequest())
	if err != nil {
		return statusErr(err, tokens)
	}

	return envoyResult(resp, tokens)
}

// upstreams that cannot be used: one closes every connection at once, one never answers
var (
	resetURL *url.URL //nolint:gochecknoglobals
	stallURL *url.URL //nolint:gochecknoglobals
)

func startUpstreams() func() {
	lis, err := net.Listen("tcp", "127.0.0.1:0")
	if err != nil {
		panic(err)
	}

	go func() {
		for {
			c, err := lis.Accept()
			if err != nil {
				return
			}

			c.Close()
		}
	}()

	resetURL, _ = url.Parse("http://" + lis.Addr().String() + "/")

	stall := httptest.NewServer(http.HandlerFunc(func(_ http.ResponseWriter, r *http.Request) {
		select {
		case <-r.Context().Done():
		case <-time.After(2 * time.Second):
		}
	}))
	stallURL, _ = url.Parse(stall.URL + "/")

	return func() {
		lis.Close()
		stall.CloseClientConnections()
		stall.Close()
	}
}

// ---- scenario execution ---------------------------------------------------------------------------

func mechanismFor(m mech) errorhandlers.ErrorHandler {
	var (
		eh  errorhandlers.ErrorHandler
		err error
	)

	switch m.T {
	case "default":
		eh, err = errorhandlers.CreatePrototype(nil, "eh", errorhandlers.ErrorHandlerDefault, nil)
	case "redirect":
		conf := map[string]any{"to": m.To}
		if m.Tmpl {
			conf["to"] = `{{ .Request.Header "X-Login-Url" }}`
		}

		if m.Fails {
			conf["to"] = `{{ len .Request.NoSuchField }}`
		}

		if m.Code != 0 {
			conf["code"] = m.Code
		}

		eh, err = errorhandlers.CreatePrototype(nil, "eh", errorhandlers.ErrorHandlerRedirect, conf)
	case "www":
		conf := map[string]any{}
		if m.Realm != "" {
			conf["realm"] = m.Realm
		}

		eh, err = errorhandlers.CreatePrototype(nil, "eh", errorhandlers.ErrorHandlerWWWAuthenticate, conf)
	}

	if err != nil {
		panic(fmt.Sprintf("mechanism %+v: %v", m, err))
	}

	// what the rule factory does with the `config` of an error_handler entry
	switch m.WC {
	case "empty":
		eh, err = eh.WithConfig(map[string]any{})
	case "realm":
		eh, err = eh.WithConfig(map[string]any{"realm": m.WCR})
	default:
		eh, err = eh.WithConfig(nil)
	}

	if err != nil {
		panic(fmt.Sprintf("mechanism %+v WithConfig: %v", m, err))
	}

	return eh
}

// recCtx records what a mechanism hands to AddHeaderForUpstream (and passes it on)
type recCtx struct {
	heimdall.Context
	rec *[][2]string
}

func (r recCtx) AddHeaderForUpstream(name, value string) {
	*r.rec = append(*r.rec, [2]string{name, value})
	r.Context.AddHeaderForUpstream(name, value)
}

func executorFor(c c12Case, err error, rec *[][2]string) rule.Executor {
	switch c.Sc.T {
	case "fail":
		if len(c.Sc.Hs) == 0 {
			return execFunc(func(heimdall.Context) (rule.Backend, error) { return nil, err })
		}

		hs := make([]rules.VerifHandler, len(c.Sc.Hs))
		for i, m := range c.Sc.Hs {
			hs[i] = rules.VerifHandler{Handler: mechanismFor(m), If: m.If}
		}

		rul, rerr := rules.VerifFailingRule(err, hs)
		if rerr != nil {
			panic(rerr)
		}

		return execFunc(func(ctx heimdall.Context) (rule.Backend, error) {
			return rul.Execute(recCtx{Context: ctx, rec: rec})
		})
	case "panic":
		return execFunc(func(heimdall.Context) (rule.Backend, error) {
			if c.Sc.PanicErr {
				panic(err)
			}

			panic("verif: stub panics")
		})
	default:
		return execFunc(func(heimdall.Context) (rule.Backend, error) {
			switch c.Sc.Proxy {
			case "reset":
				return backend{resetURL}, nil
			case "timeout":
				return backend{stallURL}, nil
			}

			return nil, nil
		})
	}
}

type obs struct {
	Is       []bool      `json:"is"`  // authn authz comm timeout arg conf int norule redirect eval
	Is6      []bool      `json:"is6"` // authn authz timeout||comm arg norule redirect (what the switch of the translators asks)
	AsOK     bool        `json:"as_ok"`
	AsCode   int         `json:"as_code"`
	AsTo     string      `json:"as_to"`
	HTTP     res         `json:"http"`
	GRPC     res         `json:"grpc"`
	Decision res         `json:"decision"`
	Proxy    res         `json:"proxy"`
	Envoy    res         `json:"envoy"`
	Or       oracle      `json:"oracle"`
	Up       [][2]string `json:"upstream_headers"` // handed to ctx.AddHeaderForUpstream by the mechanisms
	UpWWW    []string    `json:"upstream_www"`     // ... under the name WWW-Authenticate
	UpDiff   bool        `json:"upstream_differs"` // between the entry points
	ProbeOK  bool        `json:"probe_ok"`         // the real constructor accepted a redirect handler with code Probe
	Loaded   respond     `json:"loaded_respond"`   // what arrived in the configuration struct
}

func run(c c12Case) obs {
	err := build(c.E)
	conf := c.conf()
	rc := conf.Serve.Decision.Respond
	o := obs{}
	o.Loaded = respond{Verbose: rc.Verbose, Authn: rc.With.AuthenticationError.Code, Authz: rc.With.AuthorizationError.Code,
		Comm: rc.With.CommunicationError.Code, Precond: rc.With.ArgumentError.Code, NoRule: rc.With.NoRuleError.Code,
		Internal: rc.With.InternalError.Code}

	tokenSet := map[string]bool{}
	detailTokens(c.E, tokenSet)

	tokens := append([]string{}, ownTokens...)
	for t := range tokenSet {
		tokens = append(tokens, t)
	}

	sort.Strings(tokens)

	for _, k := range sentinelNames {
		o.Is = append(o.Is, errors.Is(err, sentinels[k]))
	}

	o.Is = append(o.Is, errors.Is(err, &heimdall.RedirectError{}), errors.Is(err, &cellib.EvalError{}))
	o.Is6 = []bool{o.Is[0], o.Is[1], o.Is[3] || o.Is[2], o.Is[4], o.Is[7], o.Is[8]}

	var re *heimdall.RedirectError
	if errors.As(err, &re) {
		o.AsOK, o.AsCode, o.AsTo = true, re.Code, re.RedirectTo
	}

	// oracles: body rendering of the very error value; the translators' own negotiation on a probe failure
	if rc.Verbose {
		b, _ := json.Marshal(err)
		o.Or.JSON = len(b) != 0
		b, _ = xml.Marshal(err)
		o.Or.XML = len(b) != 0
		o.Or.Plain = len(err.Error()) != 0
	}

	o.Or.NegHTTP = translateHTTP([]herr.Option{herr.WithVerboseErrors(true)}, c.Req, errProbe, nil).CType
	o.Or.NegGRPC = translateGRPC([]gerr.Option{gerr.WithVerboseErrors(true)}, c.Req, errProbe, nil).CType

	o.HTTP = translateHTTP(httpOpts(rc, rc.Verbose), c.Req, err, tokens)
	o.GRPC = translateGRPC(grpcOpts(rc, rc.Verbose), c.Req, err, tokens)

	probeConf := map[string]any{"to": "x"}
	if c.Probe != 0 {
		probeConf["code"] = c.Probe
	}

	_, probeErr := errorhandlers.CreatePrototype(nil, "probe", errorhandlers.ErrorHandlerRedirect, probeConf)
	o.ProbeOK = probeErr == nil

	var rec [][2]string

	inner := executorFor(c, err, &rec)
	exec := execFunc(func(ctx heimdall.Context) (rule.Backend, error) {
		duringHook()

		return inner.Execute(ctx)
	})
	notrun := res{Kind: "notrun"}

	if c.Sc.T == "proxy" {
		o.Decision, o.Envoy = notrun, notrun
		conf.Serve.Proxy.Timeout.Read = 120 * time.Millisecond
		o.Proxy = runHTTP(proxy.VerifNewService(conf, theCache(), zerolog.Nop(), exec).Handler, c.Req, tokens)
	} else {
		o.Decision = runHTTP(decision.VerifNewService(conf, theCache(), zerolog.Nop(), exec).Handler, c.Req, tokens)
		o.Up = append([][2]string{}, rec...)
		rec = nil
		o.Proxy = runHTTP(proxy.VerifNewService(conf, theCache(), zerolog.Nop(), exec).Handler, c.Req, tokens)
		o.UpDiff = fmt.Sprint(rec) != fmt.Sprint(o.Up)
		rec = nil
		o.Envoy = runEnvoy(conf, exec, c.Req, tokens)
		o.UpDiff = o.UpDiff || fmt.Sprint(rec) != fmt.Sprint(o.Up)
	}

	o.UpWWW = []string{}

	for _, h := range o.Up {
		if http.CanonicalHeaderKey(h[0]) == "Www-Authenticate" {
			o.UpWWW = append(o.UpWWW, h[1])
		}
	}

	if o.UpDiff {
		o.UpWWW = append(o.UpWWW, "verif: differs between entry points")
	}

	// what the Accept header admits, for the four types of the translators and any other type seen in an answer
	candidates := append([]string{}, fourTypes...)

	for _, r := range []res{o.HTTP, o.GRPC, o.Decision, o.Proxy, o.Envoy} {
		if r.CType != "" && coqMedia(r.CType) == "" {
			candidates = append(candidates, r.CType)
		}
	}

	o.Or.Free, o.Or.Allowed = negView(c.Req.Accept, candidates)

	return o
}

// ---- Gallina rendering ----------------------------------------------------------------------

func coqOptStr(s *string) string {
	if s == nil {
		return "None"
	}

	return "(Some " + vf.CoqStr(*s) + ")"
}

func coqReply(r res) string {
	return vf.CoqApp("mkr", vf.CoqZ(int64(r.Status)), coqOptStr(r.Location), coqOptStr(r.WWW), coqCType(r.CType),
		vf.CoqBool(r.Body), vf.CoqBool(r.Details), vf.CoqBool(r.BodyWF))
}

func coqObs(r res) string {
	switch r.Kind {
	case "http":
		return vf.CoqApp("OA", coqReply(r), "false")
	case "denied":
		return vf.CoqApp("OA", coqReply(r), vf.CoqBool(r.GCode == "OK"))
	case "abort":
		return "OHard"
	case "status":
		if r.GCode == "OK" {
			return "OPos"
		}

		if r.Details {
			return "(OWeird " + vf.CoqStr("details in a gRPC status error: "+r.Where) + ")"
		}

		return "OHard"
	case "ok":
		return "OPos"
	case "notrun":
		return "ONotRun"
	}

	return "(OWeird " + vf.CoqStr(r.Kind) + ")"
}

func coqMech(m mech) string {
	var mm string

	switch m.T {
	case "default":
		mm = "MDefault"
	case "redirect":
		to := "(Some " + vf.CoqStr(m.To) + ")"
		if m.Fails {
			to = "None"
		}

		mm = vf.CoqApp("MRedirect", vf.CoqZ(int64(m.Code)), to)
	default:
		mm = vf.CoqApp("MWWW", vf.CoqStr(m.Realm))
	}

	wc := "WcNone"
	if m.WC == "realm" {
		wc = vf.CoqApp("WcRealm", vf.CoqStr(m.WCR))
	}

	return vf.CoqApp("xh", vf.CoqBool(m.If != "false"), mm, wc)
}

func coqCase(c c12Case, o obs) string {
	cfg := vf.CoqApp("mkcfg", vf.CoqBool(c.R.Verbose), vf.CoqZ(int64(c.R.Authn)), vf.CoqZ(int64(c.R.Authz)),
		vf.CoqZ(int64(c.R.Comm)), vf.CoqZ(int64(c.R.Precond)), vf.CoqZ(int64(c.R.NoRule)), vf.CoqZ(int64(c.R.Internal)))
	or := vf.CoqApp("mkor", coqOptMedia(o.Or.NegHTTP), coqOptMedia(o.Or.NegGRPC), vf.CoqBool(o.Or.JSON), vf.CoqBool(o.Or.XML),
		vf.CoqBool(o.Or.Plain))

	known, other := []string{}, []string{}

	for _, t := range o.Or.Allowed {
		if m := coqMedia(t); m != "" {
			known = append(known, m)
		} else {
			other = append(other, vf.CoqStr(t))
		}
	}

	nv := vf.CoqApp("mknv", vf.CoqBool(o.Or.Free), vf.CoqList(known), vf.CoqList(other))

	var sc string

	switch c.Sc.T {
	case "fail":
		sc = "(SFail " + vf.CoqListOf(c.Sc.Hs, coqMech) + ")"
	case "panic":
		sc = "(SPanic " + vf.CoqBool(c.Sc.PanicErr) + ")"
	default:
		if c.Sc.Proxy == "noupstream" {
			sc = "(SProxy PNoUpstream)"
		} else {
			sc = "(SProxy PUpstreamFails)"
		}
	}

	as := "None"
	if o.AsOK {
		as = "(Some " + vf.CoqPair(vf.CoqZ(int64(o.AsCode)), vf.CoqStr(o.AsTo)) + ")"
	}

	return vf.CoqApp("mkcase", cfg, vf.CoqBool(c.File), or, nv, coqErr(c.E), sc, vf.CoqListOf(o.Is6, vf.CoqBool), as,
		coqObs(o.HTTP), coqObs(o.GRPC), coqObs(o.Decision), coqObs(o.Proxy), coqObs(o.Envoy),
		vf.CoqStrs(o.UpWWW), vf.CoqPair(vf.CoqZ(int64(c.Probe)), vf.CoqBool(o.ProbeOK)))
}

func tags(c c12Case, o obs) []string {
	t := []string{"scenario:" + c.Sc.T, fmt.Sprintf("depth:%d", depth(c.E)), fmt.Sprintf("verbose:%v", c.R.Verbose),
		"method:" + c.Req.Method, fmt.Sprintf("accept-lines:%d", len(c.Req.Accept)), fmt.Sprintf("from-config-file:%v", c.File),
		fmt.Sprintf("accept-free:%v", o.Or.Free), "request-context:" + map[bool]string{true: "live", false: c.Req.Ctx}[c.Req.Ctx == ""]}

	if c.Sc.T == "fail" {
		t = append(t, fmt.Sprintf("handlers:%d", len(c.Sc.Hs)))

		applied := "none"

		for _, m := range c.Sc.Hs {
			if m.If != "false" {
				applied = m.T
				if m.T == "redirect" && m.Fails {
					applied = "redirect-fails"
				}

				if m.WC != "" {
					applied += "+with_config:" + m.WC
				}

				break
			}
		}

		t = append(t, "handler-applied:"+applied)
	}

	if c.Sc.T == "proxy" {
		t = append(t, "proxy:"+c.Sc.Proxy)
	}

	kinds := map[string]bool{}
	kindsIn(c.E, kinds)
	t = append(t, fmt.Sprintf("kinds-in-tree:%d", len(kinds)))

	if kinds["stdlib"] {
		t = append(t, "tree-has:stdlib-error")
	}

	if o.HTTP.Kind == "http" {
		t = append(t, fmt.Sprintf("http-status:%d", o.HTTP.Status))
	} else {
		t = append(t, "http-status:panic")
	}

	if o.HTTP.CType != "" {
		t = append(t, "http-ctype:"+o.HTTP.CType)
	}

	if o.GRPC.CType != "" {
		t = append(t, "grpc-ctype:"+o.GRPC.CType)
	}

	if o.HTTP.CType != "" && o.GRPC.CType != "" && o.HTTP.CType != o.GRPC.CType {
		t = append(t, "F3:content-type-differs-http-vs-grpc")
	}

	if o.HTTP.Kind == "http" && o.GRPC.Kind == "denied" && o.HTTP.Body != o.GRPC.Body {
		t = append(t, "note:body-presence-differs-http-vs-grpc")
	}

	for _, r := range []res{o.HTTP, o.GRPC, o.Decision, o.Proxy, o.Envoy} {
		if r.Details {
			t = append(t, "details-observed")

			break
		}
	}

	if o.Decision.Kind == "abort" || o.Proxy.Kind == "abort" {
		t = append(t, "stack:abort")
	}

	ov := 0

	for _, x := range []int{c.R.Authn, c.R.Authz, c.R.Comm, c.R.Precond, c.R.NoRule, c.R.Internal} {
		if x != 0 {
			ov++
		}
	}

	if ov > 0 {
		t = append(t, "overrides:some")
	} else {
		t = append(t, "overrides:none")
	}

	return t
}

// non-trivial: the tree mixes at least two different leaf kinds below at least one
// wrapper (so that precedence and the chain semantics matter), or the failure goes
// through an error handler list, or something panics, or the proxy's Finalize fails
func nontrivial(c c12Case) bool {
	kinds := map[string]bool{}
	kindsIn(c.E, kinds)

	return (len(kinds) >= 2 && depth(c.E) >= 2) || c.Sc.T != "fail" || len(c.Sc.Hs) != 0
}

func TestVerifC12(t *testing.T) {
	w := vf.NewWriter()
	defer w.Close()

	confDir = t.TempDir()

	stop := startUpstreams()
	defer stop()

	root := vf.NewRand(vf.Seed())
	n := vf.N(600)
	idx := 0

	emit := func(stream string, c c12Case) {
		if vf.Want(idx) {
			o := run(c)
			w.Put(vf.Obs{I: idx, Stream: stream, In: c, Out: o, Coq: coqCase(c, o), Nontrivial: nontrivial(c), Tags: tags(c, o)})
		}

		idx++
	}

	for _, c := range corpus() {
		emit("corpus", c)
	}

	for i := 0; i < n; i++ {
		c := gen(root.Fork(uint64(i)))
		// ErrorChain.MarshalJSON/MarshalXML dereference the head of an EMPTY chain: such values are only
		// generated without verbose responses (an empty chain cannot be built through the package's API)
		if c.R.Verbose && hasEmptyChain(c.E) {
			c.R.Verbose = false
		}

		emit("generated", c)
	}
}
