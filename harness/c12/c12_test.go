//go:build verif

package c12

// C12 driver.  Every case = (respond configuration, Accept header, an error tree,
// a scenario).  The error tree is turned into a real Go error value (real
// errorchain.ErrorChain, fmt.Errorf %w, errors.Join, *heimdall.RedirectError, a real
// *cellib.EvalError, foreign types) and
//   - errors.Is for every target heimdall uses, and errors.As(&redirectError),
//   - the real HTTP translator (errorhandler.New(...).HandleError on an httptest recorder),
//   - the real gRPC translator (errorhandler.New(...) interceptor),
//   - the complete real decision, proxy and Envoy gRPC service stacks (recovery
//     middleware, service handler, request contexts, Finalize) around a stub
//     executor that returns the error / lets a REAL error handler mechanism
//     (default, redirect, www_authenticate, created by errorhandlers.CreatePrototype)
//     handle it / panics
// are observed.

import (
	"context"
	"encoding/xml"
	"errors"
	"fmt"
	"net/http"
	"net/http/httptest"
	"strings"
	"testing"

	"github.com/elnormous/contenttype"
	envoy_auth "github.com/envoyproxy/go-control-plane/envoy/service/auth/v3"
	"github.com/goccy/go-json"
	"github.com/google/cel-go/cel"

	gerr "github.com/dadrus/heimdall/internal/handler/middleware/grpc/errorhandler"
	herr "github.com/dadrus/heimdall/internal/handler/middleware/http/errorhandler"
	"github.com/dadrus/heimdall/internal/heimdall"
	"github.com/dadrus/heimdall/internal/rules/mechanisms/cellib"
	"github.com/dadrus/heimdall/internal/rules/mechanisms/errorhandlers"
	"github.com/dadrus/heimdall/internal/rules/rule"
	"github.com/dadrus/heimdall/internal/x/errorchain"
	"github.com/dadrus/heimdall/internal/zzverif/stacks"
	"github.com/dadrus/heimdall/internal/zzverif/vf"
)

// ---- error trees ------------------------------------------------------------------

type node struct {
	K    string `json:"k"`              // s r e f w j c
	Kind string `json:"kind,omitempty"` // sentinel kind
	N    int    `json:"n,omitempty"`    // foreign flavour+id / other sentinel id / wrap+join flavour
	Code int    `json:"code,omitempty"`
	To   string `json:"to,omitempty"`
	Ctx  bool   `json:"ctx,omitempty"`
	Sub  []node `json:"sub,omitempty"`
}

var sentinels = map[string]error{ //nolint:gochecknoglobals
	"authn": heimdall.ErrAuthentication, "authz": heimdall.ErrAuthorization, "comm": heimdall.ErrCommunication,
	"timeout": heimdall.ErrCommunicationTimeout, "arg": heimdall.ErrArgument, "conf": heimdall.ErrConfiguration,
	"int": heimdall.ErrInternal, "norule": heimdall.ErrNoRuleFound,
}

var sentinelNames = []string{"authn", "authz", "comm", "timeout", "arg", "conf", "int", "norule"} //nolint:gochecknoglobals

var otherSentinels = []error{errors.New("other 0"), errors.New("other 1"), errors.New("")} //nolint:gochecknoglobals

// foreign leaf types
type foreignVal struct{ N int }

func (f foreignVal) Error() string { return fmt.Sprintf("foreign value %d", f.N) }

type foreignMap struct{ M map[string]int } // encoding/xml cannot marshal it

func (f *foreignMap) Error() string { return "foreign map" }

type foreignSilent struct{}

func (*foreignSilent) Error() string { return "" }

// foreign wrappers
type customWrap struct{ inner error }

func (w *customWrap) Error() string { return "custom: " + w.inner.Error() }
func (w *customWrap) Unwrap() error { return w.inner }

type customMulti struct{ inner []error }

func (w *customMulti) Error() string   { return fmt.Sprintf("multi(%d)", len(w.inner)) }
func (w *customMulti) Unwrap() []error { return w.inner }

var evalErr error //nolint:gochecknoglobals

func realEvalError() error {
	if evalErr == nil {
		env, err := cel.NewEnv(cellib.Library())
		if err != nil {
			panic(err)
		}

		expr, err := cellib.CompileExpression(env, "1 == 2", "expression is false")
		if err != nil {
			panic(err)
		}

		evalErr = expr.Eval(map[string]any{})
		if evalErr == nil {
			panic("no EvalError")
		}
	}

	return evalErr
}

func build(n node) error {
	switch n.K {
	case "s":
		if n.Kind == "other" {
			return otherSentinels[n.N%len(otherSentinels)]
		}

		return sentinels[n.Kind]
	case "r":
		return &heimdall.RedirectError{Message: "redirect", Code: n.Code, RedirectTo: n.To}
	case "e":
		return realEvalError()
	case "f":
		switch n.N % 4 {
		case 0:
			return fmt.Errorf("foreign %d", n.N) //nolint:goerr113
		case 1:
			return foreignVal{n.N}
		case 2:
			return &foreignMap{M: map[string]int{"a": 1}}
		default:
			return &foreignSilent{}
		}
	case "w":
		inner := build(n.Sub[0])
		if n.N%2 == 0 {
			return fmt.Errorf("wrapped: %w", inner)
		}

		return &customWrap{inner}
	case "j":
		subs := make([]error, len(n.Sub))
		for i, s := range n.Sub {
			subs[i] = build(s)
		}

		switch {
		case len(subs) == 0 || n.N%3 == 2:
			return &customMulti{subs}
		case len(subs) == 2 && n.N%3 == 1:
			return fmt.Errorf("both: %w and %w", subs[0], subs[1])
		default:
			return errors.Join(subs...)
		}
	case "c":
		if len(n.Sub) == 0 {
			return &errorchain.ErrorChain{}
		}

		var ec *errorchain.ErrorChain

		for i, s := range n.Sub {
			switch {
			case i == 0 && n.N%2 == 0:
				ec = errorchain.NewWithMessage(build(s), "something failed")
			case i == 0:
				ec = errorchain.New(build(s))
			default:
				ec = ec.CausedBy(build(s))
			}
		}

		if n.Ctx {
			// adversarial context: a RedirectError must NOT be found through the context
			if n.N%2 == 0 {
				ec = ec.WithErrorContext(&heimdall.RedirectError{Message: "ctx", Code: 204, RedirectTo: "http://context"})
			} else {
				ec = ec.WithErrorContext("some context")
			}
		}

		return ec
	}

	panic("bad node " + n.K)
}

func coqErr(n node) string {
	switch n.K {
	case "s":
		if n.Kind == "other" {
			return vf.CoqApp("sOther", vf.CoqNat(n.N%len(otherSentinels)))
		}

		return map[string]string{
			"authn": "sAuthn", "authz": "sAuthz", "comm": "sComm", "timeout": "sTimeout", "arg": "sArg",
			"conf": "sConf", "int": "sInt", "norule": "sNoRule",
		}[n.Kind]
	case "r":
		return vf.CoqApp("Redirect", vf.CoqZ(int64(n.Code)), vf.CoqStr(n.To))
	case "e":
		return "EvalErr"
	case "f":
		return vf.CoqApp("Foreign", vf.CoqNat(n.N))
	case "w":
		return vf.CoqApp("WrapW", coqErr(n.Sub[0]))
	case "j":
		return vf.CoqApp("JoinW", vf.CoqListOf(n.Sub, coqErr))
	case "c":
		return vf.CoqApp("Chain", vf.CoqListOf(n.Sub, coqErr), vf.CoqBool(n.Ctx))
	}

	panic("bad node")
}

func hasEmptyChain(n node) bool {
	if n.K == "c" && len(n.Sub) == 0 {
		return true
	}

	for _, s := range n.Sub {
		if hasEmptyChain(s) {
			return true
		}
	}

	return false
}

func depth(n node) int {
	d := 0
	for _, s := range n.Sub {
		if x := depth(s); x > d {
			d = x
		}
	}

	return d + 1
}

func kindsIn(n node, acc map[string]bool) {
	switch n.K {
	case "s":
		acc[n.Kind] = true
	case "r":
		acc["redirect"] = true
	case "e":
		acc["eval"] = true
	case "f":
		acc["foreign"] = true
	}

	for _, s := range n.Sub {
		kindsIn(s, acc)
	}
}

var redirectCodes = []int{301, 302, 302, 303, 307, 308, 302, 301} //nolint:gochecknoglobals

// codes a redirect error handler can be configured with since the loader validates them (300..399, boundaries included)
var handlerCodes = []int{301, 302, 303, 307, 308, 300, 399, 304} //nolint:gochecknoglobals

// codes tried against the real constructor (creation probe)
var probeCodes = []int{0, 299, 300, 301, 302, 399, 400, 200, 204, 100, 5, 99, -1, -302, 1000, 3020} //nolint:gochecknoglobals

var oddCodes = []int{200, 204, 299, 100, 103, 0, 5, 99, -1, 1000, 1200} //nolint:gochecknoglobals

func genLeaf(r *vf.Rand, odd bool) node {
	switch x := r.Intn(100); {
	case x < 55:
		return node{K: "s", Kind: vf.Pick(r, sentinelNames)}
	case x < 60:
		return node{K: "s", Kind: "other", N: r.Intn(3)}
	case x < 72:
		code := vf.Pick(r, redirectCodes)
		if odd && r.Chance(50) {
			code = vf.Pick(r, oddCodes)
		}

		return node{K: "r", Code: code, To: vf.Pick(r, []string{"http://a.example/login", "/relative?x=1", "", "https://b.example/\"q\""})}
	case x < 77:
		return node{K: "e"}
	default:
		return node{K: "f", N: r.Intn(8)}
	}
}

func genTree(r *vf.Rand, d int, odd, allowEmpty bool) node {
	if d <= 1 || r.Chance(18) {
		return genLeaf(r, odd)
	}

	switch x := r.Intn(100); {
	case x < 25:
		return node{K: "w", N: r.Intn(2), Sub: []node{genTree(r, d-1, odd, allowEmpty)}}
	case x < 50:
		n := r.Range(1, 4)
		if r.Chance(5) {
			n = 0
		}

		subs := make([]node, n)
		for i := range subs {
			subs[i] = genTree(r, d-1, odd, allowEmpty)
		}

		return node{K: "j", N: r.Intn(3), Sub: subs}
	default:
		n := r.Range(1, 4)
		if allowEmpty && r.Chance(3) {
			n = 0
		}

		subs := make([]node, n)
		for i := range subs {
			subs[i] = genTree(r, d-1, odd, allowEmpty)
		}

		return node{K: "c", N: r.Intn(2), Ctx: r.Chance(25), Sub: subs}
	}
}

// ---- cases ------------------------------------------------------------------------------

type mech struct {
	T     string  `json:"t"` // default redirect www
	Code  int     `json:"code,omitempty"`
	To    string  `json:"to,omitempty"`
	Fails bool    `json:"fails,omitempty"`            // the `to` template fails at render time
	Tmpl  bool    `json:"to_from_header,omitempty"`   // `to` is {{ .Request.Header "X-Login-Url" }}; To = what it renders on this request
	Login *string `json:"login_url_header,omitempty"` // the X-Login-Url request header (nil = absent)
	Realm string  `json:"realm,omitempty"`
}

type scenario struct {
	T        string `json:"t"` // error handled panic
	M        *mech  `json:"m,omitempty"`
	PanicErr bool   `json:"panic_err,omitempty"` // panic value is the error (else a string)
}

type c12Case struct {
	R      stacks.Respond `json:"respond"`
	Accept *string        `json:"accept"`
	E      node           `json:"err"`
	Sc     scenario       `json:"scenario"`
	Probe  int            `json:"probe_code"` // redirect handler code tried against the real constructor
}

var accepts = []string{ //nolint:gochecknoglobals
	"", "*/*", "text/*", "application/*", "application/json", "application/xml", "text/html", "text/plain",
	"image/png", "garbage;;", "text/plain;q=0.1, application/xml;q=0.9", "text/plain, application/json",
	"application/json;q=0.5, text/html;q=0.5", "*/*;q=0.1, text/plain", "TEXT/HTML", "application/xml;q=0",
	"application/xml, */*;q=0.2", "text/html;level=1", "application/json ; q=0.3 , text/plain;q=0.4",
}

func genCode(r *vf.Rand, odd bool) int {
	switch x := r.Intn(100); {
	case x < 60:
		return 0
	case x < 90 || !odd:
		return vf.Pick(r, []int{400, 401, 403, 404, 418, 470, 500, 502, 503, 599, 300, 399, 600, 999})
	case x < 95:
		return vf.Pick(r, []int{200, 204, 299, 100, 103, 199})
	default:
		return vf.Pick(r, []int{-1, -401, 1, 50, 99, 1000, 4010, 70000})
	}
}

func gen(r *vf.Rand) c12Case {
	odd := r.Chance(25)
	c := c12Case{}
	c.R = stacks.Respond{
		Verbose: r.Chance(60),
		Authn:   genCode(r, odd), Authz: genCode(r, odd), Comm: genCode(r, odd), Precond: genCode(r, odd),
		NoRule: genCode(r, odd), Internal: genCode(r, odd),
	}

	if !r.Chance(15) {
		a := vf.Pick(r, accepts)
		c.Accept = &a
	}

	c.E = genTree(r, r.Range(1, 6), odd, !c.R.Verbose)
	c.Probe = vf.Pick(r, probeCodes)

	switch x := r.Intn(100); {
	case x < 45:
		c.Sc = scenario{T: "error"}
	case x < 90:
		m := &mech{}

		switch y := r.Intn(100); {
		case y < 30:
			m.T = "default"
		case y < 70:
			m.T = "redirect"
			m.To = vf.Pick(r, []string{"http://idp.example/login", "https://x.example/a?b=c", "/local"})
			m.Fails = r.Chance(12)

			// request dependent target that renders nothing / blanks / a URL
			if !m.Fails && r.Chance(35) {
				m.Tmpl = true

				switch r.Intn(4) {
				case 0:
					m.To = ""
				case 1:
					v := vf.Pick(r, []string{"", " ", " \t"})
					m.Login, m.To = &v, v
				default:
					v := "http://idp.example/from-header"
					m.Login, m.To = &v, v
				}
			}

			if r.Chance(60) {
				m.Code = vf.Pick(r, handlerCodes)
			}
		default:
			m.T = "www"
			m.Realm = vf.Pick(r, []string{"", "myrealm", "two words", "q\"uote", "x"})
		}

		c.Sc = scenario{T: "handled", M: m}
	default:
		c.Sc = scenario{T: "panic", PanicErr: r.Bool()}
	}

	return c
}

func corpus() []c12Case {
	html := "text/html"
	any := "*/*"
	authz := node{K: "s", Kind: "authz"}

	return []c12Case{
		// C12-F1 witness: www_authenticate handler, 401 without WWW-Authenticate header
		{Accept: &html, E: authz, Sc: scenario{T: "handled", M: &mech{T: "www", Realm: "r"}}},
		// C12-F2 witness: negative override for authentication errors
		{R: stacks.Respond{Authn: -5}, E: node{K: "s", Kind: "authn"}, Sc: scenario{T: "error"}},
		// C12-F2: override below 100 (HTTP panics, gRPC sends 50)
		{R: stacks.Respond{NoRule: 50}, E: node{K: "c", Sub: []node{{K: "s", Kind: "norule"}}}, Sc: scenario{T: "error"}},
		// C12-F2: redirect code 0 built by hand
		{E: node{K: "r", Code: 0, To: "http://a"}, Sc: scenario{T: "error"}},
		// C12-F3 (note only): Accept */* negotiates html over HTTP and json over gRPC
		{R: stacks.Respond{Verbose: true}, Accept: &any, E: authz, Sc: scenario{T: "error"}},
		// override to a success status (outside the hypotheses of never-success)
		{R: stacks.Respond{Authn: 200}, E: node{K: "s", Kind: "authn"}, Sc: scenario{T: "error"}},
		// a redirect handler with code 200 can no longer be created (fix: 6c5864d); boundaries of the accepted range
		{E: authz, Sc: scenario{T: "error"}, Probe: 200},
		{E: authz, Sc: scenario{T: "handled", M: &mech{T: "redirect", Code: 300, To: "http://idp"}}, Probe: 299},
		{E: authz, Sc: scenario{T: "handled", M: &mech{T: "redirect", Code: 399, To: "http://idp"}}, Probe: 400},
		// precedence: authentication deep inside wins over authorization at the head
		{R: stacks.Respond{Verbose: true}, E: node{K: "c", Sub: []node{authz, {K: "w", Sub: []node{{K: "j", Sub: []node{
			{K: "f", N: 1}, {K: "c", Ctx: true, Sub: []node{{K: "s", Kind: "authn"}}}}}}}}}, Sc: scenario{T: "error"}},
		// redirect hidden behind a chain context must not be found; first redirect wins
		{E: node{K: "j", Sub: []node{{K: "c", Ctx: true, Sub: []node{{K: "f", N: 0}}}, {K: "r", Code: 303, To: "/first"},
			{K: "r", Code: 307, To: "/second"}}}, Sc: scenario{T: "error"}},
		// panic with an error value that carries an authentication error
		{E: node{K: "w", Sub: []node{{K: "s", Kind: "authn"}}}, Sc: scenario{T: "panic", PanicErr: true}},
		// panic with a non-error value, verbose
		{R: stacks.Respond{Verbose: true, Internal: 503}, Accept: &any, E: authz, Sc: scenario{T: "panic"}},
		// redirect target taken from a request header that is absent: an empty Location, still a redirect
		{E: authz, Sc: scenario{T: "handled", M: &mech{T: "redirect", Tmpl: true}}},
		// redirect template fails at render time
		{E: authz, Sc: scenario{T: "handled", M: &mech{T: "redirect", To: "x", Fails: true}}},
		// negative internal override: the recovery middleware panics itself
		{R: stacks.Respond{Internal: -1}, E: node{K: "f", N: 0}, Sc: scenario{T: "error"}},
	}
}

// ---- oracles ----------------------------------------------------------------------------

var httpTypes = []contenttype.MediaType{ //nolint:gochecknoglobals
	contenttype.NewMediaType("text/html"), contenttype.NewMediaType("application/json"),
	contenttype.NewMediaType("text/plain"), contenttype.NewMediaType("application/xml"),
}

var grpcTypes = []contenttype.MediaType{ //nolint:gochecknoglobals
	{Type: "application", Subtype: "json"}, {Type: "application", Subtype: "xml"},
	{Type: "text", Subtype: "html"}, {Type: "text", Subtype: "plain"},
}

type oracle struct {
	NegHTTP string `json:"neg_http"` // "" = negotiation failed
	NegGRPC string `json:"neg_grpc"`
	JSON    bool   `json:"json_ne"`
	XML     bool   `json:"xml_ne"`
	Plain   bool   `json:"plain_ne"`
}

func coqMedia(s string) string {
	switch s {
	case "text/html":
		return "(Some Html)"
	case "application/json":
		return "(Some Json)"
	case "text/plain":
		return "(Some Plain)"
	case "application/xml":
		return "(Some Xml)"
	case "":
		return "None"
	}

	return ""
}

// observed Content-Type
func coqOMedia(s string) string {
	if m := coqMedia(s); m != "" {
		return "(OM " + m + ")"
	}

	return "(OMOther " + vf.CoqStr(s) + ")"
}

func oracleFor(accept *string, err error, withBody bool) oracle {
	o := oracle{}
	req := httptest.NewRequest(http.MethodGet, "/x", nil)
	hdrVal := ""

	if accept != nil {
		req.Header["Accept"] = []string{*accept}
		hdrVal = *accept
	}

	if mt, _, e := contenttype.GetAcceptableMediaType(req, httpTypes); e == nil {
		o.NegHTTP = mt.MIME()
	}

	if mt, _, e := contenttype.GetAcceptableMediaTypeFromHeader(hdrVal, grpcTypes); e == nil {
		o.NegGRPC = mt.MIME()
	}

	if withBody {
		b, _ := json.Marshal(err)
		o.JSON = len(b) != 0
		b, _ = xml.Marshal(err)
		o.XML = len(b) != 0
		o.Plain = len(err.Error()) != 0
	}

	return o
}

// ---- observation --------------------------------------------------------------------------

type obs struct {
	Is       []bool        `json:"is"` // authn authz comm timeout arg conf int norule redirect eval
	AsOK     bool          `json:"as_ok"`
	AsCode   int           `json:"as_code"`
	AsTo     string        `json:"as_to"`
	HTTP     stacks.Result `json:"http"`
	GRPC     stacks.Result `json:"grpc"`
	Decision stacks.Result `json:"decision"`
	Proxy    stacks.Result `json:"proxy"`
	Envoy    stacks.Result `json:"envoy"`
	Or       oracle        `json:"oracle"`
	Up       [][2]string   `json:"upstream_headers"` // handed to ctx.AddHeaderForUpstream by the mechanism
	ProbeOK  bool          `json:"probe_ok"`         // the real constructor accepted a redirect handler with code Probe
}

func httpOpts(r stacks.Respond) []herr.Option {
	return []herr.Option{
		herr.WithVerboseErrors(r.Verbose), herr.WithPreconditionErrorCode(r.Precond),
		herr.WithAuthenticationErrorCode(r.Authn), herr.WithAuthorizationErrorCode(r.Authz),
		herr.WithCommunicationErrorCode(r.Comm), herr.WithNoRuleErrorCode(r.NoRule),
		herr.WithInternalServerErrorCode(r.Internal),
	}
}

func grpcOpts(r stacks.Respond) []gerr.Option {
	return []gerr.Option{
		gerr.WithVerboseErrors(r.Verbose), gerr.WithPreconditionErrorCode(r.Precond),
		gerr.WithAuthenticationErrorCode(r.Authn), gerr.WithAuthorizationErrorCode(r.Authz),
		gerr.WithCommunicationErrorCode(r.Comm), gerr.WithNoRuleErrorCode(r.NoRule),
		gerr.WithInternalServerErrorCode(r.Internal),
	}
}

func translateHTTP(c c12Case, err error) (res stacks.Result) {
	defer func() {
		if p := recover(); p != nil {
			res = stacks.Result{Kind: "abort", Panic: fmt.Sprint(p)}
		}
	}()

	rec := httptest.NewRecorder()
	req := httptest.NewRequest(http.MethodGet, "/x", nil)

	if c.Accept != nil {
		req.Header["Accept"] = []string{*c.Accept}
	}

	herr.New(httpOpts(c.R)...).HandleError(rec, req, err)

	res = stacks.Result{Kind: "http", Status: rec.Code, Body: rec.Body.Len() != 0}
	if v, ok := rec.Header()["Location"]; ok {
		res.Location = &v[0]
	}

	if v, ok := rec.Header()["Www-Authenticate"]; ok {
		res.WWW = &v[0]
	}

	ct := rec.Header().Get("Content-Type")
	if i := strings.IndexByte(ct, ';'); i >= 0 {
		ct = ct[:i]
	}

	res.CType = ct
	res.BodyWF = stacks.WellFormed(ct, rec.Body.Bytes())

	return res
}

func translateGRPC(c c12Case, err error) (res stacks.Result) {
	defer func() {
		if p := recover(); p != nil {
			res = stacks.Result{Kind: "abort", Panic: fmt.Sprint(p)}
		}
	}()

	headers := map[string]string{}
	if c.Accept != nil {
		headers["accept"] = *c.Accept
	}

	req := &envoy_auth.CheckRequest{Attributes: &envoy_auth.AttributeContext{Request: &envoy_auth.AttributeContext_Request{
		Http: &envoy_auth.AttributeContext_HttpRequest{Headers: headers},
	}}}

	out, e := gerr.New(grpcOpts(c.R)...)(context.Background(), req, nil,
		func(context.Context, any) (any, error) { return nil, err })
	if e != nil {
		return stacks.Result{Kind: "status", GCode: e.Error()}
	}

	return stacks.EnvoyResult(out.(*envoy_auth.CheckResponse)) //nolint:forcetypeassert
}

func mechanismFor(m *mech) errorhandlers.ErrorHandler {
	var (
		eh  errorhandlers.ErrorHandler
		err error
	)

	switch m.T {
	case "default":
		eh, err = errorhandlers.CreatePrototype(nil, "eh", errorhandlers.ErrorHandlerDefault, nil)
	case "redirect":
		conf := map[string]any{"to": m.To}
		if m.Tmpl {
			conf["to"] = `{{ .Request.Header "X-Login-Url" }}`
		}

		if m.Fails {
			conf["to"] = `{{ len .Request.NoSuchField }}`
		}

		if m.Code != 0 {
			conf["code"] = m.Code
		}

		eh, err = errorhandlers.CreatePrototype(nil, "eh", errorhandlers.ErrorHandlerRedirect, conf)
	case "www":
		conf := map[string]any{}
		if m.Realm != "" {
			conf["realm"] = m.Realm
		}

		eh, err = errorhandlers.CreatePrototype(nil, "eh", errorhandlers.ErrorHandlerWWWAuthenticate, conf)
	}

	if err != nil {
		panic(fmt.Sprintf("mechanism %+v: %v", *m, err))
	}

	return eh
}

// recCtx records what a mechanism hands to AddHeaderForUpstream (and passes it on)
type recCtx struct {
	heimdall.Context
	rec *[][2]string
}

func (r recCtx) AddHeaderForUpstream(name, value string) {
	*r.rec = append(*r.rec, [2]string{name, value})
	r.Context.AddHeaderForUpstream(name, value)
}

func executorFor(c c12Case, err error, rec *[][2]string) rule.Executor {
	switch c.Sc.T {
	case "error":
		return stacks.ExecFunc(func(heimdall.Context) (rule.Backend, error) { return nil, err })
	case "handled":
		eh := mechanismFor(c.Sc.M)

		// what ruleImpl.Execute does with a failed stage: return nil, r.eh.Execute(ctx, err)
		return stacks.ExecFunc(func(ctx heimdall.Context) (rule.Backend, error) {
			return nil, eh.Execute(recCtx{Context: ctx, rec: rec}, err)
		})
	default:
		return stacks.ExecFunc(func(heimdall.Context) (rule.Backend, error) {
			if c.Sc.PanicErr {
				panic(err)
			}

			panic("verif: stub panics")
		})
	}
}

func run(c c12Case) obs {
	err := build(c.E)
	o := obs{Or: oracleFor(c.Accept, err, c.R.Verbose)}

	for _, k := range sentinelNames {
		o.Is = append(o.Is, errors.Is(err, sentinels[k]))
	}

	o.Is = append(o.Is, errors.Is(err, &heimdall.RedirectError{}), errors.Is(err, &cellib.EvalError{}))

	var re *heimdall.RedirectError
	if errors.As(err, &re) {
		o.AsOK, o.AsCode, o.AsTo = true, re.Code, re.RedirectTo
	}

	o.HTTP = translateHTTP(c, err)
	o.GRPC = translateGRPC(c, err)

	probeConf := map[string]any{"to": "x"}
	if c.Probe != 0 {
		probeConf["code"] = c.Probe
	}

	_, probeErr := errorhandlers.CreatePrototype(nil, "probe", errorhandlers.ErrorHandlerRedirect, probeConf)
	o.ProbeOK = probeErr == nil

	var rec [][2]string

	exec := executorFor(c, err, &rec)
	hdrs := map[string]string{}
	if c.Accept != nil {
		hdrs["Accept"] = *c.Accept
	}

	if c.Sc.M != nil && c.Sc.M.Login != nil {
		hdrs["X-Login-Url"] = *c.Sc.M.Login
	}

	o.Decision = stacks.NewDecision(c.R, exec).DoHeaders("/verif", hdrs)
	o.Up = append([][2]string{}, rec...)
	rec = nil
	o.Proxy = stacks.NewProxy(c.R, exec).DoHeaders("/verif", hdrs)
	same := fmt.Sprint(rec) == fmt.Sprint(o.Up)
	rec = nil

	env := stacks.NewEnvoy(c.R, exec)
	o.Envoy = env.DoHeaders("/verif", hdrs)
	env.Close()

	if !same || fmt.Sprint(rec) != fmt.Sprint(o.Up) {
		o.Up = append(o.Up, [2]string{"verif: differs between entry points", fmt.Sprint(rec)})
	}

	return o
}

// ---- Gallina rendering ----------------------------------------------------------------------

func coqOptStr(s *string) string {
	if s == nil {
		return "None"
	}

	return "(Some " + vf.CoqStr(*s) + ")"
}

func coqHdrs(r stacks.Result) string {
	return vf.CoqApp("hd", coqOptStr(r.Location), coqOptStr(r.WWW), coqOMedia(r.CType), vf.CoqBool(r.BodyWF))
}

func coqGCode(s string) string {
	switch s {
	case "OK":
		return "(OG GOk)"
	case "Unauthenticated":
		return "(OG GUnauthenticated)"
	case "PermissionDenied":
		return "(OG GPermissionDenied)"
	case "DeadlineExceeded":
		return "(OG GDeadlineExceeded)"
	case "InvalidArgument":
		return "(OG GInvalidArgument)"
	case "NotFound":
		return "(OG GNotFound)"
	case "FailedPrecondition":
		return "(OG GFailedPrecondition)"
	case "Internal":
		return "(OG GInternal)"
	}

	return "(OGOther " + vf.CoqStr(s) + ")"
}

// HTTP side: OHttp status hdrs body | OAbort | OOther
func coqHTTP(r stacks.Result) string {
	switch r.Kind {
	case "http":
		return vf.CoqApp("OHttp", vf.CoqZ(int64(r.Status)), coqHdrs(r), vf.CoqBool(r.Body), vf.CoqBool(r.Marker))
	case "abort":
		return "OAbort"
	}

	return "(OOther " + vf.CoqStr(r.Kind) + ")"
}

// gRPC side: ODenied gcode status hdrs body | OStatus gcode | OOk gcode
func coqGRPC(r stacks.Result) string {
	switch r.Kind {
	case "denied":
		return vf.CoqApp("ODenied", coqGCode(r.GCode), vf.CoqZ(int64(r.Status)), coqHdrs(r), vf.CoqBool(r.Body))
	case "status":
		return vf.CoqApp("OStatus", coqGCode(r.GCode))
	case "ok":
		return vf.CoqApp("OOk", coqGCode(r.GCode))
	case "abort":
		return "OGAbort"
	}

	return "(OGOtherKind " + vf.CoqStr(r.Kind) + ")"
}

func coqCase(c c12Case, o obs) string {
	cfg := vf.CoqApp("mkcfg", vf.CoqBool(c.R.Verbose), vf.CoqZ(int64(c.R.Authn)), vf.CoqZ(int64(c.R.Authz)),
		vf.CoqZ(int64(c.R.Comm)), vf.CoqZ(int64(c.R.Precond)), vf.CoqZ(int64(c.R.NoRule)), vf.CoqZ(int64(c.R.Internal)))
	or := vf.CoqApp("mkor", coqMedia(o.Or.NegHTTP), coqMedia(o.Or.NegGRPC), vf.CoqBool(o.Or.JSON), vf.CoqBool(o.Or.XML),
		vf.CoqBool(o.Or.Plain))

	var sc string

	switch c.Sc.T {
	case "error":
		sc = "SError"
	case "handled":
		m := c.Sc.M

		switch m.T {
		case "default":
			sc = "(SHandled MDefault)"
		case "redirect":
			to := "(Some " + vf.CoqStr(m.To) + ")"
			if m.Fails {
				to = "None"
			}

			sc = "(SHandled " + vf.CoqApp("MRedirect", vf.CoqZ(int64(m.Code)), to) + ")"
		default:
			sc = "(SHandled " + vf.CoqApp("MWWW", vf.CoqStr(m.Realm)) + ")"
		}
	default:
		sc = "(SPanic " + vf.CoqBool(c.Sc.PanicErr) + ")"
	}

	as := "None"
	if o.AsOK {
		as = "(Some " + vf.CoqPair(vf.CoqZ(int64(o.AsCode)), vf.CoqStr(o.AsTo)) + ")"
	}

	return vf.CoqApp("mkcase", cfg, or, coqErr(c.E), sc, vf.CoqListOf(o.Is, vf.CoqBool), as,
		coqHTTP(o.HTTP), coqGRPC(o.GRPC), coqHTTP(o.Decision), coqHTTP(o.Proxy), coqGRPC(o.Envoy),
		vf.CoqListOf(o.Up, func(h [2]string) string { return vf.CoqPair(vf.CoqStr(h[0]), vf.CoqStr(h[1])) }),
		vf.CoqPair(vf.CoqZ(int64(c.Probe)), vf.CoqBool(o.ProbeOK)))
}

func tags(c c12Case, o obs) []string {
	t := []string{"scenario:" + c.Sc.T, fmt.Sprintf("depth:%d", depth(c.E)), fmt.Sprintf("verbose:%v", c.R.Verbose)}
	if c.Sc.M != nil {
		t = append(t, "mechanism:"+c.Sc.M.T)
	}

	kinds := map[string]bool{}
	kindsIn(c.E, kinds)
	t = append(t, fmt.Sprintf("kinds-in-tree:%d", len(kinds)))

	if o.HTTP.Kind == "http" {
		t = append(t, fmt.Sprintf("http-status:%d", o.HTTP.Status))
	} else {
		t = append(t, "http-status:panic")
	}

	if o.HTTP.CType != "" {
		t = append(t, "http-ctype:"+o.HTTP.CType)
	}

	if o.GRPC.CType != "" {
		t = append(t, "grpc-ctype:"+o.GRPC.CType)
	}

	if o.HTTP.CType != "" && o.GRPC.CType != "" && o.HTTP.CType != o.GRPC.CType {
		t = append(t, "F3:content-type-differs-http-vs-grpc")
	}

	if o.HTTP.Kind == "http" && o.GRPC.Kind == "denied" && o.HTTP.Body != o.GRPC.Body {
		t = append(t, "note:body-presence-differs-http-vs-grpc")
	}

	if o.Decision.Kind == "abort" {
		t = append(t, "stack:abort")
	}

	ov := 0

	for _, x := range []int{c.R.Authn, c.R.Authz, c.R.Comm, c.R.Precond, c.R.NoRule, c.R.Internal} {
		if x != 0 {
			ov++
		}
	}

	if ov > 0 {
		t = append(t, "overrides:some")
	} else {
		t = append(t, "overrides:none")
	}

	return t
}

// non-trivial: the tree mixes at least two different leaf kinds below at least one
// wrapper (so that precedence and the chain semantics matter), or the failure goes
// through an error handler mechanism, or something panics
func nontrivial(c c12Case) bool {
	kinds := map[string]bool{}
	kindsIn(c.E, kinds)

	return (len(kinds) >= 2 && depth(c.E) >= 2) || c.Sc.T != "error"
}

func TestVerifC12(t *testing.T) {
	w := vf.NewWriter()
	defer w.Close()

	root := vf.NewRand(vf.Seed())
	n := vf.N(600)
	idx := 0

	emit := func(stream string, c c12Case) {
		if vf.Want(idx) {
			o := run(c)
			w.Put(vf.Obs{I: idx, Stream: stream, In: c, Out: o, Coq: coqCase(c, o), Nontrivial: nontrivial(c), Tags: tags(c, o)})
		}

		idx++
	}

	for _, c := range corpus() {
		emit("corpus", c)
	}

	for i := 0; i < n; i++ {
		c := gen(root.Fork(uint64(i)))
		if c.R.Verbose && hasEmptyChain(c.E) {
			c.R.Verbose = false
		}

		emit("generated", c)
	}
}
