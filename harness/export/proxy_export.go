//go:build verif

package proxy

// Thin export of the unexported service constructor for the verification
// drivers (injected with `go test -overlay`; not part of /repo).

import (
	"net/http"

	"github.com/rs/zerolog"

	"github.com/dadrus/heimdall/internal/cache"
	"github.com/dadrus/heimdall/internal/config"
	"github.com/dadrus/heimdall/internal/rules/rule"
)

func VerifNewService(conf *config.Configuration, cch cache.Cache, log zerolog.Logger, exec rule.Executor) *http.Server {
	return newService(conf, cch, log, exec)
}
