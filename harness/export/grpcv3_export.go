//go:build verif

package grpcv3

// Thin export of the unexported service constructor for the verification
// drivers (injected with `go test -overlay`; not part of /repo).

import (
	"github.com/rs/zerolog"
	"google.golang.org/grpc"

	"github.com/dadrus/heimdall/internal/cache"
	"github.com/dadrus/heimdall/internal/config"
	"github.com/dadrus/heimdall/internal/rules/rule"
)

func VerifNewService(conf *config.Configuration, cch cache.Cache, log zerolog.Logger, exec rule.Executor) *grpc.Server {
	return newService(conf, cch, log, exec)
}
