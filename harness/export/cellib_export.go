//go:build verif

package cellib

// Thin export for the verification drivers (injected with `go test -overlay`;
// not part of /repo): a CompiledExpression around a given cel.Program, so that
// the real CompiledExpression.Eval and the real celExecutionCondition can be
// run on programs whose result (true / false / an error value / a panic) is
// data of the generated case.

import "github.com/google/cel-go/cel"

func VerifCompiledExpression(p cel.Program, msg string) *CompiledExpression {
	return &CompiledExpression{p: p, msg: msg}
}
