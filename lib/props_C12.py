"""C12 check configuration (see lib/runner.py for the meaning of the keys)."""
import os

# which repairs the tree under test is expected to contain: "<fixes/C12-F1.diff> <fixes/C12-F4.diff>" (Coq booleans).
# Default = /repo as it is; VERIF_C12_FX="true true" runs the check against a tree with both diffs applied.
_FX = os.environ.get("VERIF_C12_FX", "false false")

P = {
    "id": "C12",
    "coq_targets": ["Properties/C12.vo", "Run/Eval_C12.vo"],
    "theorems_module": "Properties.C12",
    "theorems": ["C12_errors_is_as_leaves", "C12_kind_table", "C12_same_status", "C12_translators_meet_spec", "C12_F2_refuted",
                 "C12_never_success", "C12_never_success_stack", "C12_success_override_possible",
                 "C12_body_only_if_verbose", "C12_redirect_has_location",
                 "C12_entry_points_meet_spec", "C12_entry_points_inside_guards", "C12_handlers_never_swallow",
                 "C12_www_authenticate_challenge", "C12_redirect_handler_code_is_3xx",
                 "C12_F1_refuted", "C12_F1_header_never_written", "C12_F4_refuted",
                 "C12_stack_extends_model", "C12_eval_sound", "C12_nonvacuous", "C12_nonvacuous_entry"],
    "streams": [{
        "name": "translate", "pkg": "./internal/zzverif/c12", "test": "TestVerifC12",
        "overlay": {
            "internal/zzverif/c12/c12_test.go": "c12/c12_test.go",
            "internal/rules/zz_verif_c12_export.go": "c12/rules_export.go",
            "internal/handler/decision/zz_verif_export.go": "export/decision_export.go",
            "internal/handler/proxy/zz_verif_export.go": "export/proxy_export.go",
            "internal/handler/envoyextauth/grpcv3/zz_verif_export.go": "export/grpcv3_export.go",
        },
        "eval_module": "Run.Eval_C12", "check_term": "check (mkfx %s)" % _FX,
        "n_quick": 1500, "n_thorough": 40000, "findings": {1: "C12-F1", 2: "C12-F2", 4: "C12-F4"}, "shard": 200,
    }],
    "rule": "respond configuration (verbose, six override codes incl. 0, 1xx/2xx, negative and >999) x Accept header (absent, "
            "wildcards, q-values, malformed) x error tree of depth <= 6, fan-out <= 4 built from real values (8 heimdall sentinels, "
            "other sentinels, *RedirectError, a real *cellib.EvalError, four foreign leaf types, fmt.Errorf %w / custom Unwrap, "
            "errors.Join / multi-%w / custom Unwrap() []error, errorchain.ErrorChain with and without (adversarial) context) x "
            "scenario (error returned by the executor | handled by a REAL default/redirect (fixed or request-dependent target rendering nothing / blanks / a URL)/www_authenticate mechanism | panic with "
            "error or string value); observed: errors.Is for 10 targets, errors.As, both real translators, the three real service "
            "stacks, what the mechanism hands to ctx.AddHeaderForUpstream; non-trivial = the tree mixes >= 2 leaf kinds below a wrapper, or the scenario is not a plain error; "
            "distinct by hash of the generated input",
    "anchors": ["internal/handler/middleware/http/errorhandler/error_handler.go",
                "internal/handler/middleware/http/errorhandler/options.go",
                "internal/handler/middleware/http/errorhandler/defaults.go",
                "internal/handler/middleware/http/errorhandler/formatter.go",
                "internal/handler/middleware/grpc/errorhandler/interceptor.go",
                "internal/handler/middleware/grpc/errorhandler/options.go",
                "internal/handler/middleware/grpc/errorhandler/defaults.go",
                "internal/handler/middleware/grpc/errorhandler/error_response.go",
                "internal/heimdall/errors.go", "internal/x/errorchain/error_chain.go",
                "internal/rules/mechanisms/cellib/expression.go",
                "internal/rules/mechanisms/errorhandlers/www_authenticate_error_handler.go",
                "internal/rules/mechanisms/errorhandlers/redirect_error_handler.go",
                "internal/rules/mechanisms/errorhandlers/default_error_handler.go",
                "internal/handler/decision/request_context.go", "internal/handler/decision/service.go",
                "internal/handler/proxy/request_context.go", "internal/handler/proxy/service.go",
                "internal/handler/envoyextauth/grpcv3/service.go", "internal/handler/envoyextauth/grpcv3/handler.go",
                "internal/handler/envoyextauth/grpcv3/request_context.go",
                "internal/handler/middleware/http/recovery/handler.go", "internal/handler/service/handler.go"],
    "trusted": ["content negotiation (elnormous/contenttype) is an oracle: its answer for the case's Accept header against each "
                "translator's media type list (the driver's copy of the two lists, in the translators' order) is data of the case",
                "body rendering (goccy/go-json, encoding/xml, Error()) is an oracle: only 'rendered body non-empty' per media type, "
                "observed on the very error value",
                "Go's errors.Is/errors.As are modelled (Base/ErrChain.v) and compared with the real functions on every generated tree",
                "net/http below the ResponseWriter: observed on httptest.ResponseRecorder; a panic that escapes the recovery "
                "middleware is observed as a panic of Handler.ServeHTTP (a real server drops the connection)",
                "whether a body is well-formed for its Content-Type is judged by the driver (stacks.WellFormed: json.Valid, encoding/xml "
                "tokeniser, <p>..</p>, anything for text/plain)",
                "shared driver helper harness/stacks (request construction, in-memory gRPC listener, canonicalisation of responses)"],
    "level_text": "Proof (kernel-checked, no axioms) over error values of arbitrary shape and nesting that both error translators "
                  "compute the same class by the precedence authentication > authorization > communication/timeout > precondition > "
                  "no rule > redirect > internal, answer with that kind's status or override (401/403/502/400/404/redirect code/500), "
                  "agree with each other outside finding C12-F2, never answer with a 1xx/2xx status or gRPC OK when no override/redirect "
                  "code is one, put details in the body only when verbose and in the negotiated type, give redirects their Location, "
                  "and that no error handler mechanism or panic leads to a positive answer on any entry point; the model is tied to the "
                  "code by running errors.Is/As, both real translators and the three complete real service stacks (real error handler "
                  "mechanisms) on ~1500 (quick) / 40000 (thorough) generated error trees x configurations per run.",
    "level_note": "Trusted: Coq kernel/vm_compute; the correspondence harness; content negotiation and body rendering are oracles "
                  "(observed answers of the real libraries on the case's inputs). Hypotheses of never-success are explicit: no status "
                  "override and no redirect code in 100..299 (the configuration schema and the redirect handler factory accept any "
                  "integer, see C12_success_override_possible). Open findings: C12-F1 (www_authenticate answers carry no "
                  "WWW-Authenticate header; the header theorem is proved outside its guard, C12_F1_refuted/C12_F1_header_never_written "
                  "document it; a candidate repair is in fixes/C12-F1.diff, the model is parametric in it: "
                  "C12_www_authenticate_has_header_fixed holds without guard for the repaired variant), C12-F2 (codes outside 100..999 split HTTP and gRPC). C12-F3 (different media type preference orders of "
                  "the two translators) is reported in the input histogram only.",
    "assumptions": ["status codes fit in int32 (envoy's StatusCode); 1xx overrides are observed on httptest.ResponseRecorder (a real "
                    "net/http server would send them as informational responses followed by an implicit 200, which is why the "
                    "never-success hypothesis excludes 100..299, not only 2xx)",
                    "error values are finite trees of the modelled shapes; typed-nil *RedirectError values, nil chain elements and "
                    "foreign types with their own Is/As methods are outside the model (none is produced by heimdall's code)",
                    "never-success is conditional: overrides and redirect codes outside 100..299"],
}
