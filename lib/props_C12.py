"""C12 check configuration (see lib/runner.py for the meaning of the keys)."""
import os

# which repairs the tree under test is expected to contain: "<fixes/C12-F1.diff> <fixes/C12-F4.diff>" (Coq booleans).
# Default = /repo as it is (C12-F4 repaired by ed62adc, C12-F1 open); VERIF_C12_FX="true true" runs the check against a tree
# with fixes/C12-F1.diff applied as well, "false false" expects the tree before ed62adc.
_FX = os.environ.get("VERIF_C12_FX", "false true")

def _generated_samples():
    """two generated, non-trivial cases for the evidence (runner's `samples` shows corpus cases, which come first)"""
    import json
    import vf
    path = os.path.join(vf.OUT, "C12", "obs_translate.jsonl")
    out = []
    try:
        with open(path) as f:
            for line in f:
                o = json.loads(line)
                if o.get("stream") == "generated" and o.get("nontrivial"):
                    out.append({"in": o["in"], "obs": {k: o["obs"][k] for k in ("decision", "proxy", "envoy", "oracle")}})
                    if len(out) == 2:
                        break
    except (OSError, ValueError, KeyError):
        pass
    return {"generated_samples": out}


P = {
    "id": "C12",
    "coq_targets": ["Properties/C12.vo", "Run/Eval_C12.vo"],
    "theorems_module": "Properties.C12",
    "theorems": ["C12_errors_is_as_leaves", "C12_kind_table", "C12_same_status", "C12_translators_meet_spec", "C12_F2_refuted", "C12_F5_refuted",
                 "C12_never_success", "C12_never_success_stack", "C12_success_override_possible",
                 "C12_body_only_if_verbose", "C12_redirect_has_location",
                 "C12_entry_points_meet_spec", "C12_entry_points_meet_spec_as_is", "C12_entry_points_inside_guards", "C12_handlers_never_swallow",
                 "C12_www_authenticate_challenge", "C12_redirect_handler_code_is_3xx",
                 "C12_F1_refuted", "C12_F1_header_never_written", "C12_F4_pinned_refuted",
                 "C12_stack_extends_model", "C12_eval_sound", "C12_nonvacuous", "C12_nonvacuous_entry"],
    "streams": [{
        "name": "translate", "pkg": "./internal/zzverif/c12", "test": "TestVerifC12",
        "overlay": {
            "internal/zzverif/c12/c12_test.go": "c12/c12_test.go",
            "internal/rules/zz_verif_c12_export.go": "c12/rules_export.go",
            "internal/handler/decision/zz_verif_export.go": "export/decision_export.go",
            "internal/handler/proxy/zz_verif_export.go": "export/proxy_export.go",
            "internal/handler/envoyextauth/grpcv3/zz_verif_export.go": "export/grpcv3_export.go",
        },
        "eval_module": "Run.Eval_C12", "check_term": "check (mkfx %s)" % _FX,
        "n_quick": 1500, "n_thorough": 20000, "findings": {1: "C12-F1", 2: "C12-F2", 5: "C12-F5"}, "shard": 200,
    }],
    "rule": "respond configuration (verbose, six override codes incl. 0, 1xx/2xx, negative and >999; 12 % written to a configuration file "
            "under the documented names and loaded by config.NewConfiguration, else put into the struct) x request (method GET/POST/HEAD/OPTIONS/"
            "PUT/DELETE/PATCH/PROPFIND, 8 paths, 4 peers incl. loopback, 0-2 extra headers, request context live / cancelled before / cancelled while "
            "the pipeline runs / deadline exceeded (22 %, then mostly with context.Canceled / DeadlineExceeded / *url.Error in the chain), "
            "no / one / two Accept lines: wildcards, q-values, "
            "malformed, nothing acceptable) x error tree of depth <= 6 before up to two wrapping levels (context cause, file precondition case), fan-out <= 4, built from real values (8 heimdall sentinels, other "
            "sentinels, *RedirectError incl. odd codes, a real *cellib.EvalError, 12 foreign leaf flavours incl. context.Canceled / "
            "DeadlineExceeded, io.EOF, syscall.ENOENT, *url.Error, *net.OpError, a type with HTTPStatus()/Timeout()/own Is, a struct with "
            "Code/StatusCode fields; fmt.Errorf %w / custom Unwrap, errors.Join / multi-%w / custom Unwrap() []error, errorchain.ErrorChain with "
            "4 kinds of (adversarial) contexts) x scenario (error returned by the executor | a REAL ruleImpl whose authenticator fails and whose "
            "error_handler list has 1-3 entries: real conditionalErrorHandler (no if / CEL true / CEL false) around REAL default / redirect "
            "(fixed or request-dependent target rendering nothing / blanks / a URL, or failing to render) / www_authenticate mechanisms after "
            "WithConfig(nil | {} | {realm}) | panic with error or string value | proxy only: no upstream, upstream closes the connection, "
            "upstream stalls past the read timeout); observed: errors.Is for the classes of the switch, errors.As, both real translators, the "
            "three real service stacks (status, Location, WWW-Authenticate, Content-Type, body, well-formedness, and whether any text of the "
            "failure shows in the body, ANY header value or the gRPC status message), what the mechanisms hand to "
            "ctx.AddHeaderForUpstream(WWW-Authenticate), a redirect handler creation probe; non-trivial = the tree mixes >= 2 leaf kinds below "
            "a wrapper, or the failure goes through a handler list, a panic or the proxy's Finalize; distinct by hash of the generated input",
    "anchors": ["internal/handler/middleware/http/errorhandler/error_handler.go",
                "internal/handler/middleware/http/errorhandler/options.go",
                "internal/handler/middleware/http/errorhandler/defaults.go",
                "internal/handler/middleware/http/errorhandler/formatter.go",
                "internal/handler/middleware/grpc/errorhandler/interceptor.go",
                "internal/handler/middleware/grpc/errorhandler/options.go",
                "internal/handler/middleware/grpc/errorhandler/defaults.go",
                "internal/handler/middleware/grpc/errorhandler/error_response.go",
                "internal/heimdall/errors.go", "internal/x/errorchain/error_chain.go",
                "internal/rules/mechanisms/cellib/expression.go",
                "internal/rules/mechanisms/errorhandlers/www_authenticate_error_handler.go",
                "internal/rules/mechanisms/errorhandlers/redirect_error_handler.go",
                "internal/rules/mechanisms/errorhandlers/default_error_handler.go",
                "internal/handler/decision/request_context.go", "internal/handler/decision/service.go",
                "internal/handler/proxy/request_context.go", "internal/handler/proxy/service.go",
                "internal/handler/envoyextauth/grpcv3/service.go", "internal/handler/envoyextauth/grpcv3/handler.go",
                "internal/handler/envoyextauth/grpcv3/request_context.go",
                "internal/handler/middleware/http/recovery/handler.go", "internal/handler/service/handler.go",
                "internal/rules/composite_error_handler.go", "internal/rules/conditional_error_handler.go", "internal/rules/rule_impl.go",
                "internal/config/serve.go"],
    "trusted": ["content negotiation (elnormous/contenttype) is an oracle in two roles: (model) the type the real translator itself negotiates "
                "for the request, observed on a verbose probe failure through the public API (so a server-side order of preference is not "
                "part of the model); (specification) what the Accept header admits = the most preferred acceptable types by pairwise calls "
                "of the library on 2-element lists (all acceptable ones when there are two Accept lines; no constraint for an absent, empty "
                "or malformed header or when none of the types is acceptable — the gRPC text/html fallback is pinned by heimdall's own "
                "unit test and not counted against the statement)",
                "body rendering (goccy/go-json, encoding/xml, Error()) is an oracle: only 'rendered body non-empty' per media type, "
                "observed on the very error value; errors heimdall creates itself on these paths are assumed to render non-empty",
                "'error details' are recognised by the driver as: a message of a leaf / chain / context of the case's error tree or one of "
                "heimdall's own failure texts (>= 5 characters, 'internal error' excluded) occurring in the body, a header value or the "
                "gRPC status message",
                "whether a body is well-formed for its Content-Type is judged by the driver (json.Valid, encoding/xml tokeniser with a root "
                "element; anything for text/html, text/plain and unknown types; a body without Content-Type is ill-formed)",
                "Go's errors.Is/errors.As are modelled (Base/ErrChain.v) and compared with the real functions on every generated tree, "
                "for the six questions the translators ask",
                "net/http below the ResponseWriter: observed on httptest.ResponseRecorder (headers as of WriteHeader); a panic that escapes "
                "the recovery middleware is observed as a panic of Handler.ServeHTTP (a real server drops the connection)",
                "harness/c12/rules_export.go builds the ruleImpl / compositeErrorHandler / conditionalErrorHandler values the way "
                "rule_factory_impl.go createOnErrorPipeline does (the factory itself is C01/C14/C19 material)"],
    "level_text": "Proof (kernel-checked, no axioms) against a specification that uses no function of the model except the range test "
                  "valid_code (100..999) and equality of media types (C12/Spec.v): for error values of "
                  "arbitrary shape and nesting, all override codes, verbose on/off, every Accept view, every list of conditional default / "
                  "redirect / www_authenticate error handlers with rule-level configuration, panics, the proxy's own Finalize failures and "
                  "both configuration sources, every answer of the decision service, the proxy service and the Envoy gRPC service is the "
                  "response of the failure's kind by the precedence authentication > authorization > communication/timeout > precondition "
                  "> no rule > redirect > internal (401/403/502/400/404/redirect code + Location/500 or the kind's override), with the same "
                  "status and Location on the three entry points whenever each of them produces an HTTP-level answer (a panic is answered "
                  "with 500 / the status of the panic value's kind by the HTTP services and with a gRPC status error Internal by the Envoy "
                  "service; WWW-Authenticate, Content-Type and body presence are not part of 'identical'), never a 1xx/2xx status or gRPC OK when no override/redirect code is one, with details only when "
                  "verbose, in a type the Accept header admits, and — only for the model variant with the candidate repair of C12-F1; for "
                  "/repo as it is this clause is refuted (C12_F1_refuted), not proved — a WWW-Authenticate header naming the "
                  "configured realm; all this outside the guards of C12-F1/F2/F5, and INSIDE them every clause but the one the finding breaks "
                  "(C12_entry_points_inside_guards); the evaluator of the correspondence run is proved sound for these theorems "
                  "(C12_eval_sound). The model is tied to the code by running errors.Is/As, both real translators and the three complete "
                  "real service stacks around a real rule with real error handler mechanisms on ~1500 (quick) / 20000 (thorough) generated "
                  "cases per run; the property predicate of the run is the specification applied to the implementation's observations.",
    "level_note": "Trusted: Coq kernel/vm_compute; the correspondence harness; content negotiation, body rendering, detail recognition and "
                  "well-formedness are oracles (observed answers of the real libraries / driver judgements on the case's inputs). Hypotheses "
                  "of never-success are explicit: no status override and no redirect code in 100..299 (the configuration accepts any integer "
                  "and heimdall's own unit tests configure 100 Continue: 'or the status configured for that kind' is the operator's choice, "
                  "see C12_success_override_possible; the redirect handler factory restricts codes to 300..399 since 6c5864d). Open findings: "
                  "C12-F1 (www_authenticate answers carry no WWW-Authenticate header; candidate repair fixes/C12-F1.diff, the model is "
                  "parametric in it and VERIF_C12_FX='true true' runs the check against a repaired tree), C12-F2 (overrides outside 100..999 "
                  "split HTTP and gRPC; expected behaviour defined: such an override is ignored, so a repair shows as 'finding not "
                  "reproduced'), C12-F5 (latent: hand-built RedirectError values with such codes, unreachable from heimdall's mechanisms). The fx1 = true "
                  "variant of the model was compared with a tree carrying fixes/C12-F1.diff once by the builder (scratch tree at 8647e06) and "
                  "is not exercised by the delivered runs, which run `check (mkfx false true)`. Fixed: "
                  "C12-F4 (ed62adc, precondition_error override from a configuration file; pinned behaviour kept as "
                  "C12_F4_pinned_refuted). C12-F3 (different media type preference orders of the two translators, gRPC text/html "
                  "fallback and, as a consequence, different body presence under verbose responses when the HTTP negotiation fails: about "
                  "11 % of the cases, tag note:body-presence-differs-http-vs-grpc) is not a finding and neither is counted against "
                  "'identically': reported in the input histogram only. A rule-level `{realm: \"\"}` makes 'naming the configured realm' "
                  "vacuous (every challenge contains the empty string). The state of the request context (cancelled / deadline exceeded) is "
                  "varied for both translators and the two HTTP stacks; the Envoy stack is always driven with a live context (a cancelled "
                  "gRPC call returns nothing to observe). Not covered: http.Server-level behaviour (HEAD body "
                  "stripping, informational responses), message texts and body contents beyond emptiness / well-formedness / detail tokens, "
                  "conditions that themselves fail, typed-nil and empty-chain error values.",
    "extra_coverage": _generated_samples,
    "assumptions": ["status codes fit in int32 (envoy's StatusCode); 1xx overrides are observed on httptest.ResponseRecorder (a real "
                    "net/http server would send them as informational responses followed by an implicit 200, which is why the "
                    "never-success hypothesis excludes 100..299, not only 2xx)",
                    "error values are finite trees of the modelled shapes; typed-nil *RedirectError values, nil chain elements, foreign "
                    "types whose Is/As methods answer for heimdall's sentinels, and the zero-value &errorchain.ErrorChain{} under verbose "
                    "responses (its MarshalJSON dereferences the nil head; it cannot be built through the package's API) are outside the "
                    "model (none is produced by heimdall's code)",
                    "never-success is conditional: overrides and redirect codes outside 100..299",
                    "a rule-level `config` of a redirect or default error handler is empty (anything else is rejected when the rule is loaded); "
                    "`if` conditions evaluate to true or false (a condition that fails is C01 material)"],
}
