"""C11 check configuration (see lib/runner.py for the meaning of the keys)."""

OVERLAY = {"internal/rules/mechanisms/zz_verif_c11_test.go": "c11/c11_test.go",
           "internal/rules/mechanisms/zz_verif_c11_keys_test.go": "c11/c11_keys_test.go"}

def _drift():
    """layout drift report (never a verdict): on the first 80 cases of each stream, are the observed keys byte for byte the
    ones of the modelled pre-image layout?  The check itself compares keys only up to renaming."""
    import os
    import vf
    res = {}
    for name, term in (("histories", "drift fx_all6"), ("keys", "drift2 true true true")):
        try:
            obs = vf.read_obs(os.path.join(vf.OUT, "C11", "obs_%s.jsonl" % name))[:80]
            if not obs:
                res[name] = "no observations"
                continue
            rows, sh, ok, _ = vf.eval_cases("C11", "Run.Eval_C11", term, [o["coq"] for o in obs], shard_size=40)
            res[name] = {"cases": len(obs), "key_bytes_differ_from_modelled_layout": sum(1 for r in rows.values() if not r[0])} \
                if ok == sh else "evaluation failed"
        except Exception as ex:  # a report only
            res[name] = "failed: %s" % ex
    return {"key_layout_drift": res}


P = {
    "id": "C11",
    "claimed": True,
    "extra_coverage": _drift,
    "coq_targets": ["Properties/C11.vo", "Run/Eval_C11.vo"],
    "theorems_module": "Properties.C11",
    "theorems": ["C11_no_boundary_shift", "C11_collision_needs_shift", "C11_F4_refuted", "C11_key_deterministic", "C11_F1_pinned_refuted",
                 "C11_key_injective", "C11_cache_transparent", "C11_cache_transparent_repaired", "C11_cache_transparent_repaired6", "C11_nonvacuous", "C11_nonvacuous_mixed",
                 "C11_identical_requests_hit", "C11_stored_entry_is_returned",
                 "C11_F2_pinned_refuted", "C11_F3_pinned_refuted", "C11_F4_history_refuted", "C11_F6_pinned_refuted", "C11_F7_refuted", "C11_F10_pinned_refuted",
                 "C11_cc_cache_transparent", "C11_cc_F4_refuted", "C11_jf_cache_transparent", "C11_F5_pinned_refuted",
                 "C11_hc_cache_transparent", "C11_hc_cache_transparent_repaired", "C11_F8_pinned_refuted", "C11_F9_pinned_refuted",
                 "C11_jk_cache_transparent", "C11_F11_pinned_refuted"],
    "streams": [{
        "name": "histories", "pkg": "./internal/rules/mechanisms", "test": "TestVerifC11",
        "overlay": OVERLAY, "eval_module": "Run.Eval_C11", "check_term": "check fx_all6",
        "n_quick": 450, "n_thorough": 6000, "shard": 44,
        "findings": {4: "C11-F4", 7: "C11-F7"},
    }, {
        "name": "keys", "pkg": "./internal/rules/mechanisms", "test": "TestVerifC11Keys",
        "overlay": OVERLAY, "eval_module": "Run.Eval_C11", "check_term": "check2 true true true",
        "n_quick": 300, "n_thorough": 3000, "shard": 56,
        "findings": {4: "C11-F4"},
    }],
    "rule": "stream histories: histories of 2 to 17 executions of REAL caching mechanisms (oauth2_introspection and generic authenticators, "
            "remote authorizer, generic contextualizer) created by the real mechanism factory from a generated prototype (0-3 endpoint "
            "headers, 0-3 values, api-key/basic/client-credentials auth strategies, templated URL/headers/payload, forwarded "
            "headers/cookies, response headers handed on to the upstream service (both header-name lists in canonical, lower and mixed "
            "case), session_lifespan, ttl unset/positive/0), optionally a "
            "rule-level reconfiguration (scope and audience assertions, expressions, payload, values, ttl, forwarded names) and a "
            "near-copy sibling prototype (different id; id/payload, header name/value, api-key, basic-auth, client-credential fields "
            "shifted across their boundaries; url, method, payload, forwarded names, session lifespan changed); about a third of the histories mix "
            "up to four kinds of mechanisms on the one shared cache (mixing is attempted in 40%); subject ids, tokens, header values and outputs come in different "
            "lengths; each step is derived from an earlier one as identical / other instance / one request component changed (subject, "
            "attribute, each referenced header, cookie, output, credential) / two values shifted against each other / a pair for a derivation with OPTIONAL components (two forwarded headers "
            "or cookies, two values): the second absent and the first value absorbing its name and value, or both present with the name "
            "moved across the boundary, and every further "
            "instance of a history is used at least twice, and in 45% of the histories the first look-ups are repeated at the end, "
            "after later ones have stored their entries (A B A, A B C A B; subjects, values and tokens of EQUAL length are in the "
            "pools too, so that serialised entries are equally long); every history runs against one shared cache - the REAL in-memory "
            "backend (internal/cache/memory, keeps the slices it is given) behind a wrapper that records the look-ups -, again without cache, "
            "and one step 20 times against empty caches (map order); a local httptest server plays the remote systems and echoes what "
            "it receives. Observed per step: key looked up, hit, remote calls, decision (allow with the echoed request / subject / "
            "scopes / audience / active flag, or refusal) and the headers handed on to the upstream service, with and without cache. "
            "Stream keys: histories of the client-credentials token cache (components changed one at a time, scopes and "
            "id|secret shifted), of the jwt finalizer with key-store reloads (same / new key id, failing reload), of the jwt "
            "authenticator's key cache (templated or literal JWKS URL, three issuers sharing a key id, honest and forged issuer claims, "
            "other signer, unknown key id; real ES256 signatures) and of the RFC 7234 cache of an endpoint (GET/POST, payload, Vary "
            "none/X-User/X-Other/both, max-age/no-store). Corpora (endpoint-component and client-credential probes, "
            "finding-free histories, the witnesses of every open and fixed finding incl. the audience variant of F2, the witness of "
            "seeded change C05-1) first. Non-trivial = at least two cache look-ups in "
            "the history; distinct by hash of the generated input (test-server port masked).",
    "anchors": ["internal/rules/endpoint/endpoint.go", "internal/rules/mechanisms/authorizers/remote_authorizer.go",
                "internal/rules/mechanisms/contextualizers/generic_contextualizer.go",
                "internal/rules/mechanisms/authenticators/generic_authenticator.go",
                "internal/rules/mechanisms/authenticators/oauth2_introspection_authenticator.go",
                "internal/rules/mechanisms/finalizers/jwt_finalizer.go", "internal/rules/mechanisms/finalizers/jwt_signer.go",
                "internal/rules/oauth2/clientcredentials/clientcredentials.go", "internal/rules/mechanisms/subject/subject.go",
                "internal/rules/mechanisms/template/template.go", "internal/rules/endpoint/authstrategy/api_key.go",
                "internal/rules/endpoint/authstrategy/basic_auth.go", "internal/httpcache/round_tripper.go",
                "internal/rules/mechanisms/authenticators/jwt_authenticator.go",
                "internal/rules/endpoint/authstrategy/client_credentials.go", "internal/cache/memory/cache.go"],
    "trusted": [
        "SHA-256 is a parameter H of the model; in the correspondence run it is the table pre-image -> digest computed by the real "
        "crypto/sha256 on pre-images the driver proposes (a missing entry makes the correspondence fail); theorems that need keys to "
        "differ assume `injective H` explicitly",
        "Go's map iteration order is an oracle: the permutation that explains the observed key is found by the driver and checked "
        "by the evaluator to be a permutation of the configured map",
        "json.Marshal of the subject is an oracle (the JSON text is case data); text/template is modelled on the fragment literal / "
        ".Subject.ID / .Values.x / .Outputs.x / .Request.Header \"x\" / .AuthenticationData and checked against the real renderer on it",
        "the remote systems are the harness's echo server (deterministic function of the request it receives and of two tables of "
        "the case); CEL expressions are restricted to true/false/(in)equality on the echoed body and url",
        "the driver mirrors WithConfig's merge to compute the effective configuration of a rule-level instance (a mismatch shows "
        "as a correspondence failure, so a harmless change of the merge rules ends as `correspondence differs`)",
        "keys are compared up to renaming within a case (which look-ups share a key); whether the observed key bytes are those of the "
        "modelled pre-image layout is reported as key_layout_drift under extra_coverage and is not a verdict",
        "the cache is the real in-memory backend (ttlcache, no copying of stored slices) behind a recording wrapper, never started "
        "(no expiry goroutine); the redis backend is not exercised; whether a buffer reused through sync.Pool really comes back "
        "depends on the Go scheduler (same goroutine, no GC in between: observed in every run so far)",
        "stream keys: ES256 signature verification, JWK thumbprints and the RFC 7234 response parser (cachecontrol) are oracles "
        "(which key verifies a token / thumbprint bytes / 'storable' are case data); the harness's servers are honest about Vary",
    ],
    "level_text": "Proof (kernel-checked, no axioms) about a byte-exact model of the key derivations (Endpoint.Hash, strategy and "
                  "subject hashes, calculateCacheKey of introspection / generic authenticator / remote authorizer / generic "
                  "contextualizer / jwt authenticator key cache / jwt finalizer / client credentials / RFC 7234 cache, each with the "
                  "ttl bytes of 8647e06) and of their look-up/validate/store logic: pre-images are injective on their writes unless two "
                  "writes differ in length (no boundary shifting); keys do not depend on map iteration order; equal keys imply equal "
                  "key components for well-formed instances (key injectivity, SHA-256 assumed collision-free; the forwarded values "
                  "and the authenticator's payload template, in the keys since 0b950ef, are handled by lemma fx6_no_F6 instead of the "
                  "component record); for ALL well-formed histories (sorted maps, templates that can be read back from their text, equal "
                  "subject JSON only for equal subject ids), instances (of all four kinds mixed on one cache), requests and iteration orders on which no guard of an open "
                  "finding fires, every outcome with the cache equals the outcome of a fresh evaluation under the instance's own "
                  "policy (cache transparency, also for the token caches, the key cache with forged issuer claims and with keys that "
                  "fail validation, and the finalizer across key-store reloads); an identical request after an allowed one is answered "
                  "without a remote call (proved for the four pipeline mechanisms; for the token, finalizer, key and RFC 7234 caches "
                  "checked on the runs only), and what a look-up stores is what every later look-up of that key receives after any "
                  "sequence of other look-ups and stores (C11_stored_entry_is_returned is an invariant of the model's association "
                  "list, true by construction; its content is that the REAL in-memory backend agrees with it on the A B A / A B C A B "
                  "histories of every caching mechanism). The guard of F4 is exact (equal pre-image bytes of different writes), the guard of F7 fires "
                  "only for two look-ups that share a key (it is not exact: it also fires when the outputs differ in an output the "
                  "endpoint templates do not read); two proved witnesses (one kind; three kinds with values of different lengths; neither "
                  "contains a contextualizer or forwarded headers, and the token / finalizer / RFC 7234 / key-cache theorems have no "
                  "witness of their own - their hypotheses are boolean tests that hold on the empty history) show the hypotheses of the "
                  "main theorem are satisfiable. Every open finding (F4, F7) has a guard and a proved witness about the code as it is "
                  "(C11_F4_refuted, C11_F4_history_refuted, C11_cc_F4_refuted, C11_F7_refuted; fx_all6); the nine repaired ones (F1, F2, F3, "
                  "F5, F6, F8, F9, F10, F11) are model switches with the behaviour before the commit kept as C11_Fn_pinned_refuted. C11_cache_transparent_repaired6 is the statement about the "
                  "code as it is: since 0b950ef the keys of the generic contextualizer and the generic authenticator cover the forwarded "
                  "headers and cookies with their values (the authenticator's also its payload template), so no F6 hypothesis is left; "
                  "its F4 guard also covers the two new digests over forwarded names and values. The model is "
                  "tied to the code by running 450+300 (quick) / 6000+3000 (thorough) generated histories per run through the real "
                  "mechanisms with a recording cache and comparing inside Coq which look-ups share a key, hits, remote call counts, "
                  "decisions and upstream headers; the property verdict compares what the real code returned with the cache against "
                  "what the real code returned without it, not against the model.",
    "level_note": "Trusted: Coq kernel/vm_compute; the correspondence harness (generator, echo/token/JWKS servers, recording cache, "
                  "rendering); SHA-256 as a parameter (observed digests; injectivity assumed only where stated); map order, "
                  "json.Marshal, JWK thumbprints, the RFC 7234 parser, the template fragment and the CEL fragment as listed. Open "
                  "findings observed on every run (corpus): C11-F4 (delimiter-less concatenation; the defect sits at 16 sites: the 14 key/hash derivations "
                  "plus the two forwardedHash helpers added by 0b950ef; the repair candidate fixes/C11-F4.diff was made against 4a30678, "
                  "no longer applies to HEAD and does not cover the latter two; not applied because it is not small), F7 (.Outputs in endpoint templates not in key; no repair without editing "
                  "a unit test that pins the key). Fixed and modelled as "
                  "switches: F1 9b4883e, F2 deaddf0, F3 abe584c, F5 d9caf75, F8 and F9 12fdf68 (httpcache: only GET/HEAD looked up and "
                  "stored, no response with Vary stored), F10 abc25e7 (session lifespan asserted on a hit), F11 d20d7cd (a cached JWK "
                  "that fails validation is ignored and fetched again), F6 0b950ef (forwarded header/cookie names and values, and the "
                  "generic authenticator's payload template, are part of the keys). Not covered: the claims template of the jwt finalizer beyond "
                  ".Subject.ID/.Outputs, http_message_signatures' hash, introspection via metadata_endpoint, issuer and time-validity assertions, JWT-shaped "
                  "introspection tokens, .Request.* beyond headers and .Subject.Attributes in templates, templated headers of the JWKS "
                  "endpoint (rendered into the key since 4a30678; the key-cache model has literal headers only), httpcache methods other "
                  "than GET/HEAD/POST, the redis cache backend. Cross-kind key collisions on one URL are not generated (the kinds sit on "
                  "different paths of the test server); in the theorems such a pair falls under the exact F4 guard on the key pre-images. "
                  "That keys do not depend on 'any other incidental nondeterminism' (json.Marshal of subject and outputs) is an oracle, "
                  "not a theorem. Aliasing of stored "
                  "entries through sync.Pool'ed buffers is caught on the in-memory backend but depends on the scheduler handing the buffer back.",
    "assumptions": [
        "time is not modelled: all look-ups of a history happen within the TTL (expiry is C10)",
        "the remote system is a deterministic function of the request it receives (what 'a fresh evaluation would yield' means)",
        "credentials, header values and template literals are printable ASCII without URL-special characters",
        "wf_history (hypothesis of the transparency theorems): endpoint headers and values sorted by name, url / header / payload "
        "templates well-formed (no empty or adjacent literals, no brace in a literal), json_faithful (equal subject JSON implies "
        "equal subject id)",
        "C11_jf_cache_transparent: jf_faithful (template text, subject JSON and outputs JSON determine their sources) and, with fx5, "
        "thumbs_faithful (distinct signing keys have distinct thumbprints)",
        "the two non-vacuity theorems assume String.length (H x) = 32 (C11_nonvacuous_mixed also injective H)",
    ],
}
