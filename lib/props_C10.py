"""C10 check configuration (see lib/runner.py for the meaning of the keys)."""

import os

# which of the repairs of C10-F1..F5 (637ae67, c971513, e0dc5e2, a3cbbb3, 8647e06) the tree under test contains ("1" = present).
# Default 11111 = /repo as it is now.  VERIF_C10_FIXED=00000 selects the model of the originally pinned code (for experiments against
# an old checkout only: with the findings recorded as fixed, its defect behaviour is then reported as VIOLATION, as it should be; with
# digit 2 or 4 = 0 the guards 2 / 4 of the evaluator fire on EVERY http case, i.e. on such a tree all http cases are exempted).
_FIXED = (os.environ.get("VERIF_C10_FIXED", "11111") + "11111")[:5]
_CHECK = "check (mkfx %s)" % " ".join("true" if d == "1" else "false" for d in _FIXED)

OVERLAY = {
    "internal/zzverif/c10/c10_test.go": "c10/c10_test.go",
}

def _extra_coverage():
    """skipped / broken cases of THIS run as first-class numbers of the evidence (the driver itself fails above 5 % skipped)"""
    import json
    import vf
    out = {"skipped_cases": 0, "broken_cases": 0}
    path = os.path.join(vf.OUT, "C10", "obs_all.jsonl")
    if not os.path.exists(path):
        return {"skipped_cases": None, "broken_cases": None, "skipped_note": "no observation file at %s" % path}
    with open(path) as fh:
        for line in fh:
            tags = json.loads(line).get("tags") or []
            out["skipped_cases"] += any(t.startswith("skipped:") for t in tags)
            out["broken_cases"] += any(t.startswith("broken:") for t in tags)
    return out


P = {
    "id": "C10",
    "extra_coverage": _extra_coverage,
    "claimed": True,
    "coq_targets": ["Properties/C10.vo", "Run/Eval_C10.vo", "C10/Sound.vo", "C10/SoundHist.vo", "C10/Mixed.vo"],
    "theorems_module": "Properties.C10",
    "theorems": ["C10_ttl_within_lifetime", "C10_store_positive", "C10_finalizer_token_not_expired", "C10_zero_disables",
                 "C10_config_only_shortens", "C10_rule_level_ttl_bounds",
                 "C10_http_within_rfc_freshness", "C10_http_not_stored_when_stale", "C10_http_not_stored_without_lifetime",
                 "C10_http_within_rfc_freshness_at_set", "C10_http_not_stored_when_stale_at_set",
                 "C10_http_declared_lifetime_bound", "C10_F4_pinned_refuted",
                 "C10_no_hit_after_expiry", "C10_no_hit_after_expiry_http",
                 "C10_no_hit_after_expiry_any_rule", "C10_hit_age_within_ttl_in_force", "C10_F5_pinned_refuted",
                 "C10_F1_pinned_refuted", "C10_F1_history_pinned_refuted", "C10_F2_pinned_refuted", "C10_F3_pinned_refuted",
                 "C10_nonvacuous", "C10_check_sound", "C10_check_sound_fixed", "C10_cache_expiry_enforced"],
    "streams": [{
        "name": "all", "pkg": "./internal/zzverif/c10", "test": "TestVerifC10", "overlay": OVERLAY,
        "eval_module": "Run.Eval_C10", "check_term": _CHECK,
        "n_quick": 1200, "n_thorough": 30000, "findings": {}, "shard": 300,
    }],
    "rule": ("one overlay-only driver using exported identifiers of /repo only; corpus (witnesses of the repaired C10-F1..F5, "
            "chains, hit paths) first, then five case kinds: "
            "exec (55%): all seven mechanisms (client credentials through Config.Token and through the oauth2_client_credentials "
            "finalizer; generic sessions with integer and RFC 3339 `time_format` expiries; JWKs without certificate, with a self-signed "
            "leaf, with x5c chains [leaf, root] whose root expires long after / shortly after / before the leaf, validate_jwk false and "
            "true with a trust store) created by the REAL mechanism factory from a prototype cache_ttl (unset/0/-1s/3s..1h) and a "
            "rule-level cache_ttl (palette, the grid 1ns..1h/0/negative, remaining lifetime +-1s) and/or another rule-level option "
            "through WithConfig, executed once against httptest endpoints with a recording cache; expiry = now + delta (absent, -1d..+1d, "
            "dense around 0, +-leeway, 2*leeway, +-2): lookup?, ttl and number of Sets, exp claim of the issued JWT; "
            "http (20%): Cache-Control x Expires (instant/`0`/`-1`/garbage) x Date (now, +-30s, -1h) x Age (0..7200, garbage) x "
            "Last-Modified x Vary x status x method x request Cache-Control x default ttl (0/5s/1h/-1s) through the REAL "
            "httpcache.RoundTripper into the REAL memory.Cache or redis cache (miniredis); second request immediately or after simulated "
            "0.5 s..2 h, optionally with the transport failing; a dozen in-memory cases per run with a SLOW BODY (headers at once, body "
            "0.3/1.2/2.3 s later, remaining freshness 1-2 s: max-age, max-age+Age, default ttl, Expires without Date): the ttl handed to "
            "Set and the measured body delay are observed; the freshness-relevant header values are parsed by the driver's own "
            "RFC 7234 reader (the model computes what cachecontrol computes from them, the specification what RFC 7234 4.2 says), "
            "cachecontrol's cachability verdict is oracle data; "
            "cache (10%): time-stamped Set/Get sequences (ttl -1h..1h incl. 0, -1, -2, sub-millisecond) on both real backends, and bursts "
            "of 40-60 in-memory entries with one ttl of 0.2-2 s all probed 3 ms after the last Set returned + ttl (and again 2 % later): "
            "none may be answered; "
            "hist (10%): 3-6 time-stamped requests over two keys through one instance of remote authorizer / contextualizer / generic "
            "authenticator / introspection / jwt finalizer / client credentials / JWK cache / round tripper (stub transport or a "
            "contextualizer with endpoint.http_cache against a real httptest server), ttl 0/short/long via prototype or rule level, half "
            "of the redis cases with expiry information 1-3 s beyond the cache leeway: hit paths of every mechanism run over time, Sets "
            "during hits are counted; mix (5%): the same with every request under its own rule-level cache_ttl of one prototype.  "
            "Non-trivial = exec with expiry within +-2*leeway of now or a non-positive/rule-level ttl; http with any explicit lifetime, "
            "Age or default ttl; cache with a Get after a Set of the same key; hist/mix with a repeated key.  Distinct by hash of the "
            "(time-relative) input."),
    "anchors": [
        "internal/rules/mechanisms/authenticators/oauth2_introspection_authenticator.go",
        "internal/rules/mechanisms/authenticators/generic_authenticator.go",
        "internal/rules/mechanisms/authenticators/jwt_authenticator.go",
        "internal/rules/mechanisms/authenticators/session_lifespan.go",
        "internal/rules/mechanisms/finalizers/jwt_finalizer.go",
        "internal/rules/oauth2/clientcredentials/clientcredentials.go",
        "internal/httpcache/round_tripper.go",
        "internal/cache/memory/cache.go",
        "internal/cache/redis/cache.go",
        "internal/rules/mechanisms/authorizers/remote_authorizer.go",
        "internal/rules/mechanisms/contextualizers/generic_contextualizer.go",
        "internal/rules/mechanisms/finalizers/oauth2_client_credentials_finalizer.go",
        "internal/rules/endpoint/endpoint.go",
    ],
    "trusted": [
        "pquerna/cachecontrol's verdict whether a response is cachable at all (no-store, status, method ...) is oracle data of the "
        "case; in the single-response `http` cases the freshness lifetime and age are NOT taken from it: the driver parses "
        "max-age/Expires/Date/Age itself and the Coq model/specification compute from those values; in `hist` cases through the "
        "round tripper (stub transport or the contextualizer's endpoint) the expiry instant of a response IS cachecontrol's (oracle, "
        "no Age): they check ttl <= library lifetime and the hit pattern over time, not RFC remaining freshness; responses whose only "
        "lifetime is the Last-Modified heuristic are not generated",
        "token validation (introspection Validate, SessionLifespan.Assert, certificate validation) is not modelled: a rejected "
        "answer must simply not be stored",
        "miniredis v2.33 stands for a Redis server (PX <= 0 rejected, key gone once PX elapsed); rueidis client-side caching "
        "(DoCache, on by default in production) is disabled as in the repository's own tests -- nothing behind that switch is observed; "
        "ttlcache v3.3.0 is exercised as it is (no background cleaner)",
        "in-memory cache timing is one-sided and load-independent: a Set counts from the instant it returned, a Get from the instant it "
        "was issued (monotonic clock), so the only disagreement possible is a real hit at or after set-return + ttl; early or late "
        "misses never alarm",
        "wall clock: every real call is bracketed by two clock readings; cases reading whole seconds are repeated when the second "
        "flips, a bracket wider than 4 s or a ttl inside a measured uncertainty window (+2 ms) makes the case repeat; a case that "
        "cannot be pinned down is recorded as skipped (tag, evidence field skipped_cases), the driver fails above 5 % skipped; a "
        "harness error voids only its own case (CBroken, never passes)",
        "correspondence is refinement: the implementation may look up less, store less and for a shorter time than the model "
        "(so conservative changes of leeways/defaults and C11's GET/HEAD/Vary gates raise no alarm), never more",
    ],
    "level_text": ("Proof (kernel-checked, no axioms) over all expiry/now/ttl relations in Z, all header values and all request histories "
                  "(induction, both cache semantics), for the code with the repairs of C10-F1..F5, without guards: every ttl a mechanism "
                  "hands to the cache is positive, at most the ttl in force for the rule (rule level, else prototype) and ends strictly "
                  "before the credential's / leaf certificate's / token's own expiry even if applied 4 s late; a ttl of zero or below "
                  "disables lookup and store (jwt finalizer excepted: its `ttl` is the token's lifetime, a value <= 5 s only disables the "
                  "store); for all max-age/Expires/Date/Age values the ttl of the round tripper's single store decision is positive and "
                  "within the RFC 7234 remaining freshness at the time of the Set (on arrival minus the time the body took; the lifetime is "
                  "transcribed independently of the model, the current-age term max(Age, now-Date) is the same expression in model and "
                  "specification) and nothing is stored when that is not positive; no hit in any mechanism history at or after the "
                  "payload's expiry, also when requests run under different rules; in round-tripper histories no hit later than the "
                  "library-computed expiry instant plus the delay D between time.Until and the Set (age is proved for the single store "
                  "decision only, not over histories); a hit under a configured ttl c is at most c old (the ttl is part of every cache "
                  "key); both cache semantics enforce expiry for all Set/Get sequences; the evaluator's property predicate follows from "
                  "refinement-correspondence for every well-formed exec/http/cache/hist case (C10_check_sound_fixed; not for mix cases: "
                  "no soundness theorem, their v_prop is checked as it is).  What the code did before each repair is kept as "
                  "C10_F1..F5_pinned_refuted.  The model is tied to the code by 1273 (quick: 1200 generated + 73 corpus) / ~30000 (thorough) "
                  "cases per run through the real mechanism factory + WithConfig + Execute, Config.Token, the RFC 7234 round tripper and "
                  "both real cache backends."),
    "level_note": ("Trusted: Coq kernel/vm_compute; the correspondence harness; cachecontrol's cachability verdict, miniredis, ttlcache as "
                  "observed.  SPEC DECISIONS (limits of what is proved): (1) `cached verification keys are not used past their "
                  "certificate's expiry` is read as the LEAF certificate (x5c[0], the one that contains the key): its NotAfter bounds the JWK "
                  "cache ttl; chains are generated and the other certificates must not influence the ttl, but an intermediate expiring before "
                  "the leaf is not modelled as ending the key's validity.  (2) The validity leeway granted on top of a credential's expiry is "
                  "the FIXED default of 10 s for introspection responses and sessions (0 for keys and tokens); a configured `validity_leeway` "
                  "is not varied -- the theorems prove `strictly before exp`, which is within any non-negative leeway.  (3) `RFC 7234 "
                  "freshness lifetime` = lifetime minus current age per RFC 7234 4.2 (max-age, else Expires-Date, unparsable Expires = "
                  "expired; age = max(Age, now-Date)), not what the library computes.  Repaired findings, all replayed on the real code and "
                  "now regression witnesses of the corpus (re-introducing any of the five defects is reported as a VIOLATION with the witness "
                  "as replay: revert of the commit; for c971513 removal of its `ttl <= 0` guard, a plain revert conflicts with a3cbbb3): "
                  "C10-F1 637ae67, C10-F2 c971513, C10-F3 e0dc5e2, C10-F4 a3cbbb3 (Age / old Date / unparsable Expires), C10-F5 8647e06 "
                  "(cache keys without the ttl).  Not covered: a history theorem for the round tripper in terms of RFC 7234 remaining "
                  "freshness (store decision and cache expiry are proved separately, not composed); round-tripper histories carry no "
                  "Age / invalid Expires and use the library's expiry; slow bodies only through the stub transport, not the httptest "
                  "server of the contextualizer variant; rueidis client-side caching; oauth2 metadata-endpoint http cache and "
                  "verifyTokenWithoutKID paths; evaluator soundness for mixed-rule cases; the cachability verdict (oracle)."),
    "assumptions": [
        "durations fit in int64 nanoseconds (time.Duration); the theorems are over unbounded Z",
        "the delay between computing a ttl and the cache applying it is at most 4 s (max_delay) for the strict-before-expiry theorems",
        "Age and apparent age are whole seconds; Date/Expires have one-second resolution (RFC 7231)",
        "the check_term expects /repo's state of repairs (VERIF_C10_FIXED defaults to 11111: C10-F1 .. C10-F5 repaired)",
    ],
}
