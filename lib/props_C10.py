"""C10 check configuration (see lib/runner.py for the meaning of the keys)."""

import os

# which of the repairs of C10-F1 (637ae67), C10-F2 (c971513), C10-F3 (e0dc5e2) the tree under test contains ("1" = present).
# Default 111 = /repo as it is now.  VERIF_C10_FIXED=000 selects the model of the originally pinned code (for experiments against an
# old checkout only; with the findings recorded as fixed, its defect behaviour is then reported as VIOLATION, as it should be).
_FIXED = (os.environ.get("VERIF_C10_FIXED", "11100") + "11100")[:5]
_CHECK = "check (mkfx %s)" % " ".join("true" if d == "1" else "false" for d in _FIXED)

OVERLAY = {
    "internal/zzverif/c10/c10_test.go": "c10/c10_test.go",
}

P = {
    "id": "C10",
    "claimed": True,
    "coq_targets": ["Properties/C10.vo", "Run/Eval_C10.vo", "C10/Sound.vo", "C10/SoundHist.vo"],
    "theorems_module": "Properties.C10",
    "theorems": ["C10_ttl_within_lifetime", "C10_store_positive", "C10_finalizer_token_not_expired", "C10_zero_disables",
                 "C10_config_only_shortens", "C10_http_not_stored_when_nonpositive", "C10_http_ttl_within_lifetime",
                 "C10_no_hit_after_expiry", "C10_no_hit_after_expiry_http",
                 "C10_F1_pinned_refuted", "C10_F1_history_pinned_refuted", "C10_F2_pinned_refuted", "C10_F3_pinned_refuted",
                 "C10_nonvacuous", "C10_check_sound", "C10_check_sound_fixed", "C10_cache_expiry_enforced"],
    "streams": [{
        "name": "all", "pkg": "./internal/zzverif/c10", "test": "TestVerifC10", "overlay": OVERLAY,
        "eval_module": "Run.Eval_C10", "check_term": _CHECK,
        "n_quick": 1200, "n_thorough": 30000, "findings": {4: "C10-F4", 5: "C10-F5"}, "shard": 300,
    }],
    "rule": "one overlay-only driver, five case kinds, corpus (witnesses of the repaired C10-F1/F2/F3) first: "
            "fn (40%): one call of the REAL getCacheTTL of oauth2_introspection / jwt (JWK cache) / generic authenticator / "
            "client credentials with expiry = now + delta (delta on a grid: absent, -1d .. +1d, dense around 0, +-leeway, 2*leeway, +-2) x "
            "ttl state (unset, 0, -1ns, -1s, 1ns .. 1h, remaining lifetime +-1s; client credentials with sub-second offsets); "
            "exec (25%): all seven mechanisms (client credentials both through Config.Token and through the oauth2_client_credentials finalizer) created by the REAL mechanism factory from a prototype cache_ttl (unset/0/-1s/3s..1h) and a "
            "rule-level cache_ttl and/or another rule-level option through WithConfig, executed once against httptest endpoints with a recording cache: lookup?, ttl "
            "handed to Set, accepted?, exp claim of the issued JWT; "
            "http (15%): Cache-Control x Expires x Date x Last-Modified x status x method x request Cache-Control x default ttl "
            "(0/5s/1h/-1s) through the REAL httpcache.RoundTripper into the REAL memory.Cache or the REAL redis cache (miniredis), "
            "pquerna/cachecontrol's verdict (cachable, lifetime) is oracle data of the case; "
            "cache (10%): time-stamped Set/Get sequences (ttl -1h..1h incl. 0, -1, -2, sub-millisecond) on both real backends "
            "(miniredis FastForward = exact simulated time; in-memory = real sleeps with measured brackets); "
            "hist (10%): 3-6 time-stamped requests over two keys through the real remote authorizer / generic contextualizer / generic "
            "authenticator / round tripper (stub transport, or a contextualizer with endpoint.http_cache against a real httptest server) with a real backend, ttl in force 0 / short / long via prototype or rule level: hit/miss pattern and "
            "Set ttls.  Non-trivial = fn/exec with expiry within +-2*leeway of now or a non-positive/rule-level ttl; http with any explicit "
            "lifetime or default ttl; cache with a Get after a Set of the same key; hist with a repeated key.  Distinct by hash of the "
            "(time-relative) input.",
    "anchors": [
        "internal/rules/mechanisms/authenticators/oauth2_introspection_authenticator.go",
        "internal/rules/mechanisms/authenticators/generic_authenticator.go",
        "internal/rules/mechanisms/authenticators/jwt_authenticator.go",
        "internal/rules/mechanisms/authenticators/session_lifespan.go",
        "internal/rules/mechanisms/finalizers/jwt_finalizer.go",
        "internal/rules/oauth2/clientcredentials/clientcredentials.go",
        "internal/httpcache/round_tripper.go",
        "internal/cache/memory/cache.go",
        "internal/cache/redis/cache.go",
        "internal/rules/mechanisms/authorizers/remote_authorizer.go",
        "internal/rules/mechanisms/contextualizers/generic_contextualizer.go",
        "internal/rules/mechanisms/finalizers/oauth2_client_credentials_finalizer.go",
        "internal/rules/endpoint/endpoint.go",
    ],
    "trusted": [
        "pquerna/cachecontrol (RFC 7234 parsing, cachability reasons, freshness lifetime) is an oracle: its answer on the very "
        "request/response of the case is data of the case; responses whose only lifetime is the Last-Modified heuristic are not generated",
        "token validity checks (introspection Validate, SessionLifespan.Assert) are reduced to the one fact the driver can trigger: "
        "`exp` older than now - 10 s is rejected before anything is cached (C05 covers validation)",
        "miniredis v2.33 stands for a Redis server (PX <= 0 rejected, key gone once PX elapsed); rueidis client-side caching is disabled "
        "as in the repository's own tests; ttlcache v3.3.0 is exercised as it is (no background cleaner)",
        "wall clock: every real call is bracketed by two clock readings; calls reading whole seconds are repeated when the second flips, "
        "nanosecond-based observations must lie between the model's answers at both ends of the bracket, sleeping cases are repeated "
        "(at most 6 times, then recorded as skipped) when a ttl falls into the measured uncertainty window + 2 ms",
        "two thin export files injected into the authenticators and clientcredentials packages build the mechanism instance for a direct "
        "getCacheTTL call by struct literal (field names ttl/TTL); all other cases go through the real factories",
    ],
    "level_text": "Proof (kernel-checked, no axioms) over all expiry/now/ttl relations in Z and all request histories (induction over "
                  "histories, both cache semantics), for the code as repaired by 637ae67/c971513/e0dc5e2, without guards: every ttl a "
                  "mechanism hands to the cache is positive, at most the configured ttl, and ends strictly before the credential's / "
                  "certificate's / token's own expiry even if applied up to 4 s late; a ttl of zero in force disables lookup and store; a "
                  "response with non-positive freshness lifetime is not handed to the cache and a stored one expires exactly at its "
                  "freshness limit; no hit in any history happens at or after expiry; jwt-finalizer tokens served from cache are unexpired; "
                  "both cache semantics enforce expiry for all Set/Get sequences.  The evaluator's property predicate (written from the "
                  "property text) is proved to follow from model correspondence for every well-formed case of all five kinds "
                  "(C10_check_sound_fixed).  The pinned defects are kept as C10_F1/F2/F3_pinned_refuted.  The model is tied to the code by "
                  "running ~1200 (quick) / 30000 (thorough) generated cases per run through the real getCacheTTL functions, the real "
                  "mechanism factory + WithConfig + Execute, the real RFC 7234 round tripper (stub transport and the real "
                  "Endpoint.CreateClient wiring), the real in-memory cache and the real redis cache, and comparing ttls, lookups and "
                  "hit/miss patterns with the model inside Coq.",
    "level_note": "Trusted: Coq kernel/vm_compute; the correspondence harness; cachecontrol, miniredis, ttlcache as observed; token "
                  "validation reduced to the expiry check.  The property predicate evaluated on the implementation's observations: ttl > 0, "
                  "<= configured, set instant + ttl <= expiry + validity leeway (10 s for introspection and sessions, 0 for keys and "
                  "tokens); zero disables; non-positive lifetime => not served from cache; hits only within the ttl handed to the cache.  "
                  "Findings C10-F1, C10-F2, C10-F3 were replayed on the real code, repaired by fix: commits 637ae67, c971513, e0dc5e2 "
                  "(fixes/C10-F*.diff are the patches those commits were made from) and are now regression cases of the corpus: reverting "
                  "any of the three commits makes the check report a VIOLATION with the witness as replay.",
    "assumptions": [
        "durations fit in int64 nanoseconds (time.Duration); the theorems are over unbounded Z",
        "the delay between computing a ttl and the cache applying it is at most 4 s (max_delay) for the strict-before-expiry theorems",
        "hist cases do not use the introspection authenticator: its cache key depends on map iteration order (C11-F1), identical "
        "requests miss at random, so its hit/miss pattern is not a function of the input (a miss is always safe for C10)",
        "the check_term expects the repaired code (VERIF_C10_FIXED defaults to 111)",
    ],
}
