"""C05 check configuration (see lib/runner.py for the meaning of the keys)."""
import json
import os

# code sites every run has to reach (DESIGN 6.20a); counted from the `site:` tags the driver derives per case
SITES = ["accepted", "alg-mismatch", "alg-not-allowed", "signature", "assert-issuer", "assert-audience", "assert-nbf",
         "assert-exp", "assert-iat", "assert-scopes", "getKey-unique", "getKey-cert", "without-kid-none", "subject",
         "parse", "payload", "no-token", "jwks-comm", "jwks-status", "jwks-decode"]


def site_coverage():
    try:
        import vf
        out = vf.OUT
    except Exception:
        out = os.path.join(os.path.dirname(os.path.dirname(os.path.abspath(__file__))), "out")
    path = os.path.join(out, "C05", "obs_tokens.jsonl")
    hits = {s: 0 for s in SITES}
    nokid_accepted = merged = 0
    try:
        with open(path) as f:
            for line in f:
                try:
                    tags = json.loads(line).get("tags") or []
                except ValueError:
                    continue
                for t in tags:
                    if t.startswith("site:") and t[5:] in hits:
                        hits[t[5:]] += 1
                if "site:accepted" in tags and "kid:absent" in tags:
                    nokid_accepted += 1
                if "site:accepted" in tags and "rule-override:yes" in tags:
                    merged += 1
    except OSError:
        return {}
    hits["verifyTokenWithoutKID accepted"] = nokid_accepted
    hits["accepted under a rule-level Merge"] = merged
    per_stream = {}
    for name in ("tokens", "keycache"):
        try:
            with open(os.path.join(out, "C05", "obs_%s.jsonl" % name)) as f:
                per_stream[name] = sum(1 for line in f if line.strip())
        except OSError:
            pass
    return {"site_hits": hits, "sites_without_hits": sorted(k for k, v in hits.items() if v == 0), "per_stream": per_stream}


P = {
    "id": "C05",
    "claimed": True,
    "coq_targets": ["Properties/C05.vo", "Run/Eval_C05.vo"],
    "theorems_module": "Properties.C05",
    "theorems": ["C05_accept_sound", "C05_demands_unfold", "C05_accept_complete", "C05_authenticate_iff_spec",
                 "C05_F3_refuted", "C05_F5_fixed", "C05_pinned_iff_spec", "C05_F1_pinned_refuted", "C05_F2_pinned_refuted", "C05_subject_from_verified_claims",
                 "C05_unsigned_rejected", "C05_modified_or_foreign_token_rejected", "C05_alg_confusion_rejected",
                 "C05_merge_precedence", "C05_algorithm_tables", "C05_claim_decoding", "C05_scope_matching",
                 "C05_accepted_scopes_satisfied", "C05_nonvacuous",
                 "C05_cache_history_stateless", "C05_judged_statelessly_unfold", "C05_cache_history_spec", "C05_cache_pinned_F6_history_stateless", "C05_F6_pinned_refuted",
                 "C05_cache_pinned_F4_history_stateless",
                 "C05_F4_pinned_refuted", "C05_cache_transparent", "C05_cache_examples"],
    "streams": [{
        "name": "tokens", "pkg": "./internal/rules/mechanisms/authenticators", "test": "TestVerifC05",
        "overlay": {"internal/rules/mechanisms/authenticators/zz_verif_c05_test.go": "c05/c05_test.go"},
        "eval_module": "Run.Eval_C05", "check_term": "check true true",
        "n_quick": 1500, "n_thorough": 40000, "findings": {1: "C05-F1", 2: "C05-F2", 3: "C05-F3"},
    }, {
        "name": "keycache", "pkg": "./internal/rules/mechanisms/authenticators", "test": "TestVerifC05Cache",
        "overlay": {"internal/rules/mechanisms/authenticators/zz_verif_c05_test.go": "c05/c05_test.go"},
        "eval_module": "Run.Eval_C05", "check_term": "check_hist true true true true",
        "n_quick": 500, "n_thorough": 12000, "findings": {1: "C05-F1", 2: "C05-F2", 3: "C05-F3", 4: "C05-F4", 6: "C05-F6"}, "shard": 150,
    }],
    "rule": "a jwt authenticator created by the real type registry from a generated configuration (issuers, audience, scopes "
            "with exact/hierarchic/wildcard strategy, allowed_algorithms, validity_leeway incl. sub-second and negative, "
            "validate_jwk, subject id member) and, in 40% of the cases, reconfigured on the rule level (WithConfig) x a key set "
            "(jwks_endpoint, or in 18% metadata_endpoint whose document names the issuer and the jwks_uri) "
            "of 0-4 JWKs served by a local httptest JWKS endpoint (RSA-2048, P-256/384/521, Ed25519, oct keys; declared alg "
            "present/absent/not fitting; duplicate and empty kids; x5c chains of one or two certificates: valid (leaf, leaf+root, "
            "leaf+needed intermediate) / foreign CA / foreign root shipped in the chain / intermediate missing or foreign / "
            "expired / wrong key usage; "
            "endpoint up/refusing/5xx/garbage) x a token minted with go-jose (RS/PS/ES/EdDSA/HS, kid right/absent/wrong; "
            "iss/aud/scp/scope/exp/nbf/iat around the boundaries now +- leeway +- 2 s, <= 0, beyond int64, fractional, wrong "
            "types; payload not an object) and mutated in 35% of the cases (signature byte flip / empty / foreign, payload or "
            "header replaced after signing, alg:none spellings, HS* keyed with the bytes of a published public key, attacker key "
            "embedded as `jwk` header, structural "
            "damage, random character replacement, non-canonical base64) sent in header, query or body; 55% of the cases are "
            "repaired to be valid but for one or two perturbations, and 22% of those get a NEAR MISS of a configured issuer / "
            "audience / required scope (case, trailing slash or blank-like character, prefix, extension, partial-segment "
            "wildcard) instead of the value. Observation = subject id + whether the attributes equal "
            "the sent payload, or the error class by errors.Is (recorded; compared only as rejected vs broken). Non-trivial = the token parsed and the decision was taken in "
            "key selection, verifyTokenWithKey, Claims.Validate or subject creation (by the error text's code site, used for "
            "the histogram only); distinct by hash of the generated description (relative times). Second stream (keycache): "
            "histories of 2-4 requests against ONE authenticator (and rule-level copies with their own cache_ttl / algorithms) "
            "with the JWK cache on a real memory cache (cache.WithContext + memory.NewCache; cache_ttl default / 5m / 0s), "
            "the key-set request templated with {{ .TokenIssuer }} in the url (43%), in a header value by which the JWKS "
            "service selects the key set (29%), in both (14%) or not at all (one key set for all issuers), 2-3 trusted tenants "
            "whose key sets share kids for different keys (sometimes the same key, duplicate kids), key sets rotating and "
            "endpoints failing between the requests; tokens signed with the tenant's own key, with the key ANOTHER tenant "
            "publishes under the same kid, with the rotated-out key, or an unpublished one, with and without kid; in 35% of the "
            "histories keys carry x5c chains (valid and invalid) and in 26% a second mechanism over the same endpoint and cache "
            "with validate_jwk: false serves part of the requests; one corpus history lets two real seconds pass before a just-"
            "expired token is presented to the long-lived authenticator; "
            "non-trivial = some request looks up a (url, kid) that an earlier request of the history filled",
    "anchors": ["internal/rules/mechanisms/authenticators/jwt_authenticator.go",
                "internal/rules/mechanisms/authenticators/supported_algorithms.go",
                "internal/rules/mechanisms/authenticators/default_allowed_algorithms.go",
                "internal/rules/mechanisms/oauth2/expectation.go",
                "internal/rules/mechanisms/oauth2/claims.go",
                "internal/rules/mechanisms/oauth2/exact_scope_matcher.go",
                "internal/rules/mechanisms/oauth2/hierarchic_scopes_matcher.go",
                "internal/rules/mechanisms/oauth2/wildcard_scopes_matcher.go",
                "internal/rules/mechanisms/oauth2/noop_matcher.go",
                "internal/rules/mechanisms/oauth2/audience.go",
                "internal/rules/mechanisms/oauth2/scopes.go",
                "internal/rules/mechanisms/oauth2/numeric_date.go",
                "internal/rules/mechanisms/authenticators/subject_info.go"],
    "trusted": ["cryptography is an oracle: under which published key material a token's signature verifies (go-jose, crypto/*) is "
                "case data known by construction of the driver (signing input and signature bytes untouched => the signing "
                "material; otherwise none), assuming unforgeability; ECDSA (r, n-s) malleability is not generated",
                "compact-JWS and JSON parsing (go-jose, goccy/go-json, gjson) are oracles: 'does not parse', 'payload is not an "
                "object', 'a registered claim has a wrong JSON type' are case data; base64url is decoded leniently by go-jose "
                "(non-canonical trailing bits give the same token), so 'modification' is read on the decoded bytes",
                "certificate chain validation of a JWK (pkix.ValidateCertificate, crypto/x509) is an oracle per key: valid / "
                "invalid by construction (trusted CA, foreign CA, expired, wrong key usage)",
                "NumericDate saturation (f16c3cc) is modelled in Z; Go compares `f >= maxNumericDate` in float64 (the constant "
                "rounds up by ~770 s) and values between 2^53 and 2^63 are not generated; the MinInt64 conversion (as observed on "
                "amd64) is modelled only for the variant with f16c3cc reverted (fixed_F2 = false)",
                "the clock is read by the driver before and after Execute (same second, else the case is repeated); "
                "sub-second leeways are generated so that the nanosecond-precise iat check does not depend on the sub-second clock",
                "subject id templates are plain member names, plus one nested path (nested.sub) rendered as a field of its own; "
                "gjson modifiers and non-string members other than numbers (rendered as their text) are not modelled; the attributes "
                "template is the default",
                "key cache (second stream): the cache is modelled as a map (rendered url + rendered templated header values, kid, "
                "configured cache_ttl) -> key that never expires within a "
                "history (entry expiry / TTL arithmetic is C10's subject), certificates about to expire (which getCacheTTL refuses "
                "to cache) are not generated there, mechanisms sharing the cache differ only in validate_jwk (not in trust_store), the endpoint hash "
                "component of the cache key is constant per authenticator and left out; the memory cache, SHA-256 and the JSON "
                "round trip of the cached JWK behave as observed"],
    "level_text": "Proof (kernel-checked, no axioms) about a faithful model of jwt_authenticator.go (Execute, WithConfig, verifyToken, "
                  "verifyTokenWithoutKID, getKey, verifyTokenWithKey), oauth2 Expectation.Merge/Assert*, Claims.Validate, claim "
                  "decoding and the three scope matchers: for all configurations incl. rule-level overrides, all key sets, all clocks "
                  "meeting sane_clock and all tokens other than those with exp = -62135596800 (open finding C05-F3), a subject is "
                  "created only when - and, provided the payload is a JSON object and the key-set endpoint answers, exactly when - a published, usable key (unique for the token's kid, any if it has "
                  "none) verifies the signature, declares the token's allowed and supported alg, the issuer is trusted, an expected "
                  "audience is present, the required scopes match, now lies in [nbf - leeway, exp + leeway) and iat is not in the "
                  "future, and the subject id is the configured member of those verified claims (soundness + completeness against "
                  "an independently written specification); unsigned tokens, tokens no published key verifies (oracle hypothesis), "
                  "and an alg that no published key declares or that is not allowed are rejected for every clock and variant; HS* "
                  "over public material of a key that itself declares HS* (with HS* allowed) rests on the signature oracle; Merge precedence rule > mechanism > metadata. For histories of requests "
                  "against one authenticator with its JWK cache (templated key-set URL over the unverified issuer, key sets "
                  "changing in between) every answer equals the cache-less answer against the key set that is or was published at "
                  "the request's own rendered URL, the present one when the token has no kid or the cache is off - a cached key "
                  "is never reused for another url or kid, and a cached key is validated with the settings of the mechanism at hand "
                  "(C05_cache_history_stateless/_spec/_transparent, for all histories; cache entries are keyed by the rendered url and "
                  "templated header values, kid and configured cache_ttl). Claim decoding and the three scope matching "
                  "strategies are proved equal to declarative relations stated in the specification (C05_claim_decoding, "
                  "C05_scope_matching). Two deviations found "
                  "by the model (exp <= 0 never expired; nbf/iat >= 2^63 wrapped to 'not set') were repaired by fix: commits "
                  "a3a89b7 and f16c3cc; the theorem is about the repaired code; the code as it is with these two commits reverted "
                  "(later repairs kept; not a state /repo was ever in) is kept as C05_pinned_iff_spec / C05_F1_pinned_refuted / "
                  "C05_F2_pinned_refuted. Two more, found in the audit round, were "
                  "repaired by d20d7cd (C05-F4: a cached JWK was reused without validation by a mechanism that validates JWK "
                  "certificates after a laxer one sharing endpoint and cache had stored it; pinned, i.e. with d20d7cd and 4a30678 reverted and later repairs kept: "
                  "C05_cache_pinned_F4_history_stateless, C05_F4_pinned_refuted) and d55629a (C05-F5: with no issuers configured and metadata without issuer a token "
                  "without iss was accepted; the model has the repair, C05_F5_fixed). C05-F6, found when the keycache stream got "
                  "header templates (seeded round 4), was repaired by 4a30678: a {{ .TokenIssuer }} template in a jwks_endpoint "
                  "HEADER did not reach the key-cache key, so issuers behind one url shared entries per kid (cross-issuer forgery "
                  "after the other issuer's key was cached); pinned (4a30678 reverted, later repairs kept): C05_cache_pinned_F6_history_stateless and "
                  "the witness about the old keying C05_F6_pinned_refuted (in both pinned cache theorems the 'outside the guard' branch "
                  "is true by the definition of the guard; the content is the url_keyed / uniform_validation branch). One finding stays open with guard, witness and corpus replay: C05-F3 (exp = "
                  "-62135596800, Go's zero time, still counts as absent). The model is tied to the code by running "
                  "1500 (quick) / 40000 (thorough) generated and mutated tokens plus 54 corpus cases and 500 / 12000 request histories "
                  "plus 9 corpus histories with a real memory cache per run through the real authenticator against a local JWKS server.",
    "level_note": "Partial by construction: signature verification, JSON/JWS parsing and certificate validation are oracles (trusted "
                  "base); the theorem is about the decision logic around them. Error kinds are compared as classes by errors.Is "
                  "(argument / authentication [+assertion | +scope] / communication / internal) but are only recorded: the "
                  "correspondence compares the created subject, 'rejected' or 'broken (panic / no answer)', because the statement "
                  "only says 'rejected without a subject' (error kinds are C04's and C12's subject). 'Any modification of a valid "
                  "token is rejected' is a theorem only in the form 'a token no published key verifies is rejected'; that a "
                  "modification makes the signature fail is the cryptographic assumption. 'Attributes come from the verified "
                  "claims' is checked on the Go side (attributes deep-equal the sent payload) and has no theorem (the model has one "
                  "claims record per token, the statement would be true by construction, as 'subject id from the claims' is). Cache entry expiry, metadata_endpoint discovery with templates, custom "
                  "jwt_source and subject "
                  "attribute templates are not exercised (metadata_endpoint with a fixed URL is). Open finding C05-F3 is printed as KNOWN-FINDING on every run; C05-F1, F2, F4, F5, F6 are fixed: reverting "
                  "a3a89b7, f16c3cc, d20d7cd, d55629a or 4a30678 in a scratch worktree was each run and reported as VIOLATION with a "
                  "replay (docs/notes/C05.md). Seeded changes: C05-1 and C05-9 were missed in their rounds and are caught since the "
                  "keycache stream (C05-1, on base abe584c) and its header-render dimension (C05-9, on base e0c0f15) were added; "
                  "their stored patches no longer apply after 4a30678, which rewrote the lines they touch. Parts of the statement "
                  "without a theorem, in one place: attributes (Go-side check only); 'every supported key type' (key types exist "
                  "only in the generator, the model has alg strings and material ids); the key set obtained through "
                  "metadata_endpoint -> jwks_uri (generator only; in the theorems the key set is a parameter); for histories "
                  "judged_statelessly admits ANY earlier world of the history rather than the one at fill time and knows no expiry - "
                  "an upper bound on what the cache may do, weaker than the code. Reverting 8647e06 (cache_ttl in the cache key, C10-F5) is "
                  "reported as 'correspondence broken, no failing input': sharing entries between copies with different ttl is not "
                  "a C05 violation.",
    "extra_coverage": site_coverage,
    "assumptions": ["sane_clock: the clock lies after 1970 and before the int64 horizon by more than the leeway",
                    "first stream: the key cache is off (cache_ttl: 0s), every case fetches its own key set from the local JWKS "
                    "server; second stream: one memory cache per history, no entry expires within a history (TTL >= 1 min, a "
                    "history takes milliseconds), rule-level copies cannot change validate_jwk"],
}
