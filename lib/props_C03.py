"""C03 check configuration (see lib/runner.py for the meaning of the keys)."""

P = {
    "id": "C03",
    "claimed": True,
    "coq_targets": ["Properties/C03.vo", "Run/Eval_C03.vo"],
    "theorems_module": "Properties.C03",
    "theorems": ["C03_method_list_semantics", "C03_method_list_rejected", "C03_hosts_any", "C03_decode_per_setting",
                 "C03_route_matches_iff", "C03_captures_exact", "C03_unnamed_not_exposed",
                 "C03_F1_pinned_refuted", "C03_F3_pinned_refuted", "C03_F4_pinned_refuted",
                 "C03_F2_pinned_refuted", "C03_F5_pinned_refuted", "C03_F5_pinned_panic_refuted", "C03_F6_pinned_refuted",
                 "C03_F7_pinned_refuted", "C03_F8_pinned_refuted", "C03_nonvacuous"],
    "streams": [{
        "name": "routes", "pkg": "./internal/rules", "test": "TestVerifC03",
        "overlay": {"internal/rules/zz_verif_c03_test.go": "c03/c03_test.go"},
        "eval_module": "Run.Eval_C03",
        # check fx1 fx2 fx3 fx4 fx5 fx6 dec: the model with (true) / without (false) the repair of C03-Fn; dec = variant of the
        # slash-preserving decoder: D0 pinned, D7 after a779db8 (F7), D8 after 6d0a3af (F8).  All repairs are in /repo:
        # F1 6793b33, F2 88da16a, F3 20f92b3, F4 22bae5e, F5 16cf34b, F6 72ba5d4, F7 a779db8, F8 6d0a3af
        "check_term": "check true true true true true true D8",
        "n_quick": 1200, "n_thorough": 30000, "shard": 100,
        "findings": {},
    }],
    "rule": "a case = a rule set of 1-4 rules (scheme in {'',http,https,ftp}; method lists with ALL / !M / !!M / duplicates / unknown / empty string; 0-3 hosts "
            "of type exact/glob/regex incl. non-compiling and unknown types; 1-2 routes per rule, 60% mutated from earlier expressions of the case "
            "(literals, :name, :*, *name, **, escapes, shared prefixes, same shape with other names); path_params of each type on single "
            "and free wildcards; allow_encoded_slashes off/on/no_decode) created by the real ruleFactory.CreateRule and loaded into the real "
            "repository, plus 3-8 requests (6% of the cases: one rule probed with every method) (request line / X-Forwarded-* / Envoy CheckRequest; instantiations of the expressions and near "
            "misses; segments re-encoded with %XX in either hex case, %2F, %2f, invalid escapes (Envoy), the place-holder text). Corpus first: "
            "the witness of every finding and the documentation's examples. Observed per request: every matcher call (route, keys, values, "
            "answer) through a pass-through recorder between the real tree and the real route matcher, the selected rule, URL.Captures after the "
            "real Execute, the encoded-slash rejection. Non-trivial = a request with >= 2 matcher calls, or a call answered no/panic, or a "
            "matched rule with non-empty captures (rejected rule sets: more than one rule); distinct by hash of the input.",
    "anchors": ["internal/rules/route_matcher.go", "internal/rules/typed_matcher.go", "internal/rules/rule_impl.go",
                "internal/rules/rule_factory_impl.go", "internal/x/radixtree/tree.go", "internal/rules/config/matcher.go",
                "internal/rules/repository_impl.go", "docs/content/docs/rules/regular_rule.adoc"],
    "trusted": ["glob (gobwas/glob) and regexp engines are oracles: compile ok? and the answer on each (pattern, value) pair of the case are "
                "recorded from the real libraries; `exact` is modelled",
                "net/url.PathUnescape is modelled (pct_decode) and compared through the captures of every run; request parsing "
                "(http.ReadRequest, requestcontext, Envoy CheckRequest -> URL view) is observed, not modelled: the view (method, scheme, host, "
                "Path, RawPath) is case data",
                "radix tree: Add / findNode / Find are transcribed (no Delete, no priority sorting: static index bytes are unique); which route "
                "is consulted first is C02's subject, C03 compares keys, values, answers and captures of the calls made",
                "Go map iteration order is irrelevant: captures are compared as sorted association lists"],
    "level_text": "Proof (kernel-checked, no axioms), for all method lists, host lists, path_params lists, engines, requests, keys and values: "
                  "the matcher CreateRule assembles for a route answers exactly scheme && method(ALL / !M) && any-host && all path_params on the "
                  "decoded value of the named wildcard, and never panics when keys and values have equal length (C03_route_matches_iff, "
                  "C03_method_list_semantics, C03_hosts_any); the capture decoding of Execute equals the specified percent-decoding per "
                  "encoded-slash setting, rejection under `off` exactly on encoded slashes, unnamed wildcards not exposed (C03_captures_exact, "
                  "C03_decode_per_setting, C03_unnamed_not_exposed) - each outside the guards of the findings C03-F1, F4, F6, F7, F8, every "
                  "guard with a _refuted witness. The key/value hand-over of the lookup tree (C03-F2, F3, F5) is proved refuted by witnesses on "
                  "loaded rule sets and otherwise covered by correspondence: the model (faithful Add / findNode / Find) is run against the real "
                  "CreateRule + repository + request contexts on ~1200 (quick) / 30000 (thorough) rule sets x 6-14 requests per run and every "
                  "matcher call's keys, values and answer, the selected rule and the captures are compared.",
    "level_note": "Trusted: Coq kernel/vm_compute; the driver (generator, recorder between tree and route, Gallina rendering); glob/regex "
                  "engines as recorded oracles; the request view as case data. Values that are not validly percent-encoded (reachable only "
                  "through Envoy) carry no requirement (hypothesis valid_enc). Eight open findings with guards (F1 hosts AND-ed, F2 free-wildcard "
                  "keys, F3 catch-all key rename, F4 exclusion-only method list, F5 captures lost after a dead end -> wrong captures / "
                  "request-triggered panic, F6 path_params on undecoded value under off, F7 lower-case %2f, F8 place-holder text); candidate "
                  "repairs fixes/C03-F2.diff and fixes/C03-F5.diff, the model is parametric in both (check fx2 fx5).",
    "assumptions": ["the driver is in-package (internal/rules) and wraps rule.Route values; a rename of ruleImpl/routeImpl fields or of the "
                    "Route interface breaks the driver, not the property",
                    "HTTP entry points always set RawPath (= EscapedPath); the Envoy entry point never does - taken from the observed view"],
}
