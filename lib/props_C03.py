"""C03 check configuration (see lib/runner.py for the meaning of the keys)."""

P = {
    "id": "C03",
    "claimed": True,
    "coq_targets": ["Properties/C03.vo", "Run/Eval_C03.vo"],
    "theorems_module": "Properties.C03",
    "theorems": ["C03_method_list_semantics", "C03_method_list_rejected", "C03_method_list_rejected_spec", "C03_hosts_any", "C03_decode_per_setting",
                 "C03_route_matches_iff", "C03_captures_exact", "C03_unnamed_not_exposed",
                 "C03_matcher_sees_route_keys", "C03_lookup_answers_as_documented", "C03_lookup_answers_as_documented_now", "C03_lookup_no_panic", "C03_lookup_selected", "C03_selected_only_if_documented", "C03_request_sequence_independent",
                 "C03_F1_pinned_refuted", "C03_F3_pinned_refuted", "C03_F4_pinned_refuted",
                 "C03_F2_pinned_refuted", "C03_F5_pinned_refuted", "C03_F5_pinned_panic_refuted", "C03_F6_pinned_refuted",
                 "C03_F7_pinned_refuted", "C03_F8_pinned_refuted", "C03_nonvacuous", "C03_lookup_nonvacuous",
                 # every tree the repository can reach (Tree.Add / Tree.Delete), after any history of rule-set operations
                 "C03_reach_content", "C03_reach_matcher_sees_route_keys", "C03_reach_lookup_answers_as_documented",
                 "C03_reach_lookup_answers_as_documented_now", "C03_reach_lookup_no_panic", "C03_reach_lookup_selected",
                 "C03_reach_unnamed_not_exposed", "C03_reach_selected_only_if_documented",
                 "C03_history_index_is_reachable", "C03_history_matcher_sees_route_keys", "C03_history_lookup_no_panic",
                 "C03_history_lookup_answers_as_documented_now", "C03_history_selected_only_if_documented",
                 "C03_history_nonvacuous"],
    "streams": [{
        "name": "routes", "pkg": "./internal/rules", "test": "TestVerifC03",
        "overlay": {"internal/rules/zz_verif_c03_test.go": "c03/c03_test.go"},
        "eval_module": "Run.Eval_C03",
        # check fx1 fx2 fx3 fx4 fx5 fx6 dec: the model with (true) / without (false) the repair of C03-Fn; dec = variant of the
        # slash-preserving decoder: D0 pinned, D7 after a779db8 (F7), D8 after 6d0a3af (F8).  All repairs are in /repo:
        # F1 6793b33, F2 88da16a, F3 20f92b3, F4 22bae5e, F5 16cf34b, F6 72ba5d4, F7 a779db8, F8 6d0a3af
        "check_term": "check true true true true true true D8",
        "n_quick": 1200, "n_thorough": 30000, "shard": 100,
        "findings": {},
    }],
    "rule": "a case = 1-4 rules (scheme in {'',http,https,ftp}; method lists with ALL / !M / !!M / duplicates / unknown / empty string, "
            "exclusion-only lists ~1%; 0-3 hosts of type exact/glob/regex incl. globs whose answer depends on the '.' separator, non-compiling and "
            "unknown types; 1-2 routes per rule, 60% mutated from earlier expressions of the case: literals, :name, :*, *name, **, escapes, shared "
            "prefixes, same shape with other names, names differing only by case, 8% with 4-5 tokens; path_params of each type on single and free "
            "wildcards; allow_encoded_slashes ''/off/on/no_decode). 50% of the rule sets the validator accepts go as a JSON document through the real "
            "config.ParseRules (decoder + validator) and Rule.DeepCopy, the others as config structs; all through the real ruleFactory.CreateRule and "
            "the real repository; 40% of the multi-rule cases as TWO AddRuleSet calls from two sources (clone of a non-empty tree, one-source-per-node "
            "constraint, second set possibly refused); 35% of the cases get a HISTORY before the requests: the rule sets are added, then 1-3 further "
            "operations follow on the real repository - UpdateRuleSet (per loaded rule: unchanged / a changed version with the same id / gone; "
            "sometimes a new rule), DeleteRuleSet, AddRuleSet of a further rule set - and in 45% of these a pair of sibling expressions inside "
            "one literal segment below wildcards (<pre>b / <pre>c in two rule sets, one deleted again: prefix split, then deleteChild merges a "
            "node that holds values and key names), each operation on a clone of the tree, all-or-nothing, accepted/refused recorded. Then 3-8 requests (6% of the cases: one rule probed with every method), ALL served one after the other by the "
            "SAME instance of the rule set (same matcher objects) and each additionally by an instance built anew (history independence); 45% of the "
            "cases get a run of 2-5 requests carrying the same captured TEXT once from a view with RawPath (still encoded, e.g. %41) and once from a "
            "view without (already decoded: the client sent %2541), in both orders and interleaved. Request contexts: request line / X-Forwarded-* / "
            "Envoy CheckRequest (real entry points, no caching by the driver) and `direct` (heimdall.Request from url.Parse, the only way to a view "
            "without RawPath): instantiations of the expressions and "
            "near misses; segments re-encoded with %XX in either hex case, %2F, %2f, '+', %2B, ';', raw and encoded UTF-8, invalid escapes (Envoy), "
            "the former place-holder text. Corpus first: three histories (the split + deleteChild-merge example of C03_history_nonvacuous, a merge of a node holding values and key names, an update to other wildcard names), the witness of every (repaired) finding and the documentation's examples. Observed per "
            "request: every matcher call (route, keys, values, answer) through a pass-through recorder between the real tree and the real route "
            "matcher, the selected rule, the captures AS THE PIPELINE SEES THEM (snapshot by the stub authenticator inside the real Execute), the "
            "encoded-slash rejection; engine answers from gobwas/glob and regexp called directly. Non-trivial = a request with >= 2 matcher calls, "
            "or a call answered no/panic, or a matched rule with non-empty captures (rejected rule sets: more than one rule); distinct by hash of the input.",
    "anchors": ["internal/rules/route_matcher.go", "internal/rules/typed_matcher.go", "internal/rules/rule_impl.go",
                "internal/rules/rule_factory_impl.go", "internal/x/radixtree/tree.go", "internal/rules/config/matcher.go",
                "internal/rules/repository_impl.go", "docs/content/docs/rules/regular_rule.adoc"],
    "trusted": ["glob (gobwas/glob, separators '.' for hosts and '/' for path parameters as documented) and Go regexp are oracles: compile ok? and the "
                "answer on each (pattern, value) pair the specification needs are recorded by calling the libraries directly (not heimdall's typed "
                "matchers); a pair missing from the table fails the case; `exact` is modelled",
                "net/url.PathUnescape is modelled (pct_decode) and compared through the captures of every run; request parsing (http.ReadRequest, "
                "requestcontext, Envoy CheckRequest -> URL view) is observed, not modelled: the view (method, scheme, host, Path, RawPath) is case data",
                "radix tree: findNode / Find are C03's transcription with call trace and panics (C03/Model.v); Add and Delete are the shared "
                "transcriptions Radix/Tree.v and C06/TreeDel.v (owners C02/C06, proved there to keep the invariant wfd and to refine the pattern-map "
                "machine), read as a C03 tree by conv; C03's own transcription of Add (load / load2) is kept for the Add-only theorems and is run next "
                "to the shared one on every case without a history (models_agree); no priority sorting (static index bytes are unique); Clone is "
                "the identity on immutable model trees; which rules an UpdateRuleSet replaces is computed as the code does from SameAs / EqualTo, the "
                "equality classes of the rule hashes being case data read off the created rules",
                "the rule-set decoder, validator and DeepCopy are exercised (half of the valid rule sets) but not modelled: the model starts from the rule definition",
                "Go map iteration order is irrelevant: captures are compared as sorted association lists"],
    "level_text": "Proof (kernel-checked, no axioms). (1) Conditions: for all method lists, host lists, path_params lists, engines, requests, "
                  "keys and values, the matcher CreateRule assembles for a route answers exactly scheme && method(ALL / !M) && any-host && all "
                  "path_params on the decoded value of the named wildcard, and never panics (C03_route_matches_iff, C03_method_list_semantics, "
                  "C03_hosts_any). (2) Decoding: the capture decoding equals the specified percent-decoding per encoded-slash setting for all three "
                  "variants of the decoder, rejection under `off` exactly on encoded slashes (C03_decode_per_setting, C03_captures_exact); a methods list is refused exactly when it "
                  "contains an empty string or is non-empty and allows no method by the specification (C03_method_list_rejected_spec). "
                  "(3) Lookup tree, for EVERY tree the repository can reach - any sequence of Tree.Add of a route under its own expression and "
                  "Tree.Delete of a valid expression, which is what repository_impl.go issues (prefix splits, deleteChild merges, any values constraint, "
                  "any value matcher) - hence after ANY history of AddRuleSet / UpdateRuleSet / DeleteRuleSet (C03_history_index_is_reachable). The seven "
                  "C03_reach_* theorems restate every theorem of this paragraph for such trees; C03_history_matcher_sees_route_keys, "
                  "C03_history_lookup_no_panic, C03_history_lookup_answers_as_documented_now and C03_history_selected_only_if_documented instantiate "
                  "four of them (keys, no panic, answers _now, END TO END) on the index after a history, the others follow from "
                  "C03_history_index_is_reachable + C03_reach_*; the original names are the instance 'one AddRuleSet on the empty tree' (C03's own "
                  "transcription of Add; any number of rules/routes, any insertion order, prefix splitting and escapes included; satisfiable: "
                  "C03_lookup_nonvacuous, C03_history_nonvacuous). For all such trees and all requests: every matcher call is made for a route whose expression matches the request path as documented, "
                  "with the wildcard names that route declares and the segments its wildcards match, free wildcard included "
                  "(C03_matcher_sees_route_keys: insertion invariant over addNode/splitCommonPrefix, soundness of findNode, and both directions between "
                  "the byte-level position of an expression and the documentation's segment-level matching, the converse for the valid expressions Add "
                  "accepts; on reachable trees the insertion invariant is replaced by the content invariant of the SHARED tree proofs - C03_reach_content: "
                  "a reachable tree satisfies wfd and its abstraction, the content of the pattern-map machine, holds per pattern only routes whose own "
                  "expression parses to that pattern with the node's key names, by Radix/TreeAddProofs add_node_spec and C06/TreeDelProofs del_node_spec - "
                  "plus the proof that the shared parser and C03's byte-level reading of an expression are the same function); hence every call answers as documented (C03_lookup_answers_as_documented, _now without any guard), the lookup never panics "
                  "(C03_lookup_no_panic), and END TO END (C03_selected_only_if_documented, C03_lookup_selected, C03_unnamed_not_exposed): a rule is "
                  "selected only through a route that was asked, said yes and whose documented conditions hold; the request is refused exactly for an "
                  "encoded slash under off; otherwise the values exposed are exactly the decoded named segments, unnamed wildcards not exposed. All eight "
                  "findings C03-F1..F8 were repaired by fix: commits; the model is parametric in each repair, the main theorems hold for every variant "
                  "with guards that are false by definition for the repaired one, and each pinned behaviour is kept as a _pinned_refuted witness. The "
                  "model is tied to the code by running both on ~1200 (quick) / 30000 (thorough) generated rule sets x 3-8 requests per run, a third of them "
                  "after a history with updates and deletes on the real repository (model: hrun, the shared tree driven as repository_impl.go drives it); the verdict "
                  "is the specification's predicate on the implementation's observation (answers of all matcher calls, selected rule, captures as the "
                  "pipeline sees them, rejection) plus correspondence of the model on accepted/rejected, selected rule, captures, rejection and the "
                  "(route, answer) projection of the call trace. Independence from earlier REQUESTS: every request of a case is served by the same matcher instances "
                  "as the requests before it and must get the answer an instance built anew gives; this is observed on the implementation, not proved: "
                  "C03_request_sequence_independent only records that the model is stateless by construction (nth_error of a map) and covers no clause.",
    "level_note": "Trusted: Coq kernel/vm_compute; the driver (generator, recorder between tree and route, Gallina rendering); glob/regex "
                  "engines as recorded oracles; the request view (method, scheme, host, Path, RawPath) as case data. Values that are not validly "
                  "percent-encoded carry no requirement (hypothesis valid_enc; such paths are rejected by net/http and yield an empty Path under "
                  "Envoy - RawPath then holds the invalid text, since ae6db4f; the hypothesis of the _now theorems is on RawPath). Which of several matching routes is consulted first / backtracking is C02's subject: the C03 theorems speak about the calls "
                  "that are made and the rule that is selected (both directions between stored position and documented expression are proved), not "
                  "about completeness of the search. Correspondence compares accepted/rejected, selected rule, captures, rejection and the (route, answer) "
                  "projection of the call trace; keys/values are not compared (they are the subject of the theorems). A request view WITHOUT RawPath is produced by no entry point (only by callers that build heimdall.Request themselves); for such views the check requires no panic, history independence and correspondence with the model, but not the decoding clauses (their Path is already decoded; the code decodes captures once more there - noted, not recorded as a finding). Tree Delete is the shared transcription C06/TreeDel.v (not C03's): the C03_reach_* / C03_history_* theorems hold for every tree reachable by Add and Delete and rest on Radix/TreeAddProofs, C06/TreeDelProofs, C06/TreeRefine (entry-by-entry characterisation of Add / Delete on the abstraction) and C02/Reach (reachable => wfd). They say which route a call or a selection belongs to among ALL routes ever created in the case (every version of every rule); that a route deleted or replaced by an update is no longer in the index ('history = fresh load of the current sets') is C06's / C02's theorem, not restated here. C03's lookup function (with call trace and panics) is not proved equal to Radix's find: the theorems about calls use C03's own soundness lemma find_node_good, which needs no invariant, on the converted tree. Priority sorting is not modelled. Decoder spec reading: a kept "
                  "encoded slash is written in the canonical spelling %2F (RFC 3986 2.1), which is what the repair of F7 does. Two more spec readings "
                  "shape the verdict (Spec.v): (a) spec_param: under `off` a request whose RawPath has an encoded slash satisfies NO path_params condition - "
                  "this transcribes pathParamMatcher's early return, the statement itself does not say it; consequence: a rule with path_params under `off` is "
                  "never 'selected and refused' for such a request, it simply does not match (another rule / the default may). (b) for duplicate wildcard "
                  "names (/:a/:a) a path_params condition sees the FIRST segment named a (assoc_first) while the exposed map holds the LAST (map_of) - what "
                  "the code does; the statement does not exclude duplicate names.",
    "assumptions": ["the driver is in-package (internal/rules) and wraps rule.Route values; a rename of ruleImpl/routeImpl fields or of the "
                    "Route interface breaks the driver, not the property",
                    "every entry point sets RawPath for a non-empty path: HTTP = EscapedPath (requestcontext/extract_url.go), Envoy = the received "
                    ":path since ae6db4f (Path = its decoding, \"\" if not validly encoded); a view without RawPath arises only from callers that "
                    "build heimdall.Request themselves (driver style `direct`) - taken from the observed view"],
}
