"""C03 check configuration (see lib/runner.py for the meaning of the keys)."""

P = {
    "id": "C03",
    "claimed": False,  # flip to True once bin/check is green AND Properties/C03.v has real theorems
    "coq_targets": ["Properties/C03.vo", "Run/Eval_C03.vo"],
    "theorems_module": "Properties.C03",
    "theorems": ["C03_method_list_semantics", "C03_method_list_rejected", "C03_hosts_any", "C03_decode_per_setting",
                 "C03_route_matches_iff", "C03_captures_exact", "C03_unnamed_not_exposed",
                 "C03_F1_refuted", "C03_F2_refuted", "C03_F3_refuted", "C03_F4_refuted", "C03_F5_refuted",
                 "C03_F5_panic_refuted", "C03_F6_refuted", "C03_F7_refuted", "C03_F8_refuted", "C03_nonvacuous"],
    "streams": [{
        "name": "routes", "pkg": "./internal/rules", "test": "TestVerifC03",
        "overlay": {"internal/rules/zz_verif_c03_test.go": "c03/c03_test.go"},
        "eval_module": "Run.Eval_C03", "check_term": "check false false",
        "n_quick": 1200, "n_thorough": 30000, "shard": 100,
        "findings": {1: "C03-F1", 2: "C03-F2", 3: "C03-F3", 4: "C03-F4", 5: "C03-F5", 6: "C03-F6", 7: "C03-F7", 8: "C03-F8"},
    }],
    "rule": "tbd",
    "anchors": ["internal/rules/route_matcher.go", "internal/rules/typed_matcher.go", "internal/rules/rule_impl.go",
                "internal/rules/rule_factory_impl.go", "internal/x/radixtree/tree.go", "internal/rules/config/matcher.go",
                "internal/rules/repository_impl.go", "docs/content/docs/rules/regular_rule.adoc"],
    "trusted": [],
    "level_text": "tbd",
    "level_note": "tbd",
    "assumptions": [],
}
