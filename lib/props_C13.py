"""C13 check configuration (see lib/runner.py for the meaning of the keys)."""

ASSEMBLY_OVERLAY = {
    "internal/zzverif/assembly/assembly.go": "assembly/assembly.go",
    "internal/zzverif/assembly/handlers.go": "assembly/handlers.go",
    "internal/handler/decision/zz_verif_export.go": "assembly/export/decision_export.go",
    "internal/handler/proxy/zz_verif_export.go": "assembly/export/proxy_export.go",
    "internal/handler/envoyextauth/grpcv3/zz_verif_export.go": "assembly/export/envoy_export.go",
    "internal/zzverif/assembly/listeners.go": "assembly/listeners.go",
}

P = {
    "id": "C13",
    "coq_targets": ["Properties/C13.vo", "Run/Eval_C13.vo"],
    "theorems_module": "Properties.C13",
    "theorems": ["C13_three_entry_points_agree_repo", "C13_slash_check_agrees_repo",
                 "C13_same_lookup", "C13_same_view", "C13_same_decision", "C13_same_upstream_headers",
                 "C13_three_entry_points_agree",
                 "C13_header_lookup_agrees", "C13_header_accessors_agree_repo", "C13_header_accessors_agree",
                 "C13_headers_agree_except_host", "C13_headers_host_key",
                 "C13_cookie_readers_agree", "C13_plain_line_plain_for",
                 "C13_F1_pinned_refuted", "C13_F1_pinned_refuted_decision", "C13_F2_pinned_refuted", "C13_F3_pinned_refuted",
                 "C13_F4_pinned_refuted", "C13_F4_pinned_refuted_view", "C13_F6_pinned_refuted", "C13_F7_pinned_refuted",
                 "C13_F3b_refuted", "C13_F5_refuted", "C13_F5_refuted_handover", "C13_F8_refuted", "C13_F9_refuted",
                 "C13_nonvacuous", "C13_nonvacuous_pinned", "C13_nonvacuous_redirect",
                 "C13_deployed_decision_same_url", "C13_F10_refuted"],
    "streams": [{
        "name": "entrypoints", "pkg": "./internal/zzverif/c13", "test": "TestVerifC13",
        "overlay": dict(ASSEMBLY_OVERLAY, **{"internal/zzverif/c13/c13_test.go": "c13/c13_test.go"}),
        "eval_module": "Run.Eval_C13", "check_term": "check_repo",
        "n_quick": 1200, "n_thorough": 24000,
        "findings": {3: "C13-F3b", 5: "C13-F5", 8: "C13-F8", 9: "C13-F9"},
        "shard": 100,
    }, {
        "name": "deployed", "pkg": "./internal/zzverif/c13", "test": "TestVerifC13Deployed",
        "overlay": dict(ASSEMBLY_OVERLAY, **{"internal/zzverif/c13/c13_test.go": "c13/c13_test.go"}),
        "eval_module": "Run.Eval_C13", "check_term": "check_tp",
        "n_quick": 400, "n_thorough": 6000, "findings": {10: "C13-F10"}, "shard": 150,
    }],
    "rule": "per group of 40 cases one generated rule set of 4-7 rules (path expressions /rK/lit, /rK/:name, /rK/:a/x/:b, /rK/**, "
            "/rK/*rest, /rK/v1/:name; allow_encoded_slashes unset/off/on/no_decode; optional method constraint; optional cel authorizer and "
            "step-level `if` conditions `<read> == \"const\"`; 0-3 header/cookie finalizer steps whose templates are constants or echo one "
            "read, header names may repeat across steps; 3-7 probe reads echoed by a header finalizer), loaded into the three REAL assembled "
            "applications (decision and proxy handler stacks served in-process, Envoy ext_authz over a loopback gRPC connection); reads = "
            "method, scheme, host, URL.Path, RawPath, RawQuery, String(), one capture, all captures, Header(name in any casing, Host, "
            "Content-Type, absent), Headers(), Cookie(name), Body(), client addresses.  Logical requests aimed at a rule (93%) or at none: "
            "path segments from a pool of plain and percent-encoded values (%20, %41, %2F, %2f, %25, brackets, UTF-8), 4 methods (the method "
            "constraint is violated on purpose in a share), http/https, 4 hosts, 7 queries, 0-3 header names in random casing with repeated "
            "lines, an optional Cookie line (plain, quoted, spaces, commas, odd separators, invalid names), optional Content-Type + body "
            "(json/form/yaml/text/unknown, valid, invalid and empty bodies); in a third of the requests the client itself sends a "
            "header (any casing, one or two lines) or a cookie under a name the rule's pipeline sets; requests are aimed at the rule's "
            "conditions (header, cookie, capture, method, scheme, host, query) in 60% so that pipelines run to their end.  The same "
            "request goes to all three entry points.  Corpus "
            "(24 cases, the witnesses of C13-F1..F8 and F3b) first.  Non-trivial = a rule matched and its pipeline reads the view in a condition "
            "or a template; distinct by hash of (rule, request).",
    "anchors": ["internal/handler/requestcontext/request_context.go", "internal/handler/decision/request_context.go",
                "internal/handler/proxy/request_context.go", "internal/handler/envoyextauth/grpcv3/request_context.go",
                "internal/handler/envoyextauth/grpcv3/handler.go", "internal/heimdall/context.go",
                "internal/rules/repository_impl.go", "internal/rules/rule_impl.go", "internal/rules/rule_executor_impl.go"],
    "trusted": [
        "encoding of a logical request for Envoy (mk_envoy, in the driver and mirrored in the model): CheckRequest with path and query "
        "in separate fields as heimdall's own gRPC tests build it (real Envoy puts the query into `path` and adds :authority/:path "
        "pseudo headers - not modelled), lower-case header names, repeated header lines joined with ',' (cookie: '; '), the peer as "
        "gRPC metadata x-forwarded-for",
        "oracles (observed per case, not modelled): the body decoders contenttype.NewDecoder/Decode (JSON, form, YAML) on (Content-Type, "
        "body) and (Content-Type, empty body), as JSON text; net/http's EscapedPath() of the request path (checked to equal the model's "
        "Base/GoUrl.v computation)",
        "rule lookup is not modelled here (C02/C03): theorems quantify over an arbitrary lookup function of (path, method, scheme, "
        "host); the driver builds each request path from the targeted rule's pattern, so the matching rule and the raw captures are "
        "known by construction and are data of the case",
        "mechanisms are modelled as programs over reads of the view (cel authorizer / step `if`: `<read> == const`, a missing map key is "
        "an evaluation error = internal error; header/cookie finalizer templates: constant or echo, a missing key prints `<no value>`); "
        "CEL and text/template themselves are not modelled",
        "projection of the hand-over (driver): decision = response headers + Set-Cookie name=value; proxy = what the echo upstream "
        "received for the pipeline's header and cookie names; envoy = OkResponse header options, the Cookie option cut at the pipeline's "
        "cookie names; maps compared as sets",
        "net/textproto CanonicalMIMEHeaderKey, net/http's cookie reader (readCookies/parseCookieValue) and sanitizeCookieValue, "
        "net/url (Base/GoUrl.v) are mirrored in Gallina and compared with the real library through every case",
        "the assembly harness (harness/assembly): fx application as in cmd/serve; decision/proxy handler obtained through an overlay "
        "export of newService; the Envoy service is the real gRPC server on a loopback port",
    ],
    "level_text": "Proof (kernel-checked, no axioms): for every well-formed logical request, every rule lookup function and every "
                  "pipeline (an arbitrary terminating program that reads the request view - captures, headers, cookies, decoded body, URL "
                  "parts, method, client addresses - emits upstream headers/cookies and allows or fails), the HTTP decision service, the "
                  "proxy service and the Envoy ext_authz service (model of the three request contexts, the executor's two-phase use of "
                  "the view and the three Finalize) reach the same decision, match the same rule, answer every read of the view alike "
                  "and hand the same headers and cookies over.  For /repo as it is (six findings repaired by fix: commits) the only "
                  "guards left are three open findings: cookie reading/writing (C13-F5), Headers() as a whole (C13-F8) and blank-padded "
                  "values of a header added twice (C13-F3b), each with a proved witness that the entry points differ; captures, header "
                  "names, Host, URL.Path/RawPath/String(), the encoded-slash check, the body and multi-valued headers are unguarded "
                  "(C13_three_entry_points_agree_repo, C13_repo_guards, C13_repo_guards_fire).  The same theorems hold for every subset "
                  "of the repairs (record `fixes`), and each repaired finding keeps a _pinned_refuted witness (differs without the "
                  "repair, agrees with it, same request).  Decision and proxy share one context and agree without any guard.  Lemmas of "
                  "independent use: Header(n) agrees for ALL names and header multisets; net/http's and grpcv3's cookie readers agree on "
                  "every plain Cookie line.  The model is tied to the code by sending ~1200 (quick) / 24000 (thorough) generated "
                  "requests per run to the three real assembled applications loaded with generated rule sets and comparing decision, "
                  "matched rule, the echoed view and the hand-over with the model inside Coq; the property predicate (three "
                  "observations equal) is evaluated on the observations.",
    "level_note": "Trusted: Coq kernel/vm_compute; the correspondence harness incl. the Envoy encoding of a request and the projection "
                  "of the hand-over (header values as read off the wire: surrounding blanks trimmed, several lines joined with ','); "
                  "body decoders are oracles; rule lookup is an arbitrary function (C02/C03); CEL/text-template reduced to "
                  "`read == const` and echo.  FIXED (fix: commits, findings/C13.json `fixed`, evaluator expects the repaired variant "
                  "`check_repo`, revert of each commit in a scratch worktree => VIOLATION): C13-F1 b2286d8 (Envoy context rebuilt the "
                  "view: captures lost), F2 7c3e9fc (Header(name) not canonicalised under Envoy), F3 a5ef279 (multi-valued pipeline "
                  "header: first value vs joined), F4 ae6db4f (escaped path in URL.Path, RawPath empty, allow_encoded_slashes: off never "
                  "fired under Envoy), F6 06faa19 (Header(\"Host\")), F7 19923cd (Body of a body-less request).  OPEN with guards: F5 "
                  "(cookies: net/http's reader/sanitiser vs plain split/concat), F8 (Headers() lacks the Host key under Envoy; grpcv3's "
                  "own unit test pins the map), F3b (blanks around values of a header added twice).  Not covered: X-Forwarded-* on the "
                  "HTTP side (C09), the upstream URL and header pass-through of the proxy (C15), multi-hop client address lists.",
    "assumptions": [
        "a logical request is well-formed (wf_lreqb, checked on every case): header names are tokens, no Host/X-Forwarded-*/Forwarded "
        "line, values without surrounding blanks, at most one Cookie line, path starts with '/' and is validly percent-encoded",
        "Envoy delivers the request as mk_envoy says (see trusted); real Envoy's pseudo headers and query-in-path are out of scope",
        "hosts are plain host[:port] values that url.URL.String() does not escape (the model of String() writes the host as it is)",
        "a client header / cookie that arrives at the upstream exactly as the client sent it counts as passed through, not as handed "
        "over by the pipeline (pass-through is C15's); everything else under a name the pipeline can set counts, so a pipeline value "
        "appended to the client's instead of replacing it is a difference (seeded change C13-1); Envoy is taken to overwrite a request "
        "header with an OkResponse header option (heimdall sets no append flag); pipeline header name Host is not generated",
        "header and cookie finalizer templates are never empty (an empty template string is a nil template: panic in Render, recovered "
        "as 500 by the HTTP services and as gRPC Internal by the Envoy service - C19 territory, noted in docs/notes/C13.md)",
    ],
}
