"""C13 check configuration (see lib/runner.py for the meaning of the keys)."""

ASSEMBLY_OVERLAY = {
    "internal/zzverif/assembly/assembly.go": "assembly/assembly.go",
    "internal/zzverif/assembly/handlers.go": "assembly/handlers.go",
    "internal/handler/decision/zz_verif_export.go": "assembly/export/decision_export.go",
    "internal/handler/proxy/zz_verif_export.go": "assembly/export/proxy_export.go",
    "internal/handler/envoyextauth/grpcv3/zz_verif_export.go": "assembly/export/envoy_export.go",
    "internal/zzverif/assembly/listeners.go": "assembly/listeners.go",
}

P = {
    "id": "C13",
    "coq_targets": ["Properties/C13.vo", "Run/Eval_C13.vo"],
    "theorems_module": "Properties.C13",
    "theorems": ["C13_three_entry_points_agree_repo", "C13_slash_check_agrees_repo",
                 "C13_same_lookup", "C13_same_view", "C13_same_decision", "C13_same_upstream_headers",
                 "C13_three_entry_points_agree",
                 "C13_header_lookup_agrees", "C13_header_accessors_agree_repo", "C13_header_accessors_agree",
                 "C13_headers_agree_except_host", "C13_headers_host_key",
                 "C13_cookie_readers_agree", "C13_plain_line_plain_for",
                 "C13_F1_pinned_refuted", "C13_F1_pinned_refuted_decision", "C13_F2_pinned_refuted", "C13_F3_pinned_refuted",
                 "C13_F4_pinned_refuted", "C13_F4_pinned_refuted_view", "C13_F6_pinned_refuted", "C13_F7_pinned_refuted",
                 "C13_F3b_refuted", "C13_F5_refuted", "C13_F5_refuted_handover", "C13_F8_refuted", "C13_F9_pinned_refuted", "C13_F11_pinned_refuted",
                 "C13_nonvacuous", "C13_nonvacuous_pinned", "C13_nonvacuous_redirect",
                 "C13_deployed_decision_same_url", "C13_deployed_decision_same_url_repo", "C13_F10_pinned_refuted"],
    "streams": [{
        "name": "entrypoints", "pkg": "./internal/zzverif/c13", "test": "TestVerifC13",
        "overlay": dict(ASSEMBLY_OVERLAY, **{"internal/zzverif/c13/c13_test.go": "c13/c13_test.go"}),
        "eval_module": "Run.Eval_C13", "check_term": "check_repo",
        "n_quick": 1100, "n_thorough": 24000,
        "findings": {3: "C13-F3b", 5: "C13-F5", 8: "C13-F8"},
        "shard": 100,
    }, {
        "name": "deployed", "pkg": "./internal/zzverif/c13", "test": "TestVerifC13Deployed",
        "overlay": dict(ASSEMBLY_OVERLAY, **{"internal/zzverif/c13/c13_test.go": "c13/c13_test.go"}),
        "eval_module": "Run.Eval_C13", "check_term": "check_tp_repo",
        "n_quick": 300, "n_thorough": 6000, "findings": {}, "shard": 150,
    }, {
        "name": "interleaved", "pkg": "./internal/zzverif/c13", "test": "TestVerifC13Interleaved",
        "overlay": dict(ASSEMBLY_OVERLAY, **{"internal/zzverif/c13/c13_test.go": "c13/c13_test.go"}),
        "eval_module": "Run.Eval_C13", "check_term": "check_il",
        "n_quick": 120, "n_thorough": 2000, "findings": {}, "shard": 200,
    }],
    "rule": "Stream entrypoints: per group of 40 cases one generated rule set of 4-7 rules (path expressions /rK/lit, /rK/:name, "
            "/rK/:a/x/:b, /rK/**, /rK/*rest, /rK/v1/:name; allow_encoded_slashes unset/off/on/no_decode; optional route conditions on "
            "method, scheme and exact host; optional cel authorizer and step-level `if` conditions `<read> == \"const\"`; optional "
            "on_error redirect handler whose target echoes a read; 0-3 header/cookie finalizer steps whose templates are constants or "
            "echo one read, header names may repeat across steps, one cookie name that net/http rejects; 3-7 probe reads echoed by a "
            "header finalizer), loaded into the three REAL assembled applications (decision and proxy handler stacks served "
            "in-process, the Envoy ext_authz grpc.Server over a loopback gRPC connection); reads = method, scheme, host, URL.Path, "
            "RawPath, RawQuery, String(), one capture, all captures, Header(name in any casing, Host, Content-Type, absent), Headers(), "
            "Cookie(name, also in another casing than sent), Body(), client addresses.  Logical requests aimed at a rule (93%) or at "
            "none: path segments from a pool of plain and percent-encoded values (%20, %41, %2F, %2f, %25, brackets, UTF-8), dot "
            "segments, '..', '//', '%2e%2E', the former place-holder text; 8 methods incl. a lower-case one (route conditions are "
            "violated on purpose in a share); http/https; 6 hosts incl. mixed case; 7 queries; 0-3 header names in random casing with "
            "repeated lines; an optional Cookie line (plain, quoted, spaces, commas, odd separators, invalid names, names in other "
            "casings); optional Content-Type + body (json/form/yaml/text/unknown, valid, invalid and empty bodies); in a third of the "
            "requests the client itself sends a header (any casing, one or two lines) or a cookie under a name the rule's pipeline "
            "sets; requests are aimed at the rule's conditions in 60%.  Per request the Envoy conveyance is drawn: body in `body` "
            "(Envoy's default) / `raw_body` / both; on the HTTP side sized (Content-Length) or streamed (Transfer-Encoding: chunked); "
            "request target as documented (query inside `path`, `query` empty) or in separate "
            "fields.  The same request goes to all three entry points.  Corpus (36 cases: witnesses of C13-F1..F9, F11, F3b - the only input "
            "on which guard F3b fires, the generator draws no blank-padded values -, of the seeded changes C13-1 and C13-3 and of the "
            "audit's blind spots) first.  Stream deployed: one logical request (method, scheme, host, "
            "path of 1-3 pool segments, one of 31 queries) sent to a decision service directly and, described by X-Forwarded-Method/"
            "-Proto/-Host/-Uri from a trusted proxy, to a decision service with trusted_proxies; both echo method and URL parts; 5 corpus cases (the witnesses of C13-F10) first.  "
            "Stream interleaved: request 1 (body of one of 12 content-type/shape pairs) through each entry point with a rule whose "
            "pipeline reads the body, waits for a contextualizer endpoint (the driver's hook, which meanwhile sends a second request "
            "of the same shape with other values through decision, proxy or Envoy) and reads the body again; GOMAXPROCS(1).  "
            "Non-trivial = a rule matched and its pipeline reads the view in a condition or a template (stream 1) / the request has a "
            "query (stream 2) / every pair (stream 3); distinct by hash of (rule, request).",
    "anchors": ["internal/handler/requestcontext/request_context.go", "internal/handler/decision/request_context.go",
                "internal/handler/proxy/request_context.go", "internal/handler/envoyextauth/grpcv3/request_context.go",
                "internal/handler/envoyextauth/grpcv3/handler.go", "internal/heimdall/context.go",
                "internal/rules/repository_impl.go", "internal/rules/rule_impl.go", "internal/rules/rule_executor_impl.go"],
    "trusted": [
        "encoding of a logical request for Envoy (mk_envoy, in the driver and mirrored in the model): CheckRequest; request target "
        "drawn per request: query inside `path` (Envoy's documented shape) or path and query in separate fields (as heimdall's own "
        "gRPC tests build it); body in `body` / `raw_body` / both, drawn per request; Envoy's :authority/:path pseudo headers are "
        "not modelled; lower-case header names, repeated header lines joined with ',' (cookie: '; '), the peer as gRPC metadata "
        "x-forwarded-for",
        "oracles (observed per case, not modelled): the body decoders contenttype.NewDecoder/Decode (JSON, form, YAML) on (Content-Type, "
        "body) and (Content-Type, empty body), as JSON text; net/http's EscapedPath() of the request path (checked to equal the model's "
        "Base/GoUrl.v computation)",
        "rule lookup is not modelled here (C02/C03): theorems quantify over an arbitrary lookup function of (path, method, scheme, "
        "host); the driver builds each request path from the targeted rule's pattern, so the matching rule and the raw captures are "
        "known by construction and are data of the case",
        "mechanisms are modelled as programs over reads of the view (cel authorizer / step `if`: `<read> == const`, a missing map key is "
        "an evaluation error = internal error; header/cookie finalizer templates: constant or echo, a missing key prints `<no value>`); "
        "CEL and text/template themselves are not modelled",
        "projection of the hand-over (driver): decision = response headers + Set-Cookie name=value; proxy = what the echo upstream "
        "received for the pipeline's header and cookie names; envoy = OkResponse header options, the Cookie option cut at the pipeline's "
        "cookie names; maps compared as sets",
        "net/textproto CanonicalMIMEHeaderKey, net/http's cookie reader (readCookies/parseCookieValue) and sanitizeCookieValue, "
        "net/url (Base/GoUrl.v) are mirrored in Gallina and compared with the real library through every case",
        "the assembly harness (harness/assembly): fx application as in cmd/serve; decision/proxy handler obtained through an overlay "
        "export of newService; the Envoy service is the real gRPC server on a loopback port",
    ],
    "level_text": "Proof (kernel-checked, no axioms): for every well-formed logical request, every conveyance of it to Envoy (body in "
                  "`body`/`raw_body`/both; query inside `path` or in its own field), every rule lookup function and every pipeline with "
                  "its error pipeline (arbitrary terminating programs that read the request view - captures, headers, cookies, decoded "
                  "body, URL parts, method, client addresses -, emit upstream headers/cookies and allow, fail or redirect), the HTTP "
                  "decision service, the proxy service and the Envoy ext_authz service (model of the three request contexts, the "
                  "executor's two-phase use of the view and the three Finalize) reach the same decision incl. the redirect target, match "
                  "the same rule, answer every read of the view alike and hand the same headers and cookies over - outside the guards of "
                  "the findings that are open in the tree.  The theorems hold for every subset of the repairs (record `fixes`); for "
                  "/repo (nine findings repaired by fix: commits) the open guards are: a Cookie(n) read whose own parts of the Cookie line "
                  "are not plain and sanitised cookie values on hand-over (C13-F5), Headers() read as a whole map (C13-F8: the key Host; "
                  "every other key is proved equal), blank-padded values of a header added twice (C13-F3b) - captures, header names, Host, "
                  "URL parts, the encoded-slash check, the body in either Envoy field and the query inside Envoy's `path` are unguarded; "
                  "Decision and proxy share one Go type (requestcontext.RequestContext) and one model function: that they see the same view and "
                  "decide alike is by construction of the model and checked by the runs only; proved are HTTP context vs Envoy context "
                  "and the three Finalize.  Each open or repaired finding has a proved witness (differs without the repair, agrees with it, same request).  "
                  "Separately: conveyed through X-Forwarded-* by a trusted proxy (the decision service as deployed) a request gives the "
                  "same method, scheme, host, path and query as when received directly (no guard since fix: f446e16; the pinned "
                  "re-encoding of the query is kept as C13_F10_pinned_refuted).  Lemmas of independent use: Header(n) agrees for ALL names and header multisets; Headers() agree on every "
                  "key but Host; net/http's and grpcv3's cookie readers agree under a name whenever the parts concerning that name are "
                  "plain.  The model is tied to the code by sending ~1100 (quick) / 24000 (thorough) generated requests per run to the "
                  "three real assembled applications loaded with generated rule sets, plus 300 / 6000 requests to two decision services "
                  "(direct / behind a trusted proxy) and 120 / 2000 interleaved request pairs (the body as the pipeline sees it before and after "
                  "another request in flight read its body: the model ASSUMES that the contexts of requests in flight share no state - "
                  "each caches its own decoded body - and this stream is what tests that assumption, on one P), and comparing "
                  "with the model inside Coq; the property predicate (the observations "
                  "of the entry points are equal) is evaluated on the observations, never on the model.",
    "level_note": "Trusted: Coq kernel/vm_compute; the correspondence harness incl. the Envoy encoding of a request (lower-case header "
                  "names, repeated lines joined with ',', cookie lines with '; ', the peer as x-forwarded-for metadata; body and "
                  "request-target conveyance are drawn per request, see rule) and the projection of the hand-over (header values as "
                  "read off the wire: surrounding blanks trimmed, several lines joined with ','; a client header that arrives unchanged "
                  "is pass-through; Envoy header options are applied to the client's headers as Envoy's ext_authz filter would); body "
                  "decoders are oracles; rule lookup is an arbitrary function (C02/C03), in the run the match is known by construction; "
                  "CEL/text-template reduced to `read == const` and echo; the model-vs-code comparison looks at allowed/denied, not at "
                  "the status number of a denial (C12), the property comparison at the exact status.  FIXED (fix: commits, revert of "
                  "each => VIOLATION): C13-F1 b2286d8, F2 7c3e9fc, F3 a5ef279, F4 ae6db4f, F6 06faa19, F7 19923cd, F9 58408fc, F11 "
                  "9fe653a, F10 f446e16.  OPEN with guards (no repair offered): F5, F8, F3b.  The evaluator expects the fully repaired "
                  "variant (check_repo / check_tp_repo) whatever the driver's sentinels report.  In a quick run about 22 % of the "
                  "entrypoints cases fall under an open guard (F8 18 %, F5 9 %; F3b is seen on its corpus case only); for these only the "
                  "model-vs-code comparison counts.  The interleaved stream runs on one P (GOMAXPROCS(1)) so that sync.Pool reuse is "
                  "deterministic; truly parallel requests are not exercised.  Clause -> theorem: same decision -> C13_same_decision, "
                  "C13_slash_check_agrees_repo, C13_three_entry_points_agree(_repo); same rule and captures -> C13_same_lookup; same view "
                  "-> C13_same_view with the header, Headers() and cookie theorems; same hand-over -> C13_same_upstream_headers.  Not "
                  "covered by any theorem: decision vs proxy view and decision (one Go type, one model function: by construction, "
                  "checked by the runs only); what holds inside guard F5 on the read side beyond plain_for; the status number of a "
                  "denial (compared between the observations only); client headers/cookies passed through next to the pipeline's "
                  "(C15).  Not covered at all (docs/notes/C13.md): several Cookie lines, multi-hop client address lists, URL "
                  "fragments, www_authenticate and other error handlers than redirect, the default rule, overlapping rules and "
                  "backtracking, X-Forwarded-* as pipeline header names and the upstream URL of the proxy (C15), regex/glob host "
                  "conditions (C03).",
    "assumptions": [
        "a logical request is well-formed (wf_lreqb, checked on every case): header names are tokens, no Host/X-Forwarded-*/Forwarded "
        "line, values without surrounding blanks, at most one Cookie line, path starts with '/' and is validly percent-encoded",
        "Envoy delivers the request as mk_envoy says for one of the modelled conveyances (see trusted); Envoy's pseudo headers are "
        "out of scope",
        "an X-Forwarded-Uri that url.Parse rejects (used as received since d3f6cd7) is not modelled and not generated (C09/C15); "
        "coq/C13/Http.v is a frozen copy of C09's extractURL model for requests that parse",
        "hosts are plain host[:port] values that url.URL.String() does not escape (the model of String() writes the host as it is)",
        "a client header / cookie that arrives at the upstream exactly as the client sent it counts as passed through, not as handed "
        "over by the pipeline (pass-through is C15's); everything else under a name the pipeline can set counts, so a pipeline value "
        "appended to the client's instead of replacing it is a difference (seeded change C13-1); Envoy is taken to overwrite a request "
        "header with an OkResponse header option (heimdall sets no append flag); pipeline header name Host is not generated",
        "header and cookie finalizer templates are never empty (an empty template string is a nil template: panic in Render, recovered "
        "as 500 by the HTTP services and as gRPC Internal by the Envoy service - C19 territory, noted in docs/notes/C13.md)",
    ],
}
