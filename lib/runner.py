"""Generic runner: proofs + correspondence streams for one property (DESIGN §2, §4)."""
import json
import os
import sys
import time

import vf


def run_stream(pid, st, tier, seed, n, only=None, tag=None):
    ov = vf.overlay_for(pid, st["overlay"])
    env = {"VERIF_SEED": seed, "VERIF_N": n, "VERIF_TIER": tier}
    env.update(st.get("env", {}))
    if only is not None:
        env["VERIF_ONLY"] = only
    rc, out, obs_path = vf.go_run_driver(pid, st["pkg"], st["test"], ov, env=env, race=st.get("race", False),
                                         timeout=st.get("timeout", 600 if tier == "quick" else 3000), tag=tag or st["name"])
    obs = vf.read_obs(obs_path)
    return rc, out, obs


def evaluate(pid, st, obs):
    terms = [o["coq"] for o in obs]
    if not terms:
        return {}, 0, 0, "no cases"
    return vf.eval_cases(pid, st["eval_module"], st["check_term"], terms,
                         shard_size=st.get("shard", 400))


def run_property(P, tier, seed, replay=None):
    pid = P["id"]
    rep = vf.Report(pid, tier, seed)
    open_findings = {k["id"] for k in vf.known_findings().get("findings", []) if k["property"] == pid}
    checker_cmds = []

    # 0. regenerated model parts
    for g in P.get("generators", []):
        ok, msg = g(rep)
        rep.obligation("generate:" + g.__name__, ok)
        if not ok:
            rep.notes.append(msg)

    # 1. proofs
    targets = P["coq_targets"]
    ok, out = vf.coq_make(targets)
    checker_cmds.append("cd coq && coq_makefile -f _CoqProject -o Makefile && make -j16 " + " ".join(targets))
    proofs_ok = ok
    if not ok:
        f, line = vf.coq_failed_file(out)
        rep.notes.append("proof build failed at %s:%s\n%s" % (f, line, out[-1500:]))
    ass = None
    if ok:
        ass, aout = vf.print_assumptions(pid, P["theorems_module"], P["theorems"])
        if ass is None:
            proofs_ok = False
            rep.notes.append("Print Assumptions failed: " + aout[-800:])
    for t in P["theorems"]:
        good = proofs_ok and ass is not None and t in ass and \
            ("Closed under the global context" in ass[t]["assumptions"] or
             all(a in P.get("allowed_axioms", []) for a in axiom_names(ass[t]["assumptions"])))
        rep.obligation("theorem:" + t, good)

    if tier == "thorough" and proofs_ok and not replay:
        okc, txt = vf.coqchk(P["theorems_module"])
        rep.obligation("coqchk:" + P["theorems_module"], okc)
        rep.notes.append("coqchk -silent -o: " + " ".join(txt.split())[:1200])
        checker_cmds.append("coqchk -silent -o -Q coq HV HV." + P["theorems_module"])
        if not okc:
            proofs_ok = False

    # 2. correspondence streams
    all_obs = []
    broken_streams = []
    skipped_streams = []
    green_streams = set()
    for st in P["streams"]:
        n = st["n_quick"] if tier == "quick" else st["n_thorough"]
        only = None
        if replay and replay.get("stream") == st["name"]:
            only = replay["case"]["i"]
        elif replay:
            continue
        rc, out, obs = run_stream(pid, st, tier, seed, n, only=only)
        checker_cmds.append("go test -tags verif -overlay out/%s/overlay.json -c %s && driver -test.run ^%s$ (VERIF_SEED=%s VERIF_N=%s)"
                            % (pid, st["pkg"], st["test"], seed, n))
        if rc != 0 or not obs:
            rep.notes.append("stream %s: driver failed rc=%s\n%s" % (st["name"], rc, out[-3000:]))
            rep.obligation("stream:" + st["name"], False)
            pruned = vf.stream_pruned(pid, st["test"]) if rc != 0 else None
            if pruned and st.get("supplementary") and not replay:
                # a white-box unit stream whose subject was REMOVED from the package (not renamed: harness/tools/rebind found no
                # counterpart): decided after the streams it supplements have run (docs/notes/REBIND.md)
                skipped_streams.append((st, pruned))
                continue
            broken_streams.append((st, "driver does not build or run against the current tree", []))
            continue
        rows, shards, shards_ok, elog = evaluate(pid, st, obs) if proofs_ok or True else ({}, 0, 0, "")
        if shards_ok != shards:
            rep.notes.append("stream %s: model evaluation failed: %s" % (st["name"], elog[-2000:]))
            rep.obligation("stream:" + st["name"], False)
            broken_streams.append((st, "model evaluation failed (Coq)", []))
            continue
        fmap = {g: f for g, f in st.get("findings", {}).items() if f in open_findings}
        before = len(rep.violations)
        cfpo, nviol = vf.classify_stream(rep, obs, rows, fmap, st["name"])
        rep.obligation("stream:" + st["name"], nviol == 0 and not cfpo)
        if nviol == 0 and not cfpo:
            green_streams.add(st["name"])
        if cfpo:
            broken_streams.append((st, "implementation differs from the model on %d cases" % len(cfpo), cfpo))
        for o in obs:
            o["stream"] = st["name"] + "/" + (o.get("stream") or "")
        all_obs += obs
        if replay:
            for pos, o in enumerate(obs):
                print("REPLAY case=%s obs=%s verdict(corr,prop,guards)=%s" % (o["i"], json.dumps(o["obs"]), rows.get(pos, (True, True, []))))

    for st, pruned in skipped_streams:
        if all(n in green_streams for n in st["supplementary"]):
            line = "stream %s skipped: its subject no longer exists in the package (%s); the behaviour it checks is exercised through stream(s) %s, which ran green" % (
                st["name"], "; ".join(pruned.get("needs") or []), ", ".join(st["supplementary"]))
            rep.notes.append(line)
            print("NOTE: " + line)
        else:
            broken_streams.append((st, "driver does not build or run against the current tree", []))

    # 3. correspondence broken without a failing input so far: search, then report
    for st, why, cfpo in broken_streams:
        found = False
        if cfpo is not None and tier == "quick" and not replay and st.get("escalate", True) and \
           not any(True for p, ni in rep.violations if not ni):
            n = st["n_quick"] * 5
            rc, out, obs = run_stream(pid, st, "escalated", seed + 7919, n, tag=st["name"] + "_esc")
            if rc == 0 and obs:
                rows, shards, shards_ok, elog = evaluate(pid, st, obs)
                if shards_ok == shards:
                    fmap = {g: f for g, f in st.get("findings", {}).items() if f in open_findings}
                    before = len(rep.violations)
                    sub = vf.Report(pid, tier, seed + 7919)
                    sub.dir, sub.nrep = rep.dir, 100
                    c2, nv = vf.classify_stream(sub, obs, rows, fmap, st["name"])
                    if sub.violations:
                        for p, ni in sub.violations:
                            rep.violations.append((p, ni))
                        found = True
                    rep.notes.append("escalated search on stream %s: %d cases, %d property failures" % (st["name"], len(obs), nv))
        if not found and not any(True for p, ni in rep.violations if not ni):
            rep.violation({"kind": "correspondence-broken", "stream": st["name"], "why": why,
                           "theorems_about_model": P["theorems"],
                           "examples": [{"in": o["in"], "obs": o["obs"], "i": o["i"]} for o in cfpo[:5]],
                           "replay_hint": "bin/check %s --replay <this file> re-runs the first example" % pid,
                           "case": cfpo[0] if cfpo else None,
                           "stream_name": st["name"]}, no_input=True)

    if not proofs_ok and not rep.violations:
        rep.violation({"kind": "proof-obligation-broken", "notes": rep.notes[-2:], "theorems": P["theorems"]}, no_input=True)

    cov = {
        "evaluations": len(all_obs),
        "distinct_nontrivial": vf.distinct_nontrivial(all_obs),
        "rule": P["rule"],
        "samples": vf.sample(all_obs, 4) + ([{"theorem": t, "statement": ass[t]["statement"]} for t in P["theorems"][:2]] if ass else []),
        "input_distribution": vf.histogram(all_obs),
        "theorems": ass or {},
        "source_fingerprint": vf.fingerprint(P.get("anchors", [])),
        "exhaustive": False,
    }
    cov.update(P.get("extra_coverage", lambda: {})())
    return rep.finish(cov, vf.TRUSTED_COMMON + P.get("trusted", []), " ; ".join(checker_cmds), P.get("assumptions", []))


def axiom_names(text):
    import re
    if "Closed under the global context" in text:
        return []
    return re.findall(r"([A-Za-z_][\w.]*)\s*:", text.replace("Axioms:", ""))
