"""C01 check configuration (see lib/runner.py for the meaning of the keys)."""
import glob
import json
import os


def _stats():
    """non-fatal statistics for the evidence: on how many cases of this run the implementation agrees EXACTLY with the
    model (status, gRPC code, hit count: "C12 drift" otherwise) and on how many the property predicate was vacuous because
    a hypothesis of the theorems does not hold for the generated configuration (Run/Eval_C01.v check_stats)"""
    import vf
    out = {}
    try:
        terms, streams = [], []
        for path in sorted(glob.glob(os.path.join(vf.OUT, "C01", "obs_*.jsonl"))):
            if path.endswith("_esc.jsonl"):
                continue
            for o in vf.read_obs(path):
                terms.append(o["coq"])
                streams.append(os.path.basename(path)[4:-6])
        if not terms:
            return out
        rows, shards, ok, log = vf.eval_cases("C01_stats", "Run.Eval_C01", "check_stats", terms, shard_size=400)
        if ok != shards:
            return {"stats_error": log[-400:]}
        drift = sum(1 for i in range(len(terms)) if i in rows and not rows[i][0])
        vac = sum(1 for i in range(len(terms)) if i in rows and not rows[i][1])
        skipped = sum(1 for i in range(len(terms)) if i in rows and 7 in rows[i][2])
        per_stream = {}
        for st in streams:
            per_stream[st] = per_stream.get(st, 0) + 1
        out = {"exact_status_drift_cases": drift, "property_vacuous_cases": vac, "stats_over_cases": len(terms),
               "property_vacuous_share": round(vac / float(len(terms)), 3),
               # cases with a 1xx/2xx status override: neither the projection nor the property is compared, only the hit bound
               "corr_skipped_cases": skipped, "cases_per_stream": per_stream}
    except Exception as exc:  # statistics must never break the check
        out = {"stats_error": repr(exc)[:300]}
    return out


P = {
    "id": "C01",
    "claimed": True,
    "coq_targets": ["Properties/C01.vo", "Run/Eval_C01.vo"],
    "theorems_module": "Properties.C01",
    "theorems": ["C01_positive_only_if", "C01_failed_never_reaches_upstream", "C01_answer_dichotomy",
                 "C01_error_pipeline_never_forgets", "C01_error_handler_cannot_rescue", "C01_real_mechanisms_record",
                 "C01_reached_panic_is_non_success", "C01_success_is_positive", "C01_loader_redirect_never_success",
                 "C01_silent_handler_would_rescue", "C01_no_authenticator_is_positive", "C01_success_redirect_is_positive",
                 "C01_success_redirect_value_is_positive",
                 "C01_continue_step_panic_is_reached", "C01_continue_step_condition_error_is_swallowed", "C01_nonvacuous"],
    "streams": [{
        "name": "pipeline", "pkg": "./internal/rules", "test": "TestVerifC01",
        "overlay": {
            "internal/rules/zz_verif_c01_test.go": "c01/c01_test.go",
            "internal/zzverif/stacks/stacks.go": "stacks/stacks.go",
            "internal/zzverif/stacks/errtree.go": "stacks/errtree.go",
            "internal/zzverif/stacks/request.go": "stacks/request.go",
            "internal/handler/decision/zz_verif_export.go": "export/decision_export.go",
            "internal/handler/proxy/zz_verif_export.go": "export/proxy_export.go",
            "internal/handler/envoyextauth/grpcv3/zz_verif_export.go": "export/grpcv3_export.go",
            "internal/rules/mechanisms/cellib/zz_verif_export.go": "export/cellib_export.go",
        },
        "eval_module": "Run.Eval_C01", "check_term": "check",
        "n_quick": 1200, "n_thorough": 30000, "findings": {}, "shard": 200,
    }, {
        # the same driver, race detector on: after the sequential pass every group's requests are repeated concurrently
        # (12 rounds x requests x 3 entry points through the SAME rule instance, executor and stacks) and must get the very
        # same answers and the same total of upstream hits
        "name": "concurrent", "pkg": "./internal/rules", "test": "TestVerifC01",
        "overlay": {
            "internal/rules/zz_verif_c01_test.go": "c01/c01_test.go",
            "internal/zzverif/stacks/stacks.go": "stacks/stacks.go",
            "internal/zzverif/stacks/errtree.go": "stacks/errtree.go",
            "internal/zzverif/stacks/request.go": "stacks/request.go",
            "internal/handler/decision/zz_verif_export.go": "export/decision_export.go",
            "internal/handler/proxy/zz_verif_export.go": "export/proxy_export.go",
            "internal/handler/envoyextauth/grpcv3/zz_verif_export.go": "export/grpcv3_export.go",
            "internal/rules/mechanisms/cellib/zz_verif_export.go": "export/cellib_export.go",
        },
        "eval_module": "Run.Eval_C01", "check_term": "check", "env": {"VERIF_C01_CONCURRENT": "1", "VERIF_C01_SEED_SHIFT": "77"},
        "race": True, "n_quick": 150, "n_thorough": 3000, "findings": {}, "shard": 200, "escalate": False,
    }, {
        "name": "assembled", "pkg": "./internal/zzverif/c01asm", "test": "TestVerifC01Assembled",
        "overlay": {
            "internal/zzverif/c01asm/c01asm_test.go": "c01asm/c01asm_test.go",
            "internal/zzverif/stacks/stacks.go": "stacks/stacks.go",
            "internal/zzverif/stacks/errtree.go": "stacks/errtree.go",
            "internal/zzverif/stacks/request.go": "stacks/request.go",
            "internal/handler/decision/zz_verif_export.go": "export/decision_export.go",
            "internal/handler/proxy/zz_verif_export.go": "export/proxy_export.go",
            "internal/handler/envoyextauth/grpcv3/zz_verif_export.go": "export/grpcv3_export.go",
        },
        "eval_module": "Run.Eval_C01", "check_term": "check",
        "n_quick": 240, "n_thorough": 4000, "findings": {}, "shard": 200,
    }],
    "extra_coverage": _stats,
    "rule": (
        "Stream 'pipeline' (stubs only at the subjectCreator/subjectHandler interfaces): GROUPS of 1-3 different requests through ONE "
        "rule instance, ONE executor and ONE stack per entry point.  Group = service configuration (six status overrides incl. 0, "
        "valid 3xx-9xx, rarely 1xx/2xx or invalid; accepted code unset / 2xx / rarely non-2xx or invalid) x lookup (matching rule, "
        "with or without an always-succeeding default rule behind it | default rule | no rule) x rule structure (1-4 authenticators, "
        "rarely 0; 0-6 authorizers/contextualizers; 0-3 finalizers; 0-4 error handlers: the three REAL mechanisms incl. redirect render "
        "failure and request-dependent targets rendering nothing/blanks/a URL, stubs that fail/panic, rarely a silent stub; fallback "
        "and continue-on-error flags; forward_to or not; allow_encoded_slashes off or not; decision/proxy served on a recorder or "
        "(25%) over a real loopback connection).  Per request of the group: method GET/POST/HEAD/OPTIONS(+pre-flight headers)/PUT/"
        "DELETE, path (rule path, sub path, %2F; for non-matching lookups also /, /.well-known/health, /favicon.ico, /metrics ...), "
        "an Accept header (none | supported | wildcards | unsupported | q=0 for all supported | malformed; verbose error responses "
        "are on in half of the configurations), what the upstream does (200 | 204/302/404/500 | takes the request and drops the "
        "connection), and an OUTCOME VECTOR: every "
        "step succeeds | returns an error value (random tree of depth <= 4 over heimdall sentinels, other sentinels, RedirectError, "
        "EvalError, foreign leaves, standard-library errors such as context.Canceled / DeadlineExceeded / io.EOF / net timeouts, "
        "%w / Join / ErrorChain) | panics (error or string value); every `if` is absent | a stub program (true/false/error/panic) | "
        "a really compiled CEL expression reading a request header, the method or Subject.ID, whose value differs between the "
        "requests of the group.  45% of the vectors are 'calm' (steps mostly succeed).  Stream 'concurrent' (race detector on): "
        "groups of 3-6 requests, first sequentially, then 12 rounds of all requests x 3 entry points concurrently through the same "
        "instances; the answers must be the sequential ones and the upstream hit total must add up.  Stream 'assembled' (no stubs): "
        "generated heimdall configuration (anonymous / unauthorized / basic_auth with and without allow_fallback_on_error incl. "
        "step-level `config` overrides of that flag, allow / deny / cel / remote authorizers, generic contextualizers against a local "
        "endpoint (200/500) with and without continue_pipeline_on_error incl. step-level overrides, noop / header / failing header "
        "finalizers, default / redirect (302, 301, request-dependent target) / www_authenticate handlers, optional default rule, "
        "respond overrides) + generated rule sets with real CEL `if` expressions and stage-wise inheritance, loaded through the real "
        "configuration loader, mechanism catalogue, rule factory, file_system provider, rule-set processor and repository; requests "
        "with no / good / bad credentials, with and without %2F.  non-trivial = a rule applied and at least one of its steps failed, "
        "was skipped by a false condition, had a condition that could not be evaluated, or panicked; distinct by hash of the input"),
    "anchors": ["internal/handler/middleware/http/errorhandler/formatter.go", "internal/rules/rule_factory_impl.go",
                "internal/rules/rule_impl.go", "internal/rules/rule_executor_impl.go",
                "internal/rules/composite_subject_creator.go", "internal/rules/composite_subject_handler.go",
                "internal/rules/composite_error_handler.go", "internal/rules/conditional_subject_handler.go",
                "internal/rules/conditional_error_handler.go", "internal/rules/cel_execution_condition.go",
                "internal/rules/default_execution_condition.go", "internal/rules/repository_impl.go",
                "internal/rules/mechanisms/cellib/expression.go",
                "internal/rules/mechanisms/errorhandlers/default_error_handler.go",
                "internal/rules/mechanisms/errorhandlers/redirect_error_handler.go",
                "internal/rules/mechanisms/errorhandlers/www_authenticate_error_handler.go",
                "internal/handler/service/handler.go", "internal/handler/decision/request_context.go",
                "internal/handler/decision/service.go", "internal/handler/proxy/request_context.go",
                "internal/handler/proxy/service.go", "internal/handler/envoyextauth/grpcv3/handler.go",
                "internal/handler/envoyextauth/grpcv3/request_context.go", "internal/handler/envoyextauth/grpcv3/service.go",
                "internal/handler/requestcontext/request_context.go",
                "internal/handler/middleware/http/recovery/handler.go",
                "internal/handler/middleware/http/errorhandler/error_handler.go",
                "internal/handler/middleware/grpc/errorhandler/interceptor.go"],
    "trusted": [
        "what a mechanism computes is data: stream 'pipeline' uses programmable stubs at the subjectCreator/subjectHandler interfaces "
        "and renders what the stubs were told to do; stream 'assembled' uses real mechanisms and renders a hand-written table of what "
        "each of them does on the case's request (asmCoqAuthn/asmCoqStep/asmCoqEH) plus the stage-wise inheritance (C14). Both "
        "renderings are trusted; a wrong table shows as a correspondence failure on the unchanged tree (none: exact drift 0)",
        "CEL evaluation is data: a stub cel.Program inside the real CompiledExpression, or a really compiled expression whose value "
        "on the request is computed by the driver (header set by the driver, method, fixed Subject.ID)",
        "rule matching is not modelled (C02/C03): the lookup situation is set up through the real repository with trivial routes",
        "the upstream is a local test server (answers with a status or drops the connection after taking the request); slow "
        "upstreams, 100-continue, upgrades are not generated",
        "the error translators and the redirect handler constructor are the C12 model (http_respond / grpc_respond, "
        "create_redirect, which C12's creation probe ties to the real constructor); correspondence for C01 is on the projection "
        "(success status or not / accepted status / upstream reached or not); exact agreement of status, gRPC code and hit count is "
        "reported as a statistic (exact_status_drift_cases) and never fatal; on cases with a 1xx/2xx status override (rare, part of "
        "property_vacuous_share, counted as corr_skipped_cases) the projection is not compared either: only the upstream hit bound "
        "is checked, the rest is left to the non-fatal exact statistic",
        "HTTP answers are read from httptest.ResponseRecorder or (25% of the groups) from a real loopback connection; TLS, HTTP/2, "
        "deadlines are not exercised",
        "not distinguished (unreachable in heimdall): errors.Is vs identity for the package-private errErrorHandlerNotApplicable, a "
        "CEL program error wrapping cellib.EvalError, a non-bool CEL result, an authenticator returning (nil, nil)",
        "shared driver helpers harness/stacks (request construction, in-memory gRPC listener, socket server, modal counting upstream, "
        "error-tree builder)"],
    "level_text": (
        "Proof (kernel-checked, no axioms) over rules with step lists of any length, every outcome vector and ARBITRARY error "
        "handlers that, on all three entry points, a positive answer (accepted status / forwarded to the upstream / Envoy OK) is "
        "given only if a rule or the default rule applied and its pipeline completed (an authenticator produced a subject, every "
        "step not marked continue-on-error was skipped by a false condition or returned without error); that otherwise - no rule, a "
        "mechanism error, a condition that cannot be evaluated, any error pipeline whose handlers record before they report success "
        "(shown for heimdall's three), a reached panic (stated on the rule alone, incl. continue-on-error steps) - the answer is a "
        "non-1xx/2xx status, a non-OK gRPC result or a dropped connection, and the upstream is not contacted; that there is no third kind of answer; and "
        "conversely (liveness) that a succeeded pipeline is answered positively.  The property predicate of the check is built from "
        "this specification and evaluated on the implementation's observations; the model is tied to the code on the projection the "
        "statement talks about by three streams per run: ~1200/30000 requests in groups through shared real composites / conditions "
        "/ error handlers / repository / executor / service stacks with a modal counting upstream, a concurrent pass under the race "
        "detector, and 240/4000 requests through a fully real configuration (no stubs)."),
    "level_note": (
        "8 property theorems + 1 corollary (C01_error_handler_cannot_rescue is C01_failed_never_reaches_upstream at a rule with a "
        "replaced error pipeline, stated separately because the statement has the clause; its independent content is "
        "C01_error_pipeline_never_forgets + C01_real_mechanisms_record) + 7 witnesses (computations on concrete rules: why each "
        "hypothesis is there, non-vacuity, how the statement is read for continue-on-error steps; the redirect-handler witness uses a "
        "handler the loader rejects since fix 6c5864d and is kept to show why that check matters, the redirect-value witness is the "
        "live one).  Hypotheses: no status override in 100..299; for the decision service the accepted code in 100..299; the rule has "
        "an authenticator (C14); error VALUES produced by mechanisms/conditions/panics carry no RedirectError with a 1xx/2xx code "
        "(assumed; by reading, the only place in heimdall that builds a RedirectError is redirect_error_handler.go, whose code is "
        "300..399 since fix 6c5864d: C01_loader_redirect_never_success, over C12's create_redirect, which C12's creation probe ties "
        "to the real constructor); every error handler records a pipeline error before returning nil (semantic condition on "
        "arbitrary handlers; holds for the three mechanisms per C12's model of them).  Reading of the statement: 'an authenticator "
        "produced a subject' does not ask whether falling back was legitimate (C04); continue-on-error steps are exempt as a whole, "
        "including evaluation errors of their conditions, which the code swallows.  Trusted: Coq kernel/vm_compute; the harness; what "
        "mechanisms and CEL compute is data.  On ~12% of the generated cases (quick, seed 1: 192 of 1674) the property predicate is "
        "vacuous because a hypothesis fails for the generated configuration: a 1xx/2xx status override (32 cases; there the "
        "projection is not compared either, only the upstream hit bound), a decision accepted code outside 1xx/2xx, a silent stub "
        "anywhere in the error pipeline - reached or not -, no authenticator (reported per run as property_vacuous_share / "
        "corr_skipped_cases).  Not covered: panics raised outside mechanisms/conditions/error handlers (Finalize, the reverse proxy "
        "incl. http.ErrAbortHandler on an upstream abort, translators, middlewares) have no theorem - the upstream-abort mode of the "
        "streams exercises the reverse-proxy case only; CORS or other middleware shortcuts when configured (assumption: no CORS); "
        "TLS/HTTP2; slow upstreams; more than ~6 requests per rule instance.  No shrinking of failing cases (the runner writes the "
        "first raw cases).  No open finding."),
    "assumptions": [
        "no CORS is configured for the proxy service (with serve.proxy.cors set, rs/cors answers an OPTIONS pre-flight 204 itself "
        "without any rule being executed - no upstream contact, but a 2xx without a pipeline); trusted_proxies unset",
        "status overrides outside 100..299; accepted code of the decision service inside",
        "rules come from the rule factory: at least one authenticator; error handlers record before returning nil",
        "error values carry no RedirectError with a 1xx/2xx code",
        "1xx codes are observed on httptest.ResponseRecorder / a plain HTTP/1.1 client"],
}
