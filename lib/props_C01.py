"""C01 check configuration (see lib/runner.py for the meaning of the keys)."""
import glob
import json
import os


def _stats():
    """non-fatal statistics for the evidence: on how many cases of this run the implementation agrees EXACTLY with the
    model (status, gRPC code, hit count: "C12 drift" otherwise) and on how many the property predicate was vacuous because
    a hypothesis of the theorems does not hold for the generated configuration (Run/Eval_C01.v check_stats)"""
    import vf
    out = {}
    try:
        terms, streams = [], []
        for path in sorted(glob.glob(os.path.join(vf.OUT, "C01", "obs_*.jsonl"))):
            if path.endswith("_esc.jsonl"):
                continue
            for o in vf.read_obs(path):
                terms.append(o["coq"])
                streams.append(os.path.basename(path)[4:-6])
        if not terms:
            return out
        rows, shards, ok, log = vf.eval_cases("C01_stats", "Run.Eval_C01", "check_stats", terms, shard_size=400)
        if ok != shards:
            return {"stats_error": log[-400:]}
        drift = sum(1 for i in range(len(terms)) if i in rows and not rows[i][0])
        vac = sum(1 for i in range(len(terms)) if i in rows and not rows[i][1])
        out = {"exact_status_drift_cases": drift, "property_vacuous_cases": vac, "stats_over_cases": len(terms),
               "property_vacuous_share": round(vac / float(len(terms)), 3)}
    except Exception as exc:  # statistics must never break the check
        out = {"stats_error": repr(exc)[:300]}
    return out


P = {
    "id": "C01",
    "claimed": True,
    "coq_targets": ["Properties/C01.vo", "Run/Eval_C01.vo"],
    "theorems_module": "Properties.C01",
    "theorems": ["C01_positive_only_if", "C01_failed_never_reaches_upstream", "C01_answer_dichotomy",
                 "C01_error_pipeline_never_forgets", "C01_error_handler_cannot_rescue", "C01_real_mechanisms_record",
                 "C01_reached_panic_is_non_success", "C01_success_is_positive", "C01_loader_redirect_never_success",
                 "C01_silent_handler_would_rescue", "C01_no_authenticator_is_positive", "C01_success_redirect_is_positive",
                 "C01_continue_step_panic_is_reached", "C01_continue_step_condition_error_is_swallowed", "C01_nonvacuous"],
    "streams": [{
        "name": "pipeline", "pkg": "./internal/rules", "test": "TestVerifC01",
        "overlay": {
            "internal/rules/zz_verif_c01_test.go": "c01/c01_test.go",
            "internal/zzverif/stacks/stacks.go": "stacks/stacks.go",
            "internal/zzverif/stacks/errtree.go": "stacks/errtree.go",
            "internal/zzverif/stacks/request.go": "stacks/request.go",
            "internal/handler/decision/zz_verif_export.go": "export/decision_export.go",
            "internal/handler/proxy/zz_verif_export.go": "export/proxy_export.go",
            "internal/handler/envoyextauth/grpcv3/zz_verif_export.go": "export/grpcv3_export.go",
            "internal/rules/mechanisms/cellib/zz_verif_export.go": "export/cellib_export.go",
        },
        "eval_module": "Run.Eval_C01", "check_term": "check",
        "n_quick": 1200, "n_thorough": 30000, "findings": {}, "shard": 200,
    }, {
        # the same driver, race detector on: after the sequential pass every group's requests are repeated concurrently
        # (4 rounds x requests x 3 entry points through the SAME rule instance, executor and stacks) and must get the very
        # same answers and the same total of upstream hits
        "name": "concurrent", "pkg": "./internal/rules", "test": "TestVerifC01",
        "overlay": {
            "internal/rules/zz_verif_c01_test.go": "c01/c01_test.go",
            "internal/zzverif/stacks/stacks.go": "stacks/stacks.go",
            "internal/zzverif/stacks/errtree.go": "stacks/errtree.go",
            "internal/zzverif/stacks/request.go": "stacks/request.go",
            "internal/handler/decision/zz_verif_export.go": "export/decision_export.go",
            "internal/handler/proxy/zz_verif_export.go": "export/proxy_export.go",
            "internal/handler/envoyextauth/grpcv3/zz_verif_export.go": "export/grpcv3_export.go",
            "internal/rules/mechanisms/cellib/zz_verif_export.go": "export/cellib_export.go",
        },
        "eval_module": "Run.Eval_C01", "check_term": "check", "env": {"VERIF_C01_CONCURRENT": "1", "VERIF_C01_SEED_SHIFT": "77"},
        "race": True, "n_quick": 150, "n_thorough": 3000, "findings": {}, "shard": 200, "escalate": False,
    }, {
        "name": "assembled", "pkg": "./internal/zzverif/c01asm", "test": "TestVerifC01Assembled",
        "overlay": {
            "internal/zzverif/c01asm/c01asm_test.go": "c01asm/c01asm_test.go",
            "internal/zzverif/stacks/stacks.go": "stacks/stacks.go",
            "internal/zzverif/stacks/errtree.go": "stacks/errtree.go",
            "internal/zzverif/stacks/request.go": "stacks/request.go",
            "internal/handler/decision/zz_verif_export.go": "export/decision_export.go",
            "internal/handler/proxy/zz_verif_export.go": "export/proxy_export.go",
            "internal/handler/envoyextauth/grpcv3/zz_verif_export.go": "export/grpcv3_export.go",
        },
        "eval_module": "Run.Eval_C01", "check_term": "check",
        "n_quick": 240, "n_thorough": 4000, "findings": {}, "shard": 200,
    }],
    "extra_coverage": _stats,
    "rule": "service configuration (six status overrides incl. 0, valid 3xx-9xx, rare 1xx/2xx and invalid codes; accepted code unset / 2xx / "
            "non-2xx / invalid) x lookup (matching rule, with or without an always-succeeding default rule behind it | default rule | no "
            "rule) x rule (1-4 authenticators, rarely 0; 0-6 authorizers/contextualizers; 0-3 finalizers; 0-4 error handlers; forward_to "
            "present or not; allow_encoded_slashes off or not) x outcome vector (every step: success | error value = random tree of depth "
            "<= 4 over the 8 heimdall sentinels, other sentinels, RedirectError, EvalError, foreign leaves, %w / Join / ErrorChain | panic "
            "with error or string value; fallback flag; continue-on-error; every `if`: absent | true | false (stub program or really "
            "compiled CEL) | program error | panic; error handlers: the three REAL mechanisms incl. redirect render failure and request-dependent redirect targets that render "
            "nothing / blanks / a URL, stubs that "
            "fail / panic / return nil silently) x request (with or without %2F); 45% of the rules are 'calm' (steps mostly succeed) so "
            "that complete pipelines are frequent; all three entry points per case.  non-trivial = a rule applied and at least one of its "
            "steps failed, was skipped by a false condition, had a condition that could not be evaluated, or panicked; distinct by hash of "
            "the generated input.  Second stream 'assembled' (no stubs): generated heimdall configuration (real anonymous / unauthorized / "
            "basic_auth authenticators with and without allow_fallback_on_error, allow / deny / cel authorizers, generic contextualizers "
            "against a local endpoint answering 200 or 500 with and without continue_pipeline_on_error, noop / header finalizers, "
            "default / redirect(302, 301) error handlers, optional default rule, respond overrides) + generated rule sets with real CEL "
            "`if` expressions (true, false, request dependent, run-time evaluation error) and stage-wise inheritance from the default "
            "rule, loaded through the real configuration loader, mechanism catalogue, rule factory, file_system provider, rule-set "
            "processor and repository (fx modules of cmd/serve minus those that only bind sockets); requests with no / good / bad "
            "credentials, with and without %2F; the case is rendered in the model's vocabulary (what each mechanism does on that "
            "request) and checked by the same evaluator",
    "anchors": ["internal/rules/rule_impl.go", "internal/rules/rule_executor_impl.go",
                "internal/rules/composite_subject_creator.go", "internal/rules/composite_subject_handler.go",
                "internal/rules/composite_error_handler.go", "internal/rules/conditional_subject_handler.go",
                "internal/rules/conditional_error_handler.go", "internal/rules/cel_execution_condition.go",
                "internal/rules/default_execution_condition.go", "internal/rules/repository_impl.go",
                "internal/rules/mechanisms/cellib/expression.go",
                "internal/rules/mechanisms/errorhandlers/default_error_handler.go",
                "internal/rules/mechanisms/errorhandlers/redirect_error_handler.go",
                "internal/rules/mechanisms/errorhandlers/www_authenticate_error_handler.go",
                "internal/handler/service/handler.go", "internal/handler/decision/request_context.go",
                "internal/handler/decision/service.go", "internal/handler/proxy/request_context.go",
                "internal/handler/proxy/service.go", "internal/handler/envoyextauth/grpcv3/handler.go",
                "internal/handler/envoyextauth/grpcv3/request_context.go", "internal/handler/envoyextauth/grpcv3/service.go",
                "internal/handler/requestcontext/request_context.go",
                "internal/handler/middleware/http/recovery/handler.go",
                "internal/handler/middleware/http/errorhandler/error_handler.go",
                "internal/handler/middleware/grpc/errorhandler/interceptor.go"],
    "trusted": ["mechanisms are programmable stubs at the subjectCreator/subjectHandler interfaces (what a mechanism computes is data: "
                "success, an error value, a panic); the composites, conditional wrappers, celExecutionCondition + cellib.CompiledExpression, "
                "the three error handler mechanisms, repository, rule executor, the three service stacks and both error translators are the "
                "real code",
                "CEL evaluation is data: the cel.Program inside the real CompiledExpression is a stub returning the case's value / error / "
                "panic (40% of the true/false conditions are really compiled CEL expressions instead)",
                "rule matching is not modelled (C02/C03): the lookup situation is set up through the real repository with trivially "
                "matching routes",
                "the upstream is a reachable httptest server answering 200; the reverse proxy transport is not modelled",
                "the error translators are the C12 model (C12's own stream ties them to the code); statuses do not depend on content "
                "negotiation, so the C01 model runs them with a fixed oracle",
                "not distinguished by the stream (unreachable in heimdall): errors.Is vs identity for the package-private "
                "errErrorHandlerNotApplicable, a CEL program error wrapping cellib.EvalError, a non-bool CEL result",
                "assembled stream: the table 'what each real mechanism returns on the case's request' (error kinds of unauthorized, "
                "basic_auth, deny, cel, generic contextualizer) and the stage-wise inheritance from the default rule (C14) are part of "
                "the driver; the fx application is composed of heimdall's own modules without management/metrics/profiling and "
                "without the service lifecycle (no sockets): the services are built by the same newService constructors in-process",
                "shared driver helpers harness/stacks (request construction, in-memory gRPC listener, counting upstream, error-tree builder)"],
    "level_text": "Proof (kernel-checked, no axioms) over rules with step lists of any length and every outcome vector that, on all three "
                  "entry points, a positive answer (accepted status / forwarded to the upstream / Envoy OK) is given only if a rule or the "
                  "default rule applied and its pipeline completed (an authenticator produced a subject under the fallback rule, every step "
                  "not marked continue-on-error was skipped by a false condition or returned without error); that otherwise - no rule, a "
                  "mechanism error, a condition that cannot be evaluated, any error pipeline (empty, conditional, non-applicable, failing, "
                  "default/redirect/www_authenticate), a panic anywhere - the answer is a non-1xx/2xx status or a non-OK gRPC result and the "
                  "upstream is not contacted; and conversely that a completed pipeline is answered positively.  The model (rule executor, "
                  "rule, composites, conditions, error pipeline, recorded pipeline error, the three Finalize, error translation, recovery) is "
                  "tied to the code by running the real composites/conditions/error handlers/repository/executor inside the three real "
                  "service stacks with a counting upstream on ~1200 (quick) / 30000 (thorough) generated rules x outcome vectors per run, and "
                  "by a second stream without stubs (real mechanisms, configuration loader, rule factory, provider, repository; 240 / 4000 "
                  "requests) so that the stubs cannot hide glue.",
    "level_note": "Trusted: Coq kernel/vm_compute; the correspondence harness; mechanisms and CEL evaluation are data of the case. Hypotheses "
                  "are explicit and each is shown necessary by a theorem: no status override and no redirect code (error values, redirect "
                  "handler) in 100..299 and, for telling a positive decision answer from an error response, an accepted code in 100..299 "
                  "(C01_success_redirect_is_positive; C12_success_override_possible); the rule has an authenticator (guaranteed by the rule "
                  "factory, C14_accepted_only_if_wellformed; C01_no_authenticator_is_positive); every error handler is one of heimdall's "
                  "three mechanisms or fails or panics (C01_silent_handler_would_rescue: the veto rests on every mechanism recording a "
                  "pipeline error before returning nil).  The panic theorem is stated on the model's rule result (RPanic), not on an "
                  "independent 'a panic is reached' predicate.  No open finding.",
    "assumptions": ["status overrides, redirect codes outside 100..299; accepted code inside (only needed to tell positive from negative "
                    "answers of the decision service)",
                    "rules come from the rule factory: at least one authenticator, error handlers are default/redirect/www_authenticate",
                    "the upstream is reachable and answers; an authenticator that returns (nil, nil) (nil subject without error) is outside "
                    "the model (no heimdall authenticator does)",
                    "a 1xx accepted/override code is observed on httptest.ResponseRecorder, not on a real connection"],
}
