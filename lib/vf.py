"""Shared machinery of the heimdall verification checks (see DESIGN.md §2–§4).

One check run =  regenerate Gen/*.v (if any)  ->  build proofs (make)  ->
run the implementation (go test -overlay)  ->  evaluate the model on the same
cases inside Coq (vm_compute)  ->  classify, write evidence, print verdict lines.
"""
import fcntl
import glob
import hashlib
import json
import os
import re
import shutil
import subprocess
import sys
import time

VERIF = os.path.dirname(os.path.dirname(os.path.abspath(__file__)))
REPO = os.environ.get("VERIF_REPO", "/repo")
COQ = os.path.join(VERIF, "coq")
_alt = REPO != "/repo" and not os.environ.get("VERIF_OUTDIR")  # a run against another checkout never shares out/ and evidence/ with runs on /repo
OUT = os.environ.get("VERIF_OUTDIR") or (os.path.join(VERIF, "out", "alt-" + os.path.basename(REPO.rstrip("/"))) if _alt else os.path.join(VERIF, "out"))  # VERIF_OUTDIR/VERIF_EVIDENCE_DIR: side runs (seeded changes) that must not disturb out/ and evidence/
EVIDENCE = os.environ.get("VERIF_EVIDENCE_DIR") or (os.path.join(OUT, "evidence") if _alt else os.path.join(VERIF, "evidence"))
HARNESS = os.path.join(VERIF, "harness")
MODULE = "github.com/dadrus/heimdall"

GOENV = {
    "GOFLAGS": "-mod=mod", "GOPROXY": "off", "GOSUMDB": "off", "GOTOOLCHAIN": "local",
    "CGO_ENABLED": os.environ.get("CGO_ENABLED", "1"),
}


def log(*a):
    print(*a, file=sys.stderr, flush=True)


def sh(cmd, cwd=None, env=None, timeout=None, stdin=None):
    """run, return (rc, stdout+stderr)"""
    e = dict(os.environ)
    if env:
        e.update(env)
    try:
        p = subprocess.run(cmd, cwd=cwd, env=e, timeout=timeout, input=stdin,
                           stdout=subprocess.PIPE, stderr=subprocess.STDOUT, text=True,
                           shell=isinstance(cmd, str))
        return p.returncode, p.stdout
    except subprocess.TimeoutExpired as ex:
        o = ex.stdout or ""
        if isinstance(o, bytes):
            o = o.decode("utf-8", "replace")
        return 124, o + "\n[timeout after %ss]" % timeout


# --------------------------------------------------------------------------- Coq

class Lock:
    def __init__(self, name):
        d = os.path.join(VERIF, "out")  # always the shared directory: the lock protects coq/, which side runs share
        os.makedirs(d, exist_ok=True)
        self.path = os.path.join(d, name)

    def __enter__(self):
        self.f = open(self.path, "w")
        fcntl.flock(self.f, fcntl.LOCK_EX)
        return self

    def __exit__(self, *a):
        fcntl.flock(self.f, fcntl.LOCK_UN)
        self.f.close()


def coq_make(targets=None, timeout=None, keep_going=False):
    """full .vo build of the development (or of some targets), incremental.  Returns (ok, output).
    The shared lock is held only while _CoqProject / Makefile / dependencies are regenerated; the build itself
    runs outside it, with a memory limit per coqc (VERIF_COQ_MEM_KB, default 12 GB) and a time limit
    (VERIF_COQ_TIMEOUT seconds, default 1500) so that one runaway proof cannot block or starve other checks."""
    timeout = timeout or int(os.environ.get("VERIF_COQ_TIMEOUT", "1500"))
    mem = int(os.environ.get("VERIF_COQ_MEM_KB", str(12 * 1024 * 1024)))
    with Lock("coq.lock"):
        coq_project()
        if not os.path.exists(os.path.join(COQ, "Makefile")) or \
           os.path.getmtime(os.path.join(COQ, "Makefile")) < os.path.getmtime(os.path.join(COQ, "_CoqProject")):
            rc, o = sh("coq_makefile -f _CoqProject -o Makefile", cwd=COQ, timeout=120)
            if rc != 0:
                return False, o
        sh("make .Makefile.d", cwd=COQ, timeout=300)
    cmd = "ulimit -v %d; exec make %s-j%s %s" % (mem, "-k " if keep_going else "", os.environ.get("VERIF_COQ_JOBS", "8"), " ".join(targets or []))
    rc, o = sh(cmd, cwd=COQ, timeout=timeout)
    return rc == 0, o


def coq_project():
    """_CoqProject lists every .v file under coq/ (regenerated when the set changes)"""
    files = []
    for root, _, names in os.walk(COQ):
        for n in names:
            if n.endswith(".v") and not n.startswith("zz_goals_tmp"):
                files.append(os.path.relpath(os.path.join(root, n), COQ))
    text = "-Q . HV\n-arg -w -arg -notation-overridden,-deprecated-hint-without-locality,-deprecated-instance-without-locality\n" + \
        "\n".join(sorted(files)) + "\n"
    p = os.path.join(COQ, "_CoqProject")
    if not os.path.exists(p) or open(p).read() != text:
        with open(p, "w") as f:
            f.write(text)


def coq_failed_file(output):
    m = re.search(r'File "\./([^"]+)", line (\d+)', output)
    return (m.group(1), int(m.group(2))) if m else (None, None)


def coqc_file(path, timeout=1200):
    """compile a stand-alone .v file that imports the development"""
    d = os.path.dirname(path)
    rc, o = sh(["coqc", "-Q", COQ, "HV", "-w", "-notation-overridden,-deprecated-hint-without-locality",
                os.path.basename(path)], cwd=d, timeout=timeout)
    return rc, o


ROW_RE = re.compile(r"\[[^\[\]]*\]")


def parse_rows(output):
    """rows printed by `Print R.` : list (list Z)  ->  python lists"""
    m = re.search(r"R\s*=\s*(.*?)\n\s*:\s*list \(list Z\)", output, re.S)
    if not m:
        return None
    body = m.group(1).replace("%Z", "").replace("\n", " ")
    rows = []
    for r in ROW_RE.findall(body):
        r = r.strip("[]").strip()
        rows.append([int(x.replace("(", "").replace(")", "")) for x in r.split(";") if x.strip()])
    return rows


def eval_cases(pid, eval_module, check_term, coq_terms, shard_size=400, jobs=16, extra_imports=""):
    """evaluate the evaluator `check_term : case -> verdict` on all cases.
    Returns (rows_by_index: dict idx -> (corr, prop, guards), shards, shards_ok, log)"""
    d = os.path.join(OUT, pid)
    os.makedirs(d, exist_ok=True)
    for f in glob.glob(os.path.join(d, "cases_*")) + glob.glob(os.path.join(d, ".cases_*")):
        os.remove(f)
    shards = []
    for s in range(0, len(coq_terms), shard_size):
        chunk = coq_terms[s:s + shard_size]
        path = os.path.join(d, "cases_%03d.v" % (s // shard_size))
        with open(path, "w") as f:
            f.write("From HV Require Import Base.Prelude %s.\n%s\n" % (eval_module, extra_imports))
            f.write("Definition cases := [\n  ")
            f.write(";\n  ".join(chunk))
            f.write("\n].\n")
            f.write("Definition R := Eval vm_compute in results (%s) cases.\nPrint R.\n" % check_term)
        shards.append((s, len(chunk), path))
    procs = []
    try:  # be a good neighbour on a loaded machine (other checks/builders running): fewer parallel coqc
        if os.getloadavg()[0] > 24:
            jobs = min(jobs, 6)
    except OSError:
        pass
    results = {}
    logs = []
    ok = 0
    pending = list(shards)
    running = []
    while pending or running:
        while pending and len(running) < jobs:
            s, n, path = pending.pop(0)
            p = subprocess.Popen(["timeout", "1200", "coqc", "-Q", COQ, "HV", "-w",
                                  "-notation-overridden,-deprecated-hint-without-locality",
                                  os.path.basename(path)], cwd=d,
                                 stdout=subprocess.PIPE, stderr=subprocess.STDOUT, text=True)
            running.append((s, n, path, p))
        s, n, path, p = running.pop(0)
        o, _ = p.communicate()
        rows = parse_rows(o) if p.returncode == 0 else None
        if rows is None or not rows or rows[0] != [n]:
            logs.append("shard %s failed (rc=%s): %s" % (path, p.returncode, o[-2000:]))
            continue
        ok += 1
        for r in rows[1:]:
            results[s + r[0]] = (r[1] == 1, r[2] == 1, r[3:])
    return results, len(shards), ok, "\n".join(logs)


def print_assumptions(pid, module, theorems):
    """Check + Print Assumptions for every property theorem; returns dict name -> {statement, assumptions}"""
    d = os.path.join(OUT, pid)
    os.makedirs(d, exist_ok=True)
    path = os.path.join(d, "assumptions.v")
    with open(path, "w") as f:
        f.write("From HV Require Import %s.\n" % module)
        for t in theorems:
            f.write('Goal True. idtac "@@@ %s". Abort.\nCheck %s.\nGoal True. idtac "@@@ASSUME". Abort.\nPrint Assumptions %s.\n' % (t, t, t))
        f.write('Goal True. idtac "@@@END". Abort.\n')
    rc, o = coqc_file(path, timeout=600)
    res = {}
    if rc != 0:
        return None, o
    parts = re.split(r"@@@ ", o)
    for p in parts[1:]:
        name, _, rest = p.partition("\n")
        name = name.strip()
        if name.startswith("END"):
            break
        stmt, _, ass = rest.partition("@@@ASSUME")
        ass = ass.split("@@@")[0]
        res[name] = {"statement": " ".join(stmt.split())[:1500], "assumptions": " ".join(ass.split())}
    return res, o


def coqchk(module, timeout=3000):
    """independent re-check of a compiled module and everything it depends on (thorough tier).
    Cached by the hash of the .vo files under coq/.  Returns (ok, summary_text)."""
    h = hashlib.sha256()
    for root, _, names in sorted(os.walk(COQ)):
        for n in sorted(names):
            if n.endswith(".vo"):
                h.update(n.encode())
                h.update(open(os.path.join(root, n), "rb").read())
    key = module + "-" + h.hexdigest()[:20]
    cdir = os.path.join(OUT, "coqchk")
    os.makedirs(cdir, exist_ok=True)
    cpath = os.path.join(cdir, key + ".txt")
    if os.path.exists(cpath):
        o = open(cpath).read()
        return "CHK-OK" in o, o
    rc, o = sh(["coqchk", "-silent", "-o", "-Q", COQ, "HV", "HV." + module], cwd=COQ, timeout=timeout)
    summary = o[o.find("CONTEXT SUMMARY"):] if "CONTEXT SUMMARY" in o else o[-3000:]
    ok = rc == 0 and "CONTEXT SUMMARY" in o
    text = ("CHK-OK\n" if ok else "CHK-FAILED rc=%s\n" % rc) + summary
    with open(cpath, "w") as f:
        f.write(text)
    return ok, text


# --------------------------------------------------------------------------- Go

def overlay_for(pid, mapping):
    """mapping: path relative to /repo  ->  path relative to /verif/harness.  vf helper always included."""
    d = os.path.join(OUT, pid)
    os.makedirs(d, exist_ok=True)
    rep = {os.path.join(REPO, "internal/zzverif/vf/vf.go"): os.path.join(HARNESS, "vf/vf.go")}
    for k, v in mapping.items():
        rep[os.path.join(REPO, k)] = os.path.join(HARNESS, v)
    path = os.path.join(d, "overlay.json")
    with open(path, "w") as f:
        json.dump({"Replace": rep}, f, indent=1)
    return path


def go_run_driver(pid, pkg, test, overlay, env=None, race=False, timeout=1800, compile_only_pkg=False, tag="main"):
    """build the in-package driver against /repo's working tree and run it.
    Returns (rc, output, obs_path)"""
    d = os.path.join(OUT, pid)
    os.makedirs(d, exist_ok=True)
    obs = os.path.join(d, "obs_%s.jsonl" % tag)
    if os.path.exists(obs):
        os.remove(obs)
    e = dict(GOENV)
    e["VERIF_OUT"] = obs
    e["VERIF_DIR"] = VERIF
    if env:
        e.update({k: str(v) for k, v in env.items()})
    binp = os.path.join(d, "driver_%s.test" % tag)
    cmd = ["go", "test", "-tags", "verif", "-overlay", overlay, "-vet=off", "-c", "-o", binp]
    if race:
        cmd.append("-race")
    cmd.append(pkg)
    rc, o = sh(cmd, cwd=REPO, env=e, timeout=timeout)
    if rc != 0:  # harness files that no longer compile because identifiers were renamed/moved: rebind them once (docs/notes/REBIND.md)
        ov2 = rebind_overlay(pid, tag, overlay, o, test)
        if ov2:
            cmd[cmd.index("-overlay") + 1] = ov2
            rc2, o2 = sh(cmd, cwd=REPO, env=e, timeout=timeout)
            if rc2 == 0:
                rc, o = rebind_accept(pid, tag, ov2, test)
            else:
                o += "\n[rebind: the rebound harness does not compile either]\n" + o2[-1500:]
    elif REPO == "/repo":
        bindings_refresh(pid, tag, overlay)
    if rc != 0:
        return rc, "BUILD FAILED\n" + o, obs
    pkgdir = os.path.join(REPO, pkg.replace("./", "", 1))
    cwd = pkgdir if os.path.isdir(pkgdir) else REPO
    rc, o = sh([binp, "-test.run", "^%s$" % test, "-test.count=1", "-test.timeout", "%ds" % timeout],
               cwd=cwd, env=e, timeout=timeout + 30)
    o = "\n".join(l for l in o.splitlines() if not l.startswith("{"))
    return rc, o, obs


# --------------------------------------------------------------------------- harness rebinding (docs/notes/REBIND.md)
#
# The in-package drivers name unexported identifiers of /repo.  harness/bindings/<pid>_<stream>.json (bin/mkbindings,
# committed) records what each of them is (kind, owner, signature, structural fingerprint).  When a driver stops compiling
# against the tree under test, `harness/tools/rebind apply` finds the renamed/moved identifiers, writes renamed COPIES of
# the harness files under the run's out directory and the driver is compiled once more against those.

BINDINGS = os.path.join(HARNESS, "bindings")
REBIND_TOOL = os.path.join(HARNESS, "tools", "rebind")
REF_REPO = os.environ.get("VERIF_REF_REPO", "/repo")   # the tree the committed manifests are generated from
HARNESS_REBOUND = {}   # pid -> [ {from,to,kind,owner,how,pkg,stream} ]   filled by go_run_driver, read by Report
HARNESS_PRUNED = {}    # pid -> [ {stream, decl, test, needs} ]
_rebind_cache = {}
_rebind_pending = {}


def rebind_tool():
    """the rebind binary (built once per source hash into the shared out/tools)"""
    h = hashlib.sha256()
    for n in sorted(os.listdir(REBIND_TOOL)):
        p = os.path.join(REBIND_TOOL, n)
        if os.path.isfile(p):
            h.update(n.encode() + b"\0" + open(p, "rb").read())
    d = os.path.join(VERIF, "out", "tools")
    os.makedirs(d, exist_ok=True)
    binp = os.path.join(d, "rebind-" + h.hexdigest()[:16])
    if not os.path.exists(binp):
        tmp = binp + ".tmp%d" % os.getpid()
        rc, o = sh(["go", "build", "-o", tmp, "."], cwd=REBIND_TOOL, env=GOENV, timeout=600)
        if rc != 0:
            log("rebind: the tool does not build:\n" + o[-1500:])
            return None
        os.replace(tmp, binp)
    return binp


def _overlay_sources(overlay, repo=None):
    """(mapping destination-relative-to-the-repo -> source-relative-to-harness, {source: sha256}) of an overlay file, or
    None when it maps files from outside /verif/harness (generated/instrumented copies: not rebound)"""
    repo = repo or REPO
    try:
        rep = json.load(open(overlay))["Replace"]
    except (OSError, ValueError, KeyError):
        return None
    mp, hs = {}, {}
    for dest, src in rep.items():
        if not src.startswith(HARNESS + os.sep) or not dest.startswith(repo.rstrip("/") + "/"):
            return None
        rs = os.path.relpath(src, HARNESS)
        mp[os.path.relpath(dest, repo)] = rs
        try:
            hs[rs] = hashlib.sha256(open(src, "rb").read()).hexdigest()
        except OSError:
            return None
    return mp, hs


def _pkg_hashes(repo, dirs, skip):
    out = {}
    for d in sorted(dirs):
        h = hashlib.sha256()
        full = os.path.join(repo, d)
        for n in sorted(os.listdir(full)) if os.path.isdir(full) else []:
            if n.endswith(".go") and os.path.join(d, n) not in skip:
                h.update(n.encode() + b"\0" + open(os.path.join(full, n), "rb").read())
        out[d] = h.hexdigest()[:24]
    return out


def bindings_path(pid, tag):
    return os.path.join(BINDINGS, "%s_%s.json" % (pid, tag[:-4] if tag.endswith("_esc") else tag))


def find_manifest(pid, tag, mapping):
    """the committed manifest of this stream: by name, else any manifest of the property with the same overlay"""
    cands = [bindings_path(pid, tag)] + sorted(glob.glob(os.path.join(BINDINGS, pid + "_*.json")))
    for p in cands:
        try:
            m = json.load(open(p))
        except (OSError, ValueError):
            continue
        if m.get("overlay") == mapping:
            return p, m
    return None, None


def make_manifest(pid, tag, overlay, out_path, repo=None):
    """run `rebind manifest` for an overlay (of `repo`), add the bookkeeping, write out_path.  Returns (ok, message)"""
    repo = repo or REPO
    tool = rebind_tool()
    src = _overlay_sources(overlay, repo)
    if tool is None or src is None:
        return False, "no rebind tool / overlay has sources outside harness"
    tmp = out_path + ".tmp%d" % os.getpid()
    os.makedirs(os.path.dirname(out_path), exist_ok=True)
    rc, o = sh([tool, "manifest", "-repo", repo, "-overlay", overlay, "-harness", HARNESS, "-o", tmp], cwd=repo, env=GOENV, timeout=600)
    if rc != 0:
        return False, o[-1500:]
    m = json.load(open(tmp))
    os.remove(tmp)
    m["property"], m["stream"] = pid, tag
    m["pkg_source_hashes"] = _pkg_hashes(repo, [p["dir"] for p in m["packages"]], set(src[0]))
    with open(tmp, "w") as f:
        json.dump(m, f, indent=1, sort_keys=True)
        f.write("\n")
    os.replace(tmp, out_path)
    return True, "%d packages, %d identifiers" % (len(m["packages"]), sum(len(p["idents"]) for p in m["packages"]))


def bindings_refresh(pid, tag, overlay):
    """after a successful compile against /repo: regenerate the committed manifest when the harness files (or the
    package sources) are not the ones it was generated from.  A few file hashes when it is fresh."""
    try:
        if tag.endswith("_esc"):
            return
        src = _overlay_sources(overlay)
        if src is None:
            return
        p, m = find_manifest(pid, tag, src[0])
        if m is not None and m.get("harness_hashes") == src[1] and \
           m.get("pkg_source_hashes") == _pkg_hashes(REPO, list(m.get("pkg_source_hashes") or {}), set(src[0])):
            return
        ok, msg = make_manifest(pid, tag, overlay, p if (p and m is not None) else bindings_path(pid, tag))
        log("bindings: manifest of %s/%s regenerated from %s: %s" % (pid, tag, REPO, msg))
    except Exception as ex:  # never let the bookkeeping break a check
        log("bindings: refresh failed for %s/%s: %r" % (pid, tag, ex))


_HARNESS_ERR = re.compile(r"undefined|has no field or method|unknown field|cannot use|not enough arguments|too many arguments|"
                          r"does not implement|missing method|mismatched types|invalid operation|not a type|assignment mismatch")


def rebind_overlay(pid, tag, overlay, build_output, test=None):
    """the driver did not compile.  If the errors are in harness files and of the kinds a rename produces, run
    `rebind apply` and return the overlay that points at the rewritten copies (None: nothing to try)."""
    try:
        t0 = time.time()
        src = _overlay_sources(overlay)
        if src is None:
            return None
        errs = [l for l in build_output.splitlines() if l.startswith(HARNESS + os.sep) and _HARNESS_ERR.search(l)]
        if not errs:
            return None
        key = (json.dumps(src, sort_keys=True), REPO)
        if key in _rebind_cache:
            res = _rebind_cache[key]
        else:
            tool = rebind_tool()
            if tool is None:
                return None
            mpath, m = find_manifest(pid, tag, src[0])
            d = os.path.join(OUT, pid, "rebound_" + tag)
            shutil.rmtree(d, ignore_errors=True)
            os.makedirs(d, exist_ok=True)
            if (m is None or m.get("harness_hashes") != src[1]) and REPO != REF_REPO and os.path.isdir(REF_REPO):
                # no (fresh) committed manifest: generate one from the reference tree, where the harness builds
                ref_ov = os.path.join(d, "ref_overlay.json")
                rep = json.load(open(overlay))["Replace"]
                with open(ref_ov, "w") as f:
                    json.dump({"Replace": {REF_REPO.rstrip("/") + k[len(REPO.rstrip("/")):]: v for k, v in rep.items()}}, f)
                ok, msg = make_manifest(pid, tag, ref_ov, os.path.join(d, "manifest.json"), repo=REF_REPO)
                if ok:
                    mpath = os.path.join(d, "manifest.json")
                    m = json.load(open(mpath))
            if m is None:
                log("rebind: no manifest for %s/%s (bin/mkbindings)" % (pid, tag))
                return None
            rc, o = sh([tool, "apply", "-repo", REPO, "-overlay", overlay, "-manifest", mpath, "-out", d, "-prune"],
                       cwd=REPO, env=GOENV, timeout=300)
            if rc != 0:
                log("rebind: apply failed: " + o[-800:])
                return None
            res = json.load(open(os.path.join(d, "report.json")))
            res["_manifest"] = mpath
            _rebind_cache[key] = res
            log("rebind %s/%s (%.1fs): %s" % (pid, tag, time.time() - t0, " | ".join(o.strip().splitlines()) or "nothing to rebind"))
        if not res.get("overlay") or not (res.get("rebound") or res.get("pruned")):
            return None
        _rebind_pending[(pid, tag)] = res
        return res["overlay"]
    except Exception as ex:
        log("rebind: failed for %s/%s: %r" % (pid, tag, ex))
        return None


def rebind_accept(pid, tag, ov2, test=None):
    """the rebound harness compiles: record what was rebound / pruned.  Returns (rc, output) for go_run_driver: a driver
    whose own Test function had to be pruned counts as not building."""
    res = _rebind_pending.pop((pid, tag), None) or {}
    for r in res.get("rebound") or []:
        if r.get("indirect") and not r.get("sites"):
            continue
        rec = {k: r.get(k) for k in ("from", "to", "kind", "owner", "how", "score", "pkg")}
        if rec not in [dict((k, x.get(k)) for k in rec) for x in HARNESS_REBOUND.get(pid, [])]:
            HARNESS_REBOUND.setdefault(pid, []).append(dict(rec, stream=tag))
    gone = [p for p in res.get("pruned") or [] if p.get("test") and p.get("decl") == test]
    for p in res.get("pruned") or []:
        rec = {"decl": p.get("decl"), "test": bool(p.get("test")), "needs": p.get("needs"), "file": p.get("file")}
        if rec not in [dict((k, x.get(k)) for k in rec) for x in HARNESS_PRUNED.get(pid, [])]:
            HARNESS_PRUNED.setdefault(pid, []).append(dict(rec, stream=tag if p.get("decl") == test else None))
    if gone:
        return 3, "[rebind: the driver %s depends on identifiers the package no longer has (%s); the other drivers of the file were kept]" % (
            test, "; ".join(gone[0].get("needs") or []))
    return 0, ""


def stream_pruned(pid, test):
    """the pruning record of a stream whose Test function had to be taken out of the harness file (or None)"""
    for p in HARNESS_PRUNED.get(pid, []):
        if p.get("test") and p.get("decl") == test:
            return p
    return None


def read_obs(path):
    out = []
    if not os.path.exists(path):
        return out
    with open(path) as f:
        for line in f:
            line = line.strip()
            if line:
                try:
                    out.append(json.loads(line))
                except ValueError:  # a driver killed mid-line (race detector, fatal runtime error): drop the cut-off line
                    log("read_obs: dropped a truncated observation line in", path)
    return out


# --------------------------------------------------------------------------- findings / verdicts

def known_findings():
    """merged view of the committed findings/C??.json files (hand-written, never written at run time);
    known_findings.json is the same content in one file (bin/mkmanifest)"""
    out = {"findings": [], "fixed": []}
    for p in sorted(glob.glob(os.path.join(VERIF, "findings", "C*.json"))):
        with open(p) as f:
            k = json.load(f)
        out["findings"] += k.get("findings", [])
        out["fixed"] += k.get("fixed", [])
    return out


class Report:
    """collects the outcome of one check run and writes evidence + verdict lines"""

    def __init__(self, pid, tier, seed, level="proof"):
        self.pid, self.tier, self.seed, self.level = pid, tier, seed, level
        self.t0 = time.time()
        self.violations = []       # (replay_path, note)
        self.known = {}            # finding id -> count observed
        self.not_reproduced = {}
        self.obligations = []      # (name, ok)
        self.cov = {}
        self.assumptions = []
        self.notes = []
        self.dir = os.path.join(OUT, pid)
        os.makedirs(self.dir, exist_ok=True)
        self.nrep = 0

    def obligation(self, name, ok):
        self.obligations.append((name, bool(ok)))

    def replay_file(self, content):
        self.nrep += 1
        p = os.path.join(self.dir, "replay_%d.json" % self.nrep)
        content = dict(content)
        content.setdefault("property", self.pid)
        content.setdefault("seed", self.seed)
        content.setdefault("tier", self.tier)
        if HARNESS_REBOUND.get(self.pid):  # the binding is heuristic: a verdict reached through it says so
            content.setdefault("harness_rebound", HARNESS_REBOUND[self.pid])
        if HARNESS_PRUNED.get(self.pid):
            content.setdefault("harness_pruned", HARNESS_PRUNED[self.pid])
        with open(p, "w") as f:
            json.dump(content, f, indent=1, default=str)
        return p

    def violation(self, content, no_input=False):
        p = self.replay_file(content)
        self.violations.append((p, no_input))

    def finish(self, coverage, trusted_base, checker_cmd, assumptions):
        os.makedirs(EVIDENCE, exist_ok=True)
        obl = len(self.obligations)
        dis = sum(1 for _, ok in self.obligations if ok)
        cov = dict(coverage)
        cov.update({
            "obligations": max(obl, 1), "discharged": dis,
            "obligation_list": [{"name": n, "ok": ok} for n, ok in self.obligations],
            "checker_cmd": checker_cmd, "trusted_base": trusted_base,
            "known_findings_observed": self.known,
            "findings_not_reproduced": self.not_reproduced,
            "notes": self.notes,
        })
        if HARNESS_REBOUND.get(self.pid):
            cov["harness_rebound"] = HARNESS_REBOUND[self.pid]
            for r in HARNESS_REBOUND[self.pid]:
                line = "harness rebound: %s %s%s -> %s (%s, %s)" % (r["kind"], (r.get("owner") + ".") if r.get("owner") else "", r["from"], r["to"], r["pkg"], r["how"])
                cov["notes"] = cov["notes"] + [line]
                print("NOTE: " + line)
        if HARNESS_PRUNED.get(self.pid):
            cov["harness_pruned"] = HARNESS_PRUNED[self.pid]
            for r in HARNESS_PRUNED[self.pid]:
                line = "harness pruned: %s taken out of %s (%s)" % (r["decl"], os.path.relpath(r["file"] or "?", VERIF), "; ".join(r.get("needs") or []))
                cov["notes"] = cov["notes"] + [line]
                print("NOTE: " + line)
        ev = {
            "property_id": self.pid, "tier": self.tier, "seed": self.seed, "level": self.level,
            "coverage": cov, "assumptions": assumptions,
            "wall_s": round(time.time() - self.t0, 2), "violations": len(self.violations),
        }
        with open(os.path.join(EVIDENCE, self.pid + ".json"), "w") as f:
            json.dump(ev, f, indent=1, default=str)
        kf = [k for k in known_findings().get("findings", []) if k["property"] == self.pid]
        for k in kf:
            if self.known.get(k["id"], 0) > 0:
                print("KNOWN-FINDING: property=%s %s %s" % (self.pid, k["id"], k["what"]))
        for p, no_input in self.violations[:5]:
            print("VIOLATION property=%s replay=%s%s" % (self.pid, p, " no-failing-input-found" if no_input else ""))
        return 1 if self.violations else 0


def classify_stream(rep, obs, rows, finding_ids, corr_name, max_report=3):
    """apply the verdict table of DESIGN §4 to a correspondence stream.
    obs: list of observations (dicts with 'i', 'in', 'obs'); rows: idx -> (corr, prop, guards);
    finding_ids: guard number -> finding id (only findings still open).
    Returns counters."""
    corr_fail_prop_ok = []
    masked = []
    n_viol = 0
    for pos, o in enumerate(obs):
        r = rows.get(pos)
        if r is None:
            continue
        corr, prop, gs = r
        fids = [finding_ids[g] for g in gs if g in finding_ids]
        if corr and prop:
            continue
        if corr and not prop:
            if fids:
                for fid in fids:
                    rep.known[fid] = rep.known.get(fid, 0) + 1
            else:
                # model = implementation, property predicate false, no guard: the main theorem must be broken
                n_viol += 1
                if n_viol <= max_report:
                    rep.violation({"kind": "property-fails-on-implementation (unguarded)", "case": o})
        elif not corr and not prop:
            n_viol += 1
            if n_viol <= max_report:
                rep.violation({"kind": "property-fails-on-implementation", "stream": corr_name, "case": o,
                               "how": "implementation output differs from the model and violates the property predicate"})
        else:
            if fids:
                masked.append((o, fids))
            else:
                corr_fail_prop_ok.append(o)
    # "finding not reproduced" (implementation differs from the model, property predicate holds, a guard fires) is a
    # pass only when it can be explained by the finding having been repaired: i.e. when at least one of the findings whose
    # guard fires is not observed anywhere in this run.  If every such finding IS still observed on other cases, the
    # mismatch is not a repair but a change the guard would otherwise swallow: it goes to the correspondence-broken search.
    for o, fids in masked:
        if all(rep.known.get(fid, 0) > 0 for fid in fids):
            corr_fail_prop_ok.append(o)
        else:
            for fid in fids:
                rep.not_reproduced[fid] = rep.not_reproduced.get(fid, 0) + 1
    return corr_fail_prop_ok, n_viol


def sample(obs, k=3):
    out = []
    seen = set()
    for o in obs:
        key = tuple(o.get("tags") or [])
        if key in seen:
            continue
        seen.add(key)
        out.append({"in": o["in"], "obs": o["obs"], "stream": o.get("stream")})
        if len(out) >= k:
            break
    return out


def histogram(obs):
    h = {}
    for o in obs:
        for t in o.get("tags") or []:
            h[t] = h.get(t, 0) + 1
    return dict(sorted(h.items()))


def distinct_nontrivial(obs):
    return len({o["key"] for o in obs if o.get("nontrivial")})


def fingerprint(files):
    """sha256 over the anchored source files (drift is logged, never a violation)"""
    h = hashlib.sha256()
    for f in sorted(files):
        p = os.path.join(REPO, f)
        if os.path.exists(p):
            h.update(open(p, "rb").read())
    return h.hexdigest()[:16]


TRUSTED_COMMON = [
    "Coq 8.16.1 kernel and vm_compute (no native_compute); no axioms declared in the development",
    "correspondence harness: Go generators/stubs injected with `go test -overlay`, rendering of observations into Gallina literals (harness/vf/vf.go), lib/vf.py result parsing",
    "Go toolchain and standard library behave as observed",
]
