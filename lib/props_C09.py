"""C09 check configuration (see lib/runner.py for the meaning of the keys)."""

ASSEMBLY_OVERLAY = {
    "internal/zzverif/assembly/assembly.go": "assembly/assembly.go",
    "internal/zzverif/assembly/handlers.go": "assembly/handlers.go",
    "internal/handler/decision/zz_verif_export.go": "assembly/export/decision_export.go",
    "internal/handler/proxy/zz_verif_export.go": "assembly/export/proxy_export.go",
    "internal/handler/envoyextauth/grpcv3/zz_verif_export.go": "assembly/export/envoy_export.go",
    "internal/zzverif/assembly/listeners.go": "assembly/listeners.go",
}

P = {
    "id": "C09",
    "coq_targets": ["Properties/C09.vo", "Run/Eval_C09.vo"],
    "theorems_module": "Properties.C09",
    "theorems": ["C09_trust_is_membership", "C09_trust_is_membership_configured", "C09_untrusted_noninterference",
                 "C09_untrusted_connection_only", "C09_untrusted_not_passed_on", "C09_trusted_overrides",
                 "C09_trusted_exactly_its_component", "C09_upstream_forwarding_is_composed", "C09_contains_never_panics",
                 "C09_F1_pinned_refuted", "C09_F1_pinned_noninterference_refuted"],
    "streams": [{
        "name": "entrypoints", "pkg": "./internal/zzverif/c09", "test": "TestVerifC09",
        "overlay": dict(ASSEMBLY_OVERLAY, **{"internal/zzverif/c09/c09_test.go": "c09/c09_test.go"}),
        "eval_module": "Run.Eval_C09", "check_term": "check true",
        "n_quick": 1800, "n_thorough": 40000, "findings": {}, "shard": 120,
    }],
    "rule": "generated trusted_proxies lists (single IPv4/IPv6/IPv4-mapped addresses, CIDR ranges of both families, unparsable "
            "entries, empty, option absent) x peers (RemoteAddr: IPv4, IPv6, IPv4-mapped, zoned, unix socket, garbage; about half aimed "
            "into a listed entry) x every subset of the seven forwarded headers with values from per-header pools (valid, empty, "
            "unparsable, multi-element), repeated headers, arbitrary header-name casing, http/https, three methods, nine paths x five "
            "queries; raw HTTP/1.1 bytes parsed by net/http and served in-process by the REAL assembled decision and proxy applications "
            "(fx wiring of cmd/serve, real config loader, rule factory, repository, executor, middleware chain, header finalizer, "
            "httputil.ReverseProxy to an echo upstream), plus 40 requests per run over real loopback sockets from 127.0.0.x source "
            "addresses; corpus (finding witnesses) first. Non-trivial = at least one forwarded header present; distinct by hash of the input.",
    "anchors": ["internal/handler/middleware/http/trustedproxy/handler.go", "internal/handler/requestcontext/extract_url.go",
                "internal/handler/requestcontext/extract_method.go", "internal/handler/requestcontext/request_context.go",
                "internal/handler/proxy/request_context.go", "internal/handler/decision/service.go",
                "internal/handler/proxy/service.go", "internal/x/httpx/host_port.go"],
    "trusted": [
        "oracles (observed per case, not modelled): net.ParseIP / net.ParseCIDR on entries and peer, net.SplitHostPort on RemoteAddr, "
        "net/http's request parser (canonical header keys, Host, EscapedPath, RawQuery), url.Parse + Query().Encode() on the "
        "X-Forwarded-Uri value, url.PathUnescape (URL.Path is checked to be PathUnescape(RawPath) by the driver)",
        "rule matching is not modelled here (C02/C03): the evaluator knows the harness's fixed rule set (literal paths + catch-all) "
        "and the theorems quantify over an arbitrary decision function of the view",
        "httputil.ReverseProxy removes Forwarded/X-Forwarded-For/-Host/-Proto from the outgoing request when Rewrite is set, and "
        "net/http trims optional white space of header values on the wire (both modelled as observed)",
        "the assembly harness (harness/assembly): fx application as in cmd/serve, handler obtained through an overlay export of newService",
    ],
    "level_text": "Proof (kernel-checked, no axioms): for every trusted_proxies list, peer address, connection and header multiset, a peer "
                  "that is not listed (declarative membership: single address = itself with IPv4 == IPv4-mapped IPv6, CIDR by family and "
                  "mask, unparsable entries/peers cover/are covered by nothing) gets a view built only from the connection and request "
                  "line, sees none of the seven headers, and the upstream receives one fresh Forwarded header (2-safety non-interference "
                  "over all pairs of header sets differing in the seven headers); for a listed peer each present non-empty header "
                  "overrides exactly its component with fallback to the actual request; the middleware's trust test equals membership. "
                  "No guard: finding C09-F1 was repaired by fix: commit e501d3a; the behaviour of the pinned loader (an unparsable entry "
                  "made every unparsable peer trusted) is kept as the witnesses C09_F1_pinned_refuted / "
                  "C09_F1_pinned_noninterference_refuted. The model is tied to the code by "
                  "running ~2400 (quick) / 60000 (thorough) generated requests per run through the real assembled decision and proxy "
                  "applications and comparing status, matched rule, echoed view and upstream request with the model inside Coq.",
    "level_note": "Trusted: Coq kernel/vm_compute; the correspondence harness; IP/CIDR/URL/HTTP parsing are oracles (observed answers as "
                  "case data); rule matching reduced to the harness's literal rule set; header values restricted to ASCII (strings.TrimSpace "
                  "is modelled for ASCII white space only). Envoy gRPC mode has no trusted-proxy handling and is outside C09 (see C13). "
                  "C09-F1 is fixed (fix: e501d3a = fixes/C09-F1.diff); the evaluator runs the repaired variant of the model (`check true`), "
                  "so a regression of the repair is an ordinary VIOLATION (corpus cases 0, 1, 9, 10 are the former witnesses).",
    "assumptions": [
        "header values are ASCII (Go's TrimSpace also trims Unicode white space; not modelled)",
        "X-Forwarded-Path is deleted for untrusted peers but never read by heimdall (no component to override)",
    ],
}
