"""C09 check configuration (see lib/runner.py for the meaning of the keys)."""

ASSEMBLY_OVERLAY = {
    "internal/zzverif/assembly/assembly.go": "assembly/assembly.go",
    "internal/zzverif/assembly/handlers.go": "assembly/handlers.go",
    "internal/handler/decision/zz_verif_export.go": "assembly/export/decision_export.go",
    "internal/handler/proxy/zz_verif_export.go": "assembly/export/proxy_export.go",
    "internal/handler/envoyextauth/grpcv3/zz_verif_export.go": "assembly/export/envoy_export.go",
    "internal/zzverif/assembly/listeners.go": "assembly/listeners.go",
}

def _more_samples():
    """one observed case per kind of the stream (the generic sampler only sees the corpus, which runs first)"""
    import json
    import os
    import vf
    p = os.path.join(vf.OUT, "C09", "obs_entrypoints.jsonl")
    want = {"generated-trusted-proxy": lambda o: o["stream"] == "generated" and "trust:trusted" in o["tags"] and "mode:proxy" in o["tags"],
            "generated-untrusted": lambda o: o["stream"] == "generated" and "trust:untrusted" in o["tags"] and o.get("nontrivial"),
            "socket": lambda o: o["stream"] == "socket" and o.get("nontrivial"),
            "history": lambda o: o["stream"] == "history" and "history:trusted-and-untrusted-peers-on-one-instance" in o["tags"]}
    out = {}
    if os.path.exists(p):
        for line in open(p):
            if len(out) == len(want):
                break
            try:
                o = json.loads(line)
            except ValueError:
                continue
            for k, f in want.items():
                if k not in out and f(o):
                    out[k] = {"in": o["in"], "obs": o["obs"]}
    return {"samples_by_kind": out}


P = {
    "id": "C09",
    "coq_targets": ["Properties/C09.vo", "Run/Eval_C09.vo", "C09/Coherence.vo"],
    "theorems_module": "Properties.C09",
    "theorems": ["C09_trust_is_membership", "C09_trust_is_membership_configured", "C09_untrusted_noninterference",
                 "C09_untrusted_connection_only", "C09_untrusted_not_passed_on", "C09_trusted_overrides",
                 "C09_trusted_exactly_its_component", "C09_history_pointwise", "C09_history_untrusted",
                 "C09_upstream_forwarding_is_composed", "C09_contains_never_panics",
                 "C09_F1_pinned_refuted", "C09_F1_pinned_noninterference_refuted"],
    "streams": [{
        "name": "entrypoints", "pkg": "./internal/zzverif/c09", "test": "TestVerifC09",
        "overlay": dict(ASSEMBLY_OVERLAY, **{"internal/zzverif/c09/c09_test.go": "c09/c09_test.go"}),
        "eval_module": "Run.Eval_C09", "check_term": "check true",
        "n_quick": 1800, "n_thorough": 40000, "findings": {}, "shard": 120,
    }],
    "rule": "per group one pair of trusted_proxies options (decision AND proxy service: not set / empty / 1-4 / 5-30 entries: single "
            "IPv4/IPv6/IPv4-mapped addresses from a small universe and random ones, CIDR ranges of both families incl. /0, non-canonical "
            "and IPv4-mapped ones, neighbouring / nested / duplicate ranges, 20 kinds of unparsable entries) x 12 requests: RemoteAddr "
            "(55 % aimed at an own entry: inside it, in the neighbouring range, one bit off; 10 % at an entry of the OTHER service; random "
            "IPv4/IPv6; 18 % without host:port or with an unparsable host) x every subset of the seven forwarded headers (values from "
            "per-header pools incl. empty / unparsable / multi-element / comma lists, 40 % carrying a marker unique to the case; repeated "
            "lines; arbitrary casing; white space around values) + look-alike names (28 names such as X-Forwarded-Prefix/-Port/-Scheme, "
            "X-Real-Ip, X-Original-Url, X-Http-Method-Override, Via) x GET/POST/PUT/DELETE/PATCH/HEAD/OPTIONS, bodies, Upgrade: websocket, "
            "HTTP/1.0, HTTP/2 (in-process), absolute-form targets, http/https, log level info/trace.  Raw bytes parsed by net/http and "
            "served in-process by the REAL assembled decision and proxy applications (fx wiring of cmd/serve, real config loader, rule "
            "factory, repository, executor, middleware chain, header finalizer, httputil.ReverseProxy to an echo upstream); every request "
            "is served a second time WITHOUT the seven headers and all sinks (status, rule, view incl. the complete header map, response, "
            "upstream request line/Host/headers/body, access log + request dump) are compared and searched for pieces of the forwarded "
            "values; 40 requests per run over real loopback sockets from 127.0.0.x source addresses; n/12 HISTORIES per run: a freshly started "
            "application serves 2-6 requests in order from peers around one anchor address (the listed anchor on several ports, "
            "addresses whose text continues the anchor's text such as 10.0.0.1 -> 10.0.0.17 / 10.0.0.104 or ::1 -> ::1a, the anchor "
            "without port, its IPv4-mapped twin, strangers; trusted first or neighbour first), every step judged on its own; corpus "
            "(42 single cases: former finding witnesses, the auditor's scenarios; 8 histories) first.  Non-trivial = at least one forwarded header present; distinct by hash of the input.",
    "anchors": ["internal/handler/middleware/http/trustedproxy/handler.go", "internal/handler/requestcontext/extract_url.go",
                "internal/handler/requestcontext/extract_method.go", "internal/handler/requestcontext/request_context.go",
                "internal/handler/proxy/request_context.go", "internal/handler/decision/service.go",
                "internal/handler/proxy/service.go", "internal/x/httpx/host_port.go",
                "internal/handler/middleware/http/accesslog/handler.go"],
    "trusted": [
        "oracles (observed per case, never code under test): net.ParseIP / net.ParseCIDR on every configured string and on the peer host, "
        "net.SplitHostPort on RemoteAddr (called by the driver, not through httpx.IPFromHostPort), net/http's request parser (Host, "
        "EscapedPath, RawQuery; its canonical header keys and value trimming are MODELLED and compared with its answer on every case), "
        "url.Parse on the X-Forwarded-Uri value (EscapedPath, Query().Encode(), RawQuery); the theorems assume of them what `net_ok` "
        "says, the evaluator re-checks that on the answers of every case (Request.table_net_ok)",
        "the configured lists are the strings the driver wrote to the configuration file, not the loaded configuration (that the loader "
        "delivers the same two options is one compared bit); configuration through environment variables is not exercised (C20)",
        "rule matching is not modelled (C02/C03): the evaluator knows the harness's seven literal rules and accepts both the case-"
        "sensitive and the case-insensitive reading of method/scheme/host; the theorems are about the request view",
        "whole-observation results computed by the driver in Go, not in Coq: `pair` (sinks that differ from the request without the "
        "seven headers; log lines: access log, request dump, 'Forwarding request' only, volatile fields removed) and `leaks` (sinks in "
        "which a piece >= 5 bytes of a forwarded value surfaced that the partner request does not show); 'path' in every theorem "
        "is the escaped path (v_rawpath): that URL.Path = PathUnescape(RawPath) and that URL.String() is made of the shown "
        "components is one driver boolean (ov_ok, computed in Go)",
        "httputil.ReverseProxy removes Forwarded/X-Forwarded-For/-Host/-Proto from the outgoing request when Rewrite is set (modelled as a "
        "step); hop-by-hop header removal and pipeline headers are outside the model (only the seven names are compared at the upstream, "
        "list values up to separators, the fresh Forwarded element up to parameter order/quoting)",
        "the assembly harness (harness/assembly): fx application as in cmd/serve, handler obtained through an overlay export of newService; "
        "HTTP/2 is a parsed HTTP/1.1 request with ProtoMajor set to 2; socket cases know the peer's host, not its port",
    ],
    "level_text": "Proof (kernel-checked, no axioms), on what operator and client supply: for either mode, any two trusted_proxies options "
                  "(strings; not set = empty), any RemoteAddr, request line and header lines (names in any casing, repeated lines): the "
                  "middleware trusts the peer exactly when a string of THAT service's option reads as the peer's address (IPv4 == IPv4-mapped "
                  "IPv6) or as a CIDR range of its family containing it (unparsable entries cover nothing, a RemoteAddr without host:port is "
                  "nobody); for a peer that is not listed the view (method, scheme, host, path, query, client list) is the connection and "
                  "request line, no line named like one of the seven is visible or passed on, the upstream gets one fresh Forwarded header, "
                  "and two requests differing only in such lines are served identically (2-safety); for a listed peer each present non-empty "
                  "header sets its component, the rest falls back to the actual request, and a component depends on no header but its own "
                  "(frame theorem); the X-Forwarded-For client list is stated exactly, with independent characterisations of "
                  "Split/TrimSpace; for Forwarded the client entries are stated as a CLASS only (each entry is \"\" or the value of some "
                  "for= parameter of its element; which parameter wins and when \"\" results is not stated - exact values only through the "
                  "model comparison); Forwarded's proto=/host= never override anything (its component is the client list only). No guard: finding "
                  "C09-F1 was repaired by fix: e501d3a; the pinned loader survives only in the witnesses C09_F1_pinned_refuted / "
                  "C09_F1_pinned_noninterference_refuted. 13 listed theorems: 8 property theorems (C09_trust_is_membership, _configured, C09_untrusted_noninterference, "
                  "_connection_only, _not_passed_on, C09_trusted_overrides, _exactly_its_component, and C09_upstream_forwarding_is_composed, "
                  "which is a supporting lemma about the model's upstream step for an arbitrary header list, not stated on the entry "
                  "point), 1 model-totality theorem (C09_contains_never_panics), 2 corollaries of the stateless instance model "
                  "(C09_history_pointwise / C09_history_untrusted; `run_instance = map handle`, so they hold by definition - that "
                  "instances ARE stateless is what the history stream checks, not what Coq proves), 2 witnesses. The model is tied to the code by ~2000 cases per quick run (n = 1800: 1760 generated single requests + 40 over "
                  "sockets; plus n/12 = 150 histories of 2-6 requests and a corpus of 42 single cases + 8 histories) / n = 40000 thorough, "
                  "through the real assembled decision and proxy applications; inside Coq the model's prediction is compared on the "
                  "projections the property names, and a predicate written from the specification is evaluated on the implementation's "
                  "output: the view half in Coq; the upstream/log/response half of the untrusted predicate is the driver's pair/leaks "
                  "verdict computed in Go, Coq only checks that it is empty. C09/Coherence.v (check_coherent, check_history_coherent; "
                  "supporting lemmas, Print Assumptions closed, not counted) proves that this predicate holds whenever the prediction does.",
    "level_note": "Trusted: Coq kernel/vm_compute; the correspondence harness (pair/taint comparison is Go code); IP/CIDR/host:port/URL/HTTP "
                  "parsing are oracles (observed answers as case data, `net_ok` re-checked per case); rule matching reduced to the harness's "
                  "literal rule set; header values ASCII (strings.TrimSpace modelled for ASCII white space only). What a trusted peer's "
                  "headers become at the upstream (composition of X-Forwarded-*/Forwarded, all field lines since fix: f228b67) is modelled "
                  "and compared but not demanded by the property predicate (the statement is silent); the query of a trusted "
                  "X-Forwarded-Uri is the one sent (fix: f446e16), the predicate accepts the re-encoded reading as well; a value url.Parse "
                  "refuses is used as received, cut at the first '?' (fix: d3f6cd7), the predicate also accepts ignoring it. NOT covered: the Envoy ext_authz entry "
                  "point (grpcv3/request_context.go takes the client list from x-forwarded-for metadata with no trust test; the statement "
                  "names decision and proxy mode; see C13), configuration by environment variables (C20), TLS/HTTP/2 on real sockets, "
                  "non-ASCII header values, pipeline headers winning over the forwarding block at the upstream (rewriteRequest tail, C15), "
                  "keep-alive reuse of one connection (socket cases always send Connection: close), state that only shows after more than 6 requests on one instance or under concurrency "
                  "(histories are short and sequential). C09-F1 is fixed (fix: e501d3a = fixes/C09-F1.diff); the evaluator runs the repaired variant of the "
                  "model (`check true`), so a regression is an ordinary VIOLATION (corpus cases 0, 1, 21, 22 are the former witnesses). "
                  "Seeded changes: 6/6 caught, one of them (seeded/C09-9, a stateful 'last trusted peer' short cut) only after rework - it "
                  "escaped the first run and is caught since the history stream was added. Examples (hypotheses satisfiable) are compiled with Properties/C09.v but not counted as theorems.",
    "extra_coverage": _more_samples,
    "assumptions": [
        "the decision (matched rule, pipeline outcome) depends on the request only through the view (method, scheme, host, path, query, "
        "client list, headers the middleware left); not modelled (C02/C03/C04), tied in only by the stream's rule/pair/leaks comparison "
        "against seven literal rules",
        "reading of 'each present header overrides exactly its component': the component of Forwarded is the client list only (its "
        "proto= / host= parameters override nothing); X-Forwarded-For is used only when Forwarded is absent or empty",
        "header values are ASCII (Go's TrimSpace also trims Unicode white space; not modelled)",
        "header names are tokens (net/http rejects other header lines before heimdall sees the request)",
        "X-Forwarded-Path is deleted for untrusted peers but never read by heimdall (no component to override)",
        "a present but EMPTY forwarded header does not override (docs/operations/security.adoc: empty evaluation result -> actual request)",
    ],
}
