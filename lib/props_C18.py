"""C18 check configuration (see lib/runner.py for the meaning of the keys)."""

import os

_COMMON = {"internal/zzverif/c18/c18.go": "c18/common/c18.go", "internal/zzverif/c18/fs.go": "c18/common/fs.go"}
# which candidate repairs the tree under test carries (fixes/C18-F1.diff, fixes/C18-F2.diff): flipped here once the
# coordinator has applied them; VERIF_C18_FIXED=F1,F2 overrides for trying a fix in a scratch worktree
_FIXED = os.environ.get("VERIF_C18_FIXED", "F1,F2")   # 9cefff4 (C18-F1), 07a625c (C18-F2, C18-F4) are in /repo
_B = lambda f: "true" if f in _FIXED.split(",") else "false"

P = {
    "id": "C18",
    "claimed": True,
    "coq_targets": ["Properties/C18.vo", "Run/Eval_C18.vo"],
    "theorems_module": "Properties.C18",
    "theorems": ["C18_converges", "C18_exactly_once", "C18_unchanged_no_reload", "C18_removed_unloaded",
                 "C18_invalid_keeps_previous", "C18_frame",
                 "C18_fs_all_histories", "C18_fs_all_histories_pinned", "C18_fs_stored_hash",
                 "C18_http_all_histories", "C18_http_stored_hash",
                 "C18_fs_active_is_stored_hash", "C18_http_active_is_stored_hash",
                 "C18_fs_converges_world", "C18_fs_converges_world_pinned",
                 "C18_fs_F2_pinned_refuted", "C18_fs_F4_pinned_refuted", "C18_fs_nonvacuous",
                 "C18_blob_all_histories", "C18_blob_all_histories_pinned", "C18_blob_stored_hash",
                 "C18_blob_F1_pinned_refuted", "C18_blob_F5_refuted", "C18_blob_F6_refuted",
                 "C18_k8s_all_histories", "C18_k8s_converges"],
    "streams": [{
        "name": "fs", "pkg": "./internal/rules/provider/filesystem", "test": "TestVerifC18Fs",
        "overlay": dict(_COMMON, **{"internal/rules/provider/filesystem/zz_verif_c18_test.go": "c18/fs_test.go"}),
        "eval_module": "Run.Eval_C18", "check_term": "check_fs " + _B("F2"),
        "n_quick": 500, "n_thorough": 8000, "findings": {},
    }, {
        "name": "fsreal", "pkg": "./internal/rules", "test": "TestVerifC18Real",
        "overlay": dict(_COMMON, **{"internal/rules/zz_verif_c18_test.go": "c18/real_test.go",
                                    "internal/rules/provider/filesystem/zz_verif_c18_export.go": "c18/fs_export.go"}),
        "eval_module": "Run.Eval_C18", "check_term": "check_fsr " + _B("F2"),
        "n_quick": 300, "n_thorough": 4000, "findings": {},
    }, {
        "name": "http", "pkg": "./internal/rules/provider/httpendpoint", "test": "TestVerifC18HTTP",
        "overlay": dict(_COMMON, **{"internal/rules/provider/httpendpoint/zz_verif_c18_test.go": "c18/http_test.go"}),
        "eval_module": "Run.Eval_C18", "check_term": "check_http",
        "n_quick": 400, "n_thorough": 6000, "findings": {},
    }, {
        "name": "blob", "pkg": "./internal/rules/provider/cloudblob", "test": "TestVerifC18Blob",
        "overlay": dict(_COMMON, **{"internal/rules/provider/cloudblob/zz_verif_c18_test.go": "c18/blob_test.go"}),
        "eval_module": "Run.Eval_C18", "check_term": "check_blob " + _B("F1"),
        "n_quick": 400, "n_thorough": 6000, "findings": {5: "C18-F5", 6: "C18-F6"},
    }, {
        "name": "k8s", "pkg": "./internal/rules/provider/kubernetes", "test": "TestVerifC18K8s",
        "overlay": dict(_COMMON, **{"internal/rules/provider/kubernetes/zz_verif_c18_test.go": "c18/k8s_test.go"}),
        "eval_module": "Run.Eval_C18", "check_term": "check_k8s",
        "n_quick": 300, "n_thorough": 4000, "findings": {},
    }],
    "rule": "per provider, generated histories of 1-30 events over 1-3 sources (file system: file changes valid/absent/empty/"
            "invalid with 5 empty and 11 invalid byte variants, fsnotify events of every kind incl. combined op bits, orderly and "
            "out-of-order/repeated/stale notifications, initial loads; HTTP endpoint: polls answered by 200/yaml|json|other|no "
            "content type x valid/empty/invalid body, other status codes, connection error, timeout, cancellation; 20% of the "
            "contents rejected by the processor, 8% of the cases with a source whose deletion the processor refuses) run through "
            "the real event entry points with a recording processor; corpus (finding witnesses) first; non-trivial = the history "
            "produced an accepted update or deletion, or kept a loaded version while seeing an invalid/rejected one; distinct by "
            "hash of the generated input",
    "anchors": ["internal/rules/provider/filesystem/provider.go", "internal/rules/provider/httpendpoint/provider.go",
                "internal/rules/provider/httpendpoint/ruleset_endpoint.go", "internal/rules/provider/cloudblob/provider.go",
                "internal/rules/provider/cloudblob/ruleset_endpoint.go", "internal/rules/provider/kubernetes/provider.go",
                "internal/rules/config/parser.go", "internal/rules/ruleset_processor_impl.go"],
    "trusted": ["content hashes (SHA-256/MD5) are modelled by the identity of the content (only equality of hashes is used)",
                "the rule-set parser (YAML/JSON decoding + validation) is not modelled: the class of a content (absent/empty/invalid/"
                "valid) is data of the case, realised by real bytes the real parser classifies in the run",
                "the rule-set processor is an oracle per content (accept/reject) and per source (deletion accepted/refused)",
                "fsnotify, gocron scheduling, net/http transport: the drivers call the event entry points synchronously "
                "(ruleSetsChanged, loadInitialRuleSet, watchChanges); delivery and scheduling of events are not modelled"],
    "level_text": "Proof (kernel-checked, no axioms): for the file-system, HTTP-endpoint and cloud-blob provider models, for ALL finite histories "
                  "of source changes, notifications/polls (any kind, repeated, out of order) and fetch outcomes, the sequence of "
                  "accepted OnCreated/OnUpdated/OnDeleted calls is exactly the one that tracks the latest valid content seen of each "
                  "source (trace_ok), by induction with the invariant stored hash = latest valid content seen; from trace_ok follow "
                  "convergence, exactly-once application, no reload on unchanged content, unloading of removed/emptied sources and "
                  "keeping the previous version on invalid/rejected content. The models are tied to provider.go/ruleset_endpoint.go by "
                  "running the real handlers on ~1300 (quick) generated histories per run and comparing calls, results, returned errors "
                  "and stored hashes per event.",
    "level_note": "File system: proved outside the guards of the open findings C18-F2 (Rename ignored) and C18-F4 (stale Remove), and "
                  "without guards for the repaired dispatch (fixes/C18-F2.diff). Trusted: Coq kernel/vm_compute; the correspondence "
                  "harness; hashes as content identities; parser and processor as oracles; event delivery (fsnotify, scheduler) not "
                  "modelled. Cloud blob: proved outside the guards of C18-F1 (fix candidate), C18-F5, C18-F6 for histories "
                  "conforming to the endpoint configuration; the cloud store is an in-memory driver stub. Kubernetes: see docs/notes/C18.md.",
    "assumptions": ["in-package drivers read Provider.states and call unexported handlers: a rename of those breaks the driver, not the property",
                    "the processor's answer depends only on the content (create/update) or the source (delete), not on the call history"],
}

# VERIF_C18_STREAMS=fs,blob restricts a run to some streams (used for mutation testing only)
if os.environ.get("VERIF_C18_STREAMS"):
    P["streams"] = [st for st in P["streams"] if st["name"] in os.environ["VERIF_C18_STREAMS"].split(",")]
