"""C18 check configuration (see lib/runner.py for the meaning of the keys)."""

import os

_COMMON = {"internal/zzverif/c18/c18.go": "c18/common/c18.go", "internal/zzverif/c18/fs.go": "c18/common/fs.go"}
# which repairs the tree under test carries: all four candidate diffs (fixes/C18-F1, -F2 (also repairs F4), -F7, -F8) have
# been applied to /repo by the coordinator, so the default below selects the repaired model variants;
# VERIF_C18_FIXED=F1,F2 (a subset) overrides it for running the check against a tree without some of them
_REAL = dict(_COMMON, **{"internal/rules/zz_verif_c18_test.go": "c18/real_test.go",
                         "internal/rules/provider/filesystem/zz_verif_c18_export.go": "c18/fs_export.go",
                         "internal/rules/provider/kubernetes/zz_verif_c18_run.go": "c18/k8s_run.go",
                         "internal/rules/provider/cloudblob/zz_verif_c18_store.go": "c18/blob_store.go",
                         "internal/rules/provider/httpendpoint/zz_verif_c18_export.go": "c18/http_export.go"})
_FIXED = os.environ.get("VERIF_C18_FIXED", "F1,F2,F7,F8")   # in /repo: 9cefff4 (C18-F1), 07a625c (C18-F2, C18-F4), 46996f5 (C18-F7), f7bb6ba (C18-F8)
_B = lambda f: "true" if f in _FIXED.split(",") else "false"

P = {
    "id": "C18",
    "claimed": True,
    "coq_targets": ["Properties/C18.vo", "Run/Eval_C18.vo"],
    "theorems_module": "Properties.C18",
    "theorems": ["C18_converges", "C18_exactly_once", "C18_unchanged_no_reload", "C18_removed_unloaded",
                 "C18_invalid_keeps_previous", "C18_frame",
                 "C18_fs_all_histories", "C18_fs_all_histories_pinned",
                 "C18_http_all_histories", "C18_http_latest_valid", "C18_http_reading_keep_refuted",
                 "C18_fs_converges_world", "C18_fs_applied_at_most_once", "C18_fs_converges_world_pinned",
                 "C18_fs_F2_pinned_refuted", "C18_fs_F4_pinned_refuted", "C18_fs_nonvacuous",
                 "C18_blob_all_histories", "C18_blob_all_histories_pinned",
                 "C18_blob_unreadable_poll_changes_nothing", "C18_blob_single_absent_changes_nothing",
                 "C18_blob_F1_pinned_refuted", "C18_blob_F5_refuted", "C18_blob_F6_refuted",
                 "C18_k8s_all_histories", "C18_k8s_converges", "C18_k8s_F7_pinned_refuted", "C18_k8s_F8_pinned_refuted",
                 # state-dependent acceptance (coq/C18/Accept*.v)
                 "C18_accept_latest_applicable", "C18_accept_converges",
                 "C18_accept_no_global_convergence",
                 "C18_http_accept_all_histories", "C18_http_accept_retry", "C18_http_accept_converges",
                 "C18_blob_accept_all_histories", "C18_blob_accept_retry", "C18_blob_accept_converges",
                 "C18_accept_static_special_case", "C18_http_eager_hash_refuted", "C18_blob_eager_hash_refuted",
                 "C18_fs_accept_all_histories", "C18_fs_accept_notify", "C18_fs_eager_hash_refuted",
                 "C18_k8s_calls_independent_of_answers", "C18_k8s_accept_no_retry_witness",
                 "C18_k8s_accept_next_generation_loads",
                 "C18_k8s_F10_refuted", "C18_fs_F11_refuted"],
    "streams": [{
        "name": "fs", "pkg": "./internal/rules/provider/filesystem", "test": "TestVerifC18Fs",
        "overlay": dict(_COMMON, **{"internal/rules/provider/filesystem/zz_verif_c18_test.go": "c18/fs_test.go"}),
        "eval_module": "Run.Eval_C18", "check_term": "check_fs " + _B("F2"),
        "n_quick": 400, "n_thorough": 16000, "findings": {},
    }, {
        "name": "fsreal", "pkg": "./internal/rules", "test": "TestVerifC18Real",
        "overlay": _REAL,
        "eval_module": "Run.Eval_C18", "check_term": "check_fsr " + _B("F2"),
        "n_quick": 200, "n_thorough": 8000, "findings": {},
    }, {
        "name": "fswatch", "pkg": "./internal/rules/provider/filesystem", "test": "TestVerifC18FsWatch",
        "overlay": dict(_COMMON, **{"internal/rules/provider/filesystem/zz_verif_c18w_test.go": "c18/fswatch_test.go"}),
        "eval_module": "Run.Eval_C18", "check_term": "check_fsw",
        "n_quick": 70, "n_thorough": 1500, "findings": {},
    }, {
        "name": "http", "pkg": "./internal/rules/provider/httpendpoint", "test": "TestVerifC18HTTP",
        "overlay": dict(_COMMON, **{"internal/rules/provider/httpendpoint/zz_verif_c18_test.go": "c18/http_test.go"}),
        "eval_module": "Run.Eval_C18", "check_term": "check_http",
        "n_quick": 300, "n_thorough": 12000, "findings": {},
    }, {
        "name": "httpsched", "pkg": "./internal/rules/provider/httpendpoint", "test": "TestVerifC18HTTPSched",
        "overlay": dict(_COMMON, **{"internal/rules/provider/httpendpoint/zz_verif_c18_test.go": "c18/http_test.go"}),
        "eval_module": "Run.Eval_C18", "check_term": "check_hsched",
        "n_quick": 3, "n_thorough": 3, "findings": {}, "escalate": False,
    }, {
        "name": "blob", "pkg": "./internal/rules/provider/cloudblob", "test": "TestVerifC18Blob",
        "overlay": dict(_COMMON, **{"internal/rules/provider/cloudblob/zz_verif_c18_test.go": "c18/blob_test.go",
                                    "internal/rules/provider/cloudblob/zz_verif_c18_store.go": "c18/blob_store.go"}),
        "eval_module": "Run.Eval_C18", "check_term": "check_blob " + _B("F1"),
        "n_quick": 300, "n_thorough": 12000, "findings": {5: "C18-F5", 6: "C18-F6"},
    }, {
        "name": "k8s", "pkg": "./internal/rules/provider/kubernetes", "test": "TestVerifC18K8s",
        "overlay": dict(_COMMON, **{"internal/rules/provider/kubernetes/zz_verif_c18_test.go": "c18/k8s_test.go",
                                    "internal/rules/provider/kubernetes/zz_verif_c18_run.go": "c18/k8s_run.go"}),
        "eval_module": "Run.Eval_C18", "check_term": "check_k8s " + _B("F7") + " " + _B("F8"),
        "n_quick": 250, "n_thorough": 6000, "findings": {},
    }, {
        "name": "k8sreal", "pkg": "./internal/rules", "test": "TestVerifC18K8sReal",
        "overlay": _REAL,
        "eval_module": "Run.Eval_C18", "check_term": "check_k8sr " + _B("F7") + " " + _B("F8"),
        "n_quick": 120, "n_thorough": 4000, "findings": {},
    }, {
        "name": "k8scomp", "pkg": "./internal/rules", "test": "TestVerifC18K8sComp", "overlay": _REAL,
        "eval_module": "Run.Eval_C18", "check_term": "check_k8sc",
        "n_quick": 90, "n_thorough": 1500, "findings": {10: "C18-F10"},
    }, {
        "name": "fscomp", "pkg": "./internal/rules", "test": "TestVerifC18FsComp", "overlay": _REAL,
        "eval_module": "Run.Eval_C18", "check_term": "check_fsc",
        "n_quick": 150, "n_thorough": 3000, "findings": {11: "C18-F11"},
    }, {
        "name": "httpreal", "pkg": "./internal/rules", "test": "TestVerifC18HTTPReal", "overlay": _REAL,
        "eval_module": "Run.Eval_C18", "check_term": "check_hreal",
        "n_quick": 150, "n_thorough": 4000, "findings": {},
    }, {
        "name": "blobreal", "pkg": "./internal/rules", "test": "TestVerifC18BlobReal", "overlay": _REAL,
        "eval_module": "Run.Eval_C18", "check_term": "check_breal",
        "n_quick": 150, "n_thorough": 4000, "findings": {},
    }],
    "rule": "twelve streams, every one through REAL code of /repo, corpus (witnesses of C18-F1/F2/F4/F5/F6/F7/F8, of C18-F10/F11 (three k8scomp and the fscomp corpus cases in harness/c18/real_test.go) + corpus/C18/*.json) "
            "first, then generated histories of 1-30 events over 1-3 sources: "
            "fs = file changes (valid/absent/empty/invalid, 5 empty and 11 invalid byte variants) x fsnotify events of every kind "
            "incl. combined op bits, orderly and out-of-order/repeated/stale notifications, initial loads, via "
            "ruleSetsChanged/loadInitialRuleSet with a recording processor; "
            "fsreal = the same (disjoint content ranges per file, twin contents with equal rule ids and other bodies) through the "
            "real rule-set processor, rule factory (stub catalogue) and repository, observing rule ids and paths per source; "
            "fswatch = real Start + real fsnotify watcher + watchFiles: atomic renames/removes/symlinks/mkdir with a sentinel-file "
            "barrier, accepted calls per operation, Start failure, stalled watcher; "
            "http = polls via watchChanges against an httptest server: 200 x yaml|json|six unsupported media types|none x "
            "valid/empty/invalid body, other status codes, connection error, deadline, cancellation; "
            "httpsched = real newProvider+Start (gocron, 20 ms interval) with barriers on answered polls, overlap detection; "
            "blob = polls via watchChanges over an in-memory driver.Bucket: paged listings and single-blob endpoints, failures "
            "injected at open/list/attrs/read x gcerrors codes; "
            "k8s = provider.Start with the real client-go reflector/informer over a fake API: watch events, class/generation "
            "changes, initial list, relists after 410 Gone (deleted / re-created / changed meanwhile), ~25% cases with "
            "deliveries an API server would not make; handler panics observed; "
            "k8sreal = the same histories against the real rule-set processor, rule factory (stub catalogue) and repository, "
            "reading what the repository holds per object after every event; "
            "httpreal / blobreal = polls of 2-3 endpoints / single-key buckets through watchChanges against the real processor, "
            "factory and repository with contents of four conflict classes sharing a path (a valid set refused while another "
            "source holds the path, applied at a later poll), reading stored hashes and repository per poll; "
            "k8scomp / fscomp = the event-driven providers with competing rule sets against the real processor and repository: "
            "after every event the repository must be quiescent (no valid, applicable rule set of an existing source left "
            "unloaded) — open findings C18-F10, C18-F11. "
            "12-20% of the contents are rejected by the processor (unsupported version / unknown mechanism); 6-30% of the "
            "fs/http/blob(single key)/k8s cases have a source whose deletion the processor refuses (correspondence only). "
            "Non-trivial = the history produced an accepted update or deletion, or kept a loaded version while seeing an "
            "invalid/rejected one; distinct by hash of the generated input",
    "anchors": ["internal/rules/provider/filesystem/provider.go", "internal/rules/provider/httpendpoint/provider.go",
                "internal/rules/provider/httpendpoint/ruleset_endpoint.go", "internal/rules/provider/cloudblob/provider.go",
                "internal/rules/provider/cloudblob/ruleset_endpoint.go", "internal/rules/provider/kubernetes/provider.go",
                "internal/rules/config/parser.go", "internal/rules/ruleset_processor_impl.go"],
    "trusted": ["content hashes (SHA-256/MD5) are modelled by the identity of the content (only equality of hashes is used); blobs "
                "whose driver reports no MD5 are outside the model (stub replay: they are never updated — candidate C18-F9)",
                "the rule-set parser (YAML/JSON decoding + validation) is not modelled: the class of a content (absent/empty/invalid/"
                "valid) is data of the case, realised by real bytes the real parser classifies in the run; the drivers map "
                "(content type, bytes) and (injected failure, listing) to the model's classes",
                "the rule-set processor is an oracle per content (accept/reject) and per source (deletion accepted/refused); the "
                "streams fsreal, k8sreal, httpreal, blobreal, fscomp, k8scomp run against the real processor+factory+repository; fsreal, k8sreal check that the real processor+factory+repository behave like that oracle and like the ideal "
                "repository keyed by source id — including update/delete of something not loaded, which the Kubernetes provider "
                "relies on — for rule sets that do not compete for paths; for rule sets that compete for a path the processor is "
                "modelled as dacc (acceptable in itself AND clashing with nothing another source holds now; deletion never "
                "refused; C18_accept_processor) with the ideal repository, and httpreal / blobreal check that the real "
                "processor+factory+repository behave like that for contents of four conflict classes (clash = same class); "
                "fscomp / k8scomp check that the file-system and Kubernetes models against that processor (fs_dyn_steps, "
                "k8s_dyn_steps) equal the real provider+processor+repository for contents of the four conflict classes",
                "event delivery is modelled only as 'one notification per atomic change, in order' (fswatch) and 'polls one after "
                "another' (httpsched); lost events, non-atomic writes, the window between initial load and watcher.Add, the "
                "cloud-blob scheduler are not covered",
                "cloud store: an in-memory gocloud driver.Bucket stub reporting the gcerrors codes real drivers report (C18-F1/F5/F6 "
                "were additionally replayed against gofakes3 + s3blob)",
                "Kubernetes: the client-go reflector/DeltaFIFO/informer dispatch and cache.FilteringResourceEventHandler are "
                "transcribed into the model as observed (the run uses the real ones); status updates, finalize are not modelled"],
    "level_text": "Proof (kernel-checked, no axioms; coqchk in the thorough tier): for the models of all four rule providers, for ALL "
                  "finite histories of source changes, notifications/polls/watch events and relists (any kind, repeated, stale, out "
                  "of order) and fetch outcomes, the sequence of accepted OnCreated/OnUpdated/OnDeleted calls is exactly the one "
                  "that tracks the latest valid content seen of each source (trace_ok; for Kubernetes modulo idempotent calls, "
                  "and no handler panics — i.e. for Kubernetes an accepted update to the already loaded content, a deletion of "
                  "something not loaded and update-instead-of-create are removed before the comparison (norm_trace): 'no reload "
                  "on unchanged content' and 'exactly once' are NOT established for the Kubernetes provider's real calls, only "
                  "that what is loaded is right (C18_k8s_converges)), by induction with the invariant stored hash = latest valid content seen; from "
                  "trace_ok follow convergence, exactly-once application, no reload on unchanged content, unloading of "
                  "removed/emptied sources and keeping the previous version on invalid/rejected content. File system additionally at "
                  "world level: after the last change of a file any processed notification makes the loaded version the file's "
                  "latest valid content, and the accepted calls per file never exceed the file's changes. State-dependent "
                  "acceptance (a valid rule set refused while ANOTHER source holds one of its paths, accepted later): for ALL "
                  "processors dacc(ok0, clash, sources) and ALL histories the file-system, HTTP-endpoint and (single-key bucket) "
                  "cloud-blob models make exactly the reference run's calls; spec_look / spec_repo_steps is THE specification (the "
                  "same definitions the streams httpreal/blobreal evaluate on the real repository: per source the latest content "
                  "that was valid and applicable at a look since the source appeared) and the reference run ref_steps a derived "
                  "call-level rendering of it (ref_view_spec) — the independent content of C18_http/blob_accept_all_histories is "
                  "their repository conjunct (= spec_repo_steps); for the file system: calls = reference run per look "
                  "(C18_fs_accept_all_histories), repository = specification per look via ref_view/spec_view (no fs theorem of "
                  "the shape repository column = spec_repo_steps). A refused valid content is offered again at every later "
                  "poll (retry), and one poll after it became applicable it is loaded (convergence) — for the polling "
                  "providers; the event-driven providers look at a source only on its own event: the file system re-offers at "
                  "the file's next notification only (open finding C18-F11, C18_fs_F11_refuted), Kubernetes not at all until "
                  "the generation changes (open finding C18-F10, C18_k8s_F10_refuted); the content-only oracle of the other theorems is the special case "
                  "clash = none; providers that record the hash before the processor answered are refuted by witness "
                  "histories. The models are tied to "
                  "the provider sources by running the real handlers, the real fsnotify watcher loop, the real gocron-scheduled "
                  "polls and the real client-go informer on ~2200 (quick) / ~72000 (thorough) generated histories per run.",
    "level_note": "PARTIAL in these respects. (1) An unreachable HTTP endpoint / bucket is read as a source that no longer exists "
                  "(Spec parameter gone = true, what heimdall implements); under the other reading the provider is refuted "
                  "(C18_http_reading_keep_refuted); the run-time predicate accepts either. (2) Cloud blob is proved outside the "
                  "per-poll guards of the open findings C18-F5 (an unloadable blob while something of the bucket has to change) "
                  "and C18-F6 (the named blob is gone while its rule set is loaded), for histories conforming to the endpoint "
                  "configuration. (3) Kubernetes is proved for well-formed histories (k8s_wf), read modulo idempotent processor "
                  "calls (so 'exactly once' / 'no reload' are not established for its real calls), and outside the guard of a UID change under a stored name (the repaired path of C18-F8 is covered by "
                  "correspondence and a witness only). (4) All provider theorems assume a processor that never refuses a deletion. "
                  "(5) State-dependent acceptance: cloud blob only for buckets with one key and polls without a listed/named but "
                  "absent blob (C18-F5/F6 territory); file system and Kubernetes against such a processor: the streams fscomp / "
                  "k8scomp run the models fs_dyn_steps / k8s_dyn_steps against the real processor+repository with competing rule "
                  "sets (correspondence of calls, answers and repository); the convergence clause FAILS there — open findings "
                  "C18-F10 (Kubernetes: a RuleSet refused for an external conflict is re-offered only when its generation changes; "
                  "C18_k8s_F10_refuted, C18_k8s_accept_no_retry_witness; replayed on the real code) and C18-F11 (file system: "
                  "re-offered only at the file's own next fs event; C18_fs_F11_refuted; replayed); their guards are computed from "
                  "the history and the look-based specification alone (the reference that does what every look demands is itself "
                  "not quiescent), so any other non-quiescent end is an unguarded property failure; there is no general "
                  "Kubernetes theorem against such a processor; convergence is per source and per look — two sources whose new contents each "
                  "compete with the other's old content block each other for ever (C18_accept_no_global_convergence). (6) An initial load of the file system provider that meets an invalid or refused "
                  "file aborts; the files after it are not looked at (Start returns the error) — no convergence claim for them. "
                  "File system, cloud blob and Kubernetes are the providers after the fix: commits 07a625c (C18-F2, C18-F4), "
                  "9cefff4 (C18-F1), 46996f5 (C18-F7), f7bb6ba (C18-F8); pinned behaviour kept as *_pinned theorems/witnesses. "
                  "Trusted: Coq kernel/vm_compute; the correspondence harness incl. its class mappings; hashes as content "
                  "identities; parser and processor as oracles; cloud store stub; client-go informer as observed.",
    "assumptions": ["in-package drivers read Provider.states / BucketState and call unexported handlers: renames of the unexported "
                    "fields/methods the drivers use are re-bound automatically (harness/tools/rebind, seeded/harmless/C18-r6); a "
                    "change of REPRESENTATION of Provider.states / BucketState breaks the driver (correspondence-broken), not "
                    "the property",
                    "in the trace_ok theorems (C18_converges ... C18_k8s_converges) the processor's answer depends only on the content "
                    "(create/update) or the source (delete), not on the call history; in the C18_*accept* theorems it depends on what "
                    "OTHER sources have loaded at that moment (dacc: any ok0, any clash relation, any source list; never on the "
                    "offering source's own previous content, and a deletion is never refused) — other forms of state dependence "
                    "(rate limits, rule-id uniqueness across sources, ...) are not modelled",
                    "fairness is a hypothesis: every change is followed by a notification / poll that is processed"],
}

def _per_stream():
    """per-stream numbers for the evidence (cases, distinct non-trivial, findings' tags) read from the observation files"""
    import glob, json as _json
    out = {}
    sys_vf = __import__("vf")
    for path in sorted(glob.glob(os.path.join(sys_vf.OUT, "C18", "obs_*.jsonl"))):
        name = os.path.basename(path)[4:-6]
        if name.endswith("_esc") or name not in [st["name"] for st in P["streams"]]:
            continue
        n, keys, sample = 0, set(), None
        for line in open(path):
            o = _json.loads(line)
            n += 1
            if o.get("nontrivial"):
                keys.add(o.get("key"))
            if sample is None and o.get("stream") == "generated":
                sample = {"in": o["in"]}
        out[name] = {"cases": n, "distinct_nontrivial": len(keys), "sample_input": sample}
    return {"per_stream": out}


P["extra_coverage"] = _per_stream

# VERIF_C18_STREAMS=fs,blob restricts a run to some streams (used for mutation testing only)
if os.environ.get("VERIF_C18_STREAMS"):
    P["streams"] = [st for st in P["streams"] if st["name"] in os.environ["VERIF_C18_STREAMS"].split(",")]
