"""C08 check configuration (see lib/runner.py for the meaning of the keys)."""

import os

# which repairs the modelled tree contains (coq/C08/Model.v), each variant = the previous one plus the named fix: commits:
#   "pinned"     before a779db8
#   "fixed_F2"   + a779db8 (C08-F2)
#   "before_F5"  + 72ba5d4 (C08-F3), 41fd1db (C15-F1)
#   "before_F6"  + 6d0a3af (C08-F5), 5270ed2 (C15-F6)
#   "repaired"   + d3f6cd7 (C08-F6), f446e16: the tree as it is now ("repaired_F6" is an alias of "repaired")
FX = os.environ.get("VERIF_C08_FX", "repaired")

P = {
    "id": "C08",
    "claimed": True,
    "coq_targets": ["Properties/C08.vo", "Run/Eval_GoUrl.vo", "Run/Eval_C08.vo"],
    "theorems_module": "Properties.C08",
    "theorems": ["C08_reencoding_invariant", "C08_reencoding_invariant_parametric", "C08_F1_refuted",
                 "C08_F3_pinned_refuted", "C08_F2_pinned_refuted", "C08_reencoding_invariant_nonvacuous",
                 "C08_malformed_rejected", "C08_reenc_checked_by_evaluator", "C08_off_rejects_encoded_slash",
                 "C08_off_rejects_encoded_slash_parametric", "C08_F4_off_refuted", "C08_F2_off_pinned_refuted",
                 "C08_off_captures_decoded", "C08_capture_decoding", "C08_capture_decoding_parametric",
                 "C08_nodecode_keeps", "C08_on_decodes", "C08_nodecode_on_nonvacuous",
                 "C08_F5_nodecode_pinned_refuted", "C08_F2_nodecode_pinned_refuted", "C08_reencoding_invariant_envoy",
                 "C08_off_rejects_encoded_slash_envoy", "C08_F4_envoy_upstream_refuted", "C08_accepted_request",
                 "C08_accepted_request_envoy", "C08_accepted_request_xfu", "C08_precondition_answer",
                 "C08_precondition_answer_envoy", "C08_precondition_nonvacuous", "C08_reencoding_invariant_xfu",
                 "C08_off_rejects_encoded_slash_xfu", "C08_off_rejects_encoded_slash_xfu_any", "C08_F6_pinned_refuted"],
    "streams": [{
        "name": "requests", "pkg": "./internal/rules", "test": "TestVerifC08",
        "overlay": {"internal/rules/zz_verif_c08_test.go": "c08/c08_test.go"},
        "eval_module": "Run.Eval_C08", "check_term": "check " + FX,
        "n_quick": 800, "n_thorough": 30000, "shard": 150,
        "findings": {1: "C08-F1", 4: "C08-F4"},
    }, {
        "name": "envoy", "pkg": "./internal/rules", "test": "TestVerifC08Envoy",
        "overlay": {"internal/rules/zz_verif_c08_test.go": "c08/c08_test.go"},
        "eval_module": "Run.Eval_C08", "check_term": "check_envoy " + FX,
        "n_quick": 400, "n_thorough": 15000, "shard": 150,
        "findings": {1: "C08-F1", 4: "C08-F4"},
    }, {
        "name": "xfu", "pkg": "./internal/rules", "test": "TestVerifC08Xfu",
        "overlay": {"internal/rules/zz_verif_c08_test.go": "c08/c08_test.go"},
        "eval_module": "Run.Eval_C08", "check_term": "check_xfu " + FX,
        "n_quick": 400, "n_thorough": 15000, "shard": 150,
        "findings": {1: "C08-F1", 4: "C08-F4"},
    }, {
        "name": "units", "pkg": "./internal/rules", "test": "TestVerifC08Units",
        "overlay": {"internal/rules/zz_verif_c08_test.go": "c08/c08_test.go"},
        "eval_module": "Run.Eval_C08", "check_term": "ucheck " + FX,
        "n_quick": 1500, "n_thorough": 30000,
        "findings": {},
        # white-box unit stream on the unexported helper `unescape` of rule_impl.go; the same decoding is exercised end to end by
        # the stream `requests` (captures after Execute).  When the helper itself is REMOVED from the package (harness/tools/rebind
        # finds no counterpart, e.g. seeded/harmless/C08-r8 splits it into two one-argument functions) the stream is skipped with
        # a NOTE instead of raising an alarm, provided `requests` ran green (lib/runner.py, docs/notes/REBIND.md)
        "supplementary": ["requests"],
    }, {
        "name": "gourl", "pkg": "./internal/rules/config", "test": "TestVerifGoUrl",
        "overlay": {"internal/rules/config/zz_verif_gourl_test.go": "gourl/gourl_test.go"},
        "eval_module": "Run.Eval_GoUrl", "check_term": "check",
        "n_quick": 2500, "n_thorough": 40000, "findings": {},
    }],
    "rule": ("requests (net/http origin-form), envoy (grpcv3 request context; target with and without ?query in the path "
            "attribute), xfu (HTTP server, target in X-Forwarded-Uri, the proxy's own request goes to /zz-own): a base path of 1-4 "
            "(3%: 17-40) segments built from words, pool values and RANDOM token strings (unreserved octets, sub-delimiters, escapes of "
            "arbitrary octets incl. %00 %5C %3F %23 %3B %2F %25 in either hex case; 2%: one segment > 2 KiB), bytes net/url rejects, "
            "malformed escapes; 1-4 rules derived from it (literal / :wildcard / *free wildcard per position; path_params exact, glob or "
            "regex [the answers of the real gobwas/glob / regexp matcher on every piece of the path in three decodings are recorded as the "
            "model's oracle table; glob/regex only on paths of <= 6 segments], allow_encoded_slashes off / on / no_decode or UNSET (the "
            "default, rendered as off), rule-level error handler that swallows errors on 40%, forward_to with/without rewrite), default "
            "rule in 40%, random method (GET/POST/OPTIONS/HEAD/PUT/DELETE), and a second spelling of the path: an equivalent re-encoding "
            "in ~55% of the cases, the same spelling in the rest (a quick run has ~450 + 220 + 260 re-encoded pairs, of which ~140 + 60 + "
            "75 are accepted by the same non-default rule under both spellings; tags c08:re-encoded, c08:re-encoded-same-rule, "
            "c08:guard-F1 in the input histogram).  Every case is run on a fresh repository (the compared "
            "observation) AND on a second repository after a history of non-equivalent twins (encoded slashes decoded, every % encoded "
            "once more, the fully decoded path, a miss), in the other order; the repeated answers must equal the first ones (o_stable).  "
            "Non-trivial = the request reaches heimdall, a rule set is loaded, and the two spellings differ or the path has an encoded "
            "slash; distinct by hash of the input.  units (supplementary to requests: skipped with a NOTE when the unexported helper "
            "it calls no longer exists and requests ran green): rule_impl.go unescape on concatenations of escapes and malformed "
            "escapes.  gourl: net/url (unescape/escape/setPath/EscapedPath/RequestURI/ParseQuery/Encode) and heimdall's URL rewriter on "
            "random and edge byte strings."),
    "anchors": ["internal/rules/rule_impl.go", "internal/rules/route_matcher.go", "internal/rules/repository_impl.go",
                "internal/rules/config/encoded_slash_handling.go", "internal/rules/config/backend.go",
                "internal/rules/config/url_rewriter.go", "internal/handler/requestcontext/extract_url.go"],
    "trusted": ["the radix tree is abstracted to a segment-wise search (static > wildcard > free wildcard, backtracking on, routes "
                "of a node in insertion order; dfs_fast = dfs proved); its faithful model and findings are C02/C03's; the abstraction is "
                "compared with the real tree on every case of the three request streams",
                "net/url and strings functions are mirrored in Base/GoUrl.v and compared with the Go standard library on "
                "every run (stream gourl); url.Parse for X-Forwarded-Uri is modelled for values whose path starts with exactly one '/' "
                "and has no '#' (the stream stays inside that domain)",
                "glob / regex path_params are oracle tables recorded from the real matchers per case (a value missing from the table "
                "does not match in the model)",
                "the pipeline behind Execute accepts (stub authenticator); the upstream URL is C15's model (create_url_q); only the PATH of "
                "its request line is compared and specified here",
                "history independence (o_stable) is compared by the driver (reflect.DeepEqual of the two observations)"],
    "level_text": ("Proof (kernel-checked, no axioms) over a Gallina model of the three ways a request path reaches the rules (net/http "
                  "target parsing + extractURL, X-Forwarded-Uri, Envoy), FindRule's choice of the raw path, the route lookup (segment-wise), "
                  "pathParamMatcher and ruleImpl.Execute.  For ALL rule sets, default-rule settings, request paths and ALL equivalent "
                  "re-encodings: answer kind, rule and captured values are unchanged unless some path expression matches one spelling and "
                  "not the other (C08-F1, open; the guard fires on ~25% of the generated re-encoded pairs, of which about 1 in 6 is "
                  "over-approximated; tag c08:guard-F1).  A path with %2F/%2f is never accepted by an `off` rule or the default rule "
                  "(outside C08-F4 via net/http and X-Forwarded-Uri; without any guard via Envoy and for a forwarded target that does not "
                  "parse); whenever every path expression matching the path as spelled belongs to an `off` rule it is answered with the "
                  "precondition error — or, only when no default rule is configured and all those expressions carry path_params (or "
                  "nothing matches), with 'no rule'; either way rejected.  Every accepted request — outside C08-F4 via net/http and "
                  "X-Forwarded-Uri, for well-formed paths via Envoy and X-Forwarded-Uri (a malformed path that reaches the rules is "
                  "captured as \"\") — was matched by a path expression that matches the path as spelled, and its captured values are "
                  "exactly the segments at that expression's wildcards, decoded per setting (`no_decode`: all but the encoded slash; the "
                  "piece-by-piece decoding is proved correct without guard).  A `no_decode` rule sends upstream the path as it is after its "
                  "prefix rewriting whenever that path is one net/url writes unchanged (well-formed, no byte of C08-F4; with such a byte "
                  "the request line is re-encoded also via Envoy: C08_F4_envoy_upstream_refuted).  An `on` rule captures the fully decoded "
                  "segments and (net/http entry, rule without rewriter) builds the upstream URL from the decoded path, request line without "
                  "encoded slash.  Open findings have `_refuted` witnesses on the current tree, repaired ones `_pinned_refuted` witnesses on "
                  "the tree before the fix.  The model is tied to the code by five differential streams per run (~800 request pairs "
                  "through the real net/http server/repository/executor, ~400 through the real Envoy request context, ~400 through "
                  "X-Forwarded-Uri, each with a history run; ~1500 unescape units [supplementary], ~2500 net/url cases; "
                  "30000/15000/15000/30000/40000 in the thorough tier).  Status codes of the services and the wire towards the upstream "
                  "are not observed here (C12/C13/C15's)."),
    "level_note": ("Trusted: Coq kernel/vm_compute; the correspondence harness (generator, stub authenticator, oracle tables of the real "
                  "glob/regex matchers, Gallina rendering); the radix tree abstracted to a segment-wise search (C02/C03 own the tree).  "
                  "Correspondence compares kind, rule, captures and the path of the upstream request line only; the property predicate is "
                  "built from C08/Spec.v on the implementation's observation.  The statement says 'answered with the precondition error' "
                  "without exception; the 'no rule' answer for an `off` rule with path_params and no default rule is read as 'rejected' "
                  "(docs: off = reject requests with encoded slashes), witnessed by C08_precondition_nonvacuous.  NO THEOREM, only the "
                  "differential predicate up_ok: the upstream path under `on` via Envoy / X-Forwarded-Uri and under `on` with a rewriter on "
                  "any entry; C08_nodecode_keeps / C08_on_decodes speak about rules without rewriter on the net/http entry (the rewriter "
                  "case is in accepted_spec, `no_decode` only); captures/upstream of malformed paths via Envoy / X-Forwarded-Uri.  "
                  "Open findings C08-F1 (raw-path lookup) and C08-F4 (bytes net/url refuses) are guarded, observed on every run and "
                  "documented by `_refuted` theorems; the theorems use guard_F4 p = `p is not a valid encoded path for net/url` (which also "
                  "absorbs '?' and '#' in the path for net/http and X-Forwarded-Uri; no Envoy theorem has it), the streams the narrower "
                  "g_F4 = guard_F4 and an encoded slash in either spelling.  C08-F2/F3/F5/F6 were repaired by fix: commits a779db8, 72ba5d4, "
                  "6d0a3af, d3f6cd7 (`_pinned_refuted` on pinned / fixed_F2 / before_F5 / before_F6).  The units stream is supplementary to "
                  "requests (skipped with a NOTE if the unexported helper disappears and requests is green).  After two independent audits "
                  "(docs/audit/C08.md, docs/audit2/C08.md) the check catches the first auditor's mutants (lookup cache keyed by the decoded "
                  "path, decoding only for exact matchers, X-Forwarded-Uri canonicalisation, error-handler detour, OPTIONS exemption, "
                  "length/shape-limited decoders, rewriter regressions) and the seeded changes C08-1, -2, -9, -10, -11."),
    "assumptions": ["every rule of the modelled rule sets has backtracking enabled and no host/method/scheme restriction (C02-F1/C03/C14 cover "
                    "those); the method of the request is varied and must not matter",
                    "the request path contains no '?' and no '#' (the query is a separate input)",
                    "an X-Forwarded-Uri value is an origin-form target whose path starts with exactly one '/' (no scheme/authority form "
                    "such as //host/path, no '#'); an empty forwarded path falls back to the proxy's own path (extract_url.go "
                    "len(rawPath) == 0) and is outside the model; the xfu theorems only require has_prefix \"/\" p and therefore also "
                    "speak about //-prefixed values, for which the model is not compared with the code",
                    "rules are built through the rule factory with the setting values off / on / no_decode / unset; the oneof validation of "
                    "allow_encoded_slashes in the rule-set decoder is not exercised (rule_impl.go's switch is non-exhaustive: any other value "
                    "would behave like no_decode)",
                    "status codes of the decision/proxy services and the wire format towards the upstream are not observed (the "
                    "executor's error kind and Backend.URL().RequestURI() are); C12/C13/C15 own those layers"],
}
