"""C08 check configuration (see lib/runner.py for the meaning of the keys)."""

import os

# which repairs the checked tree contains: "pinned" (before a779db8), "fixed_F2" (a779db8 = fixes/C08-F2.diff applied),
# "before_F5" (a779db8, 72ba5d4, 41fd1db), "repaired" (additionally 6d0a3af; the tree as it is now).
FX = os.environ.get("VERIF_C08_FX", "repaired")

P = {
    "id": "C08",
    "claimed": True,
    "coq_targets": ["Properties/C08.vo", "Run/Eval_GoUrl.vo", "Run/Eval_C08.vo"],
    "theorems_module": "Properties.C08",
    "theorems": ["C08_reencoding_invariant", "C08_reencoding_invariant_parametric", "C08_F1_refuted",
                 "C08_F3_pinned_refuted", "C08_F2_pinned_refuted", "C08_reencoding_invariant_nonvacuous",
                 "C08_malformed_rejected", "C08_reenc_checked_by_evaluator", "C08_off_rejects_encoded_slash",
                 "C08_off_rejects_encoded_slash_parametric", "C08_F4_off_refuted", "C08_F2_off_pinned_refuted",
                 "C08_off_captures_decoded", "C08_capture_decoding", "C08_capture_decoding_parametric",
                 "C08_nodecode_keeps", "C08_on_decodes", "C08_nodecode_on_nonvacuous",
                 "C08_F5_nodecode_pinned_refuted", "C08_F2_nodecode_pinned_refuted", "C08_reencoding_invariant_envoy",
                 "C08_off_rejects_encoded_slash_envoy", "C08_F4_envoy_upstream_refuted", "C08_accepted_request",
                 "C08_accepted_request_envoy", "C08_accepted_request_xfu", "C08_precondition_answer",
                 "C08_precondition_answer_envoy", "C08_reencoding_invariant_xfu", "C08_off_rejects_encoded_slash_xfu",
                 "C08_F6_refuted"],
    "streams": [{
        "name": "requests", "pkg": "./internal/rules", "test": "TestVerifC08",
        "overlay": {"internal/rules/zz_verif_c08_test.go": "c08/c08_test.go"},
        "eval_module": "Run.Eval_C08", "check_term": "check " + FX,
        "n_quick": 800, "n_thorough": 30000, "shard": 150,
        "findings": {1: "C08-F1", 4: "C08-F4"},
    }, {
        "name": "envoy", "pkg": "./internal/rules", "test": "TestVerifC08Envoy",
        "overlay": {"internal/rules/zz_verif_c08_test.go": "c08/c08_test.go"},
        "eval_module": "Run.Eval_C08", "check_term": "check_envoy " + FX,
        "n_quick": 400, "n_thorough": 15000, "shard": 150,
        "findings": {1: "C08-F1", 4: "C08-F4"},
    }, {
        "name": "xfu", "pkg": "./internal/rules", "test": "TestVerifC08Xfu",
        "overlay": {"internal/rules/zz_verif_c08_test.go": "c08/c08_test.go"},
        "eval_module": "Run.Eval_C08", "check_term": "check_xfu " + FX,
        "n_quick": 400, "n_thorough": 15000, "shard": 150,
        "findings": {1: "C08-F1", 4: "C08-F4", 6: "C08-F6"},
    }, {
        "name": "units", "pkg": "./internal/rules", "test": "TestVerifC08Units",
        "overlay": {"internal/rules/zz_verif_c08_test.go": "c08/c08_test.go"},
        "eval_module": "Run.Eval_C08", "check_term": "ucheck " + FX,
        "n_quick": 1500, "n_thorough": 30000,
        "findings": {},
    }, {
        "name": "gourl", "pkg": "./internal/rules/config", "test": "TestVerifGoUrl",
        "overlay": {"internal/rules/config/zz_verif_gourl_test.go": "gourl/gourl_test.go"},
        "eval_module": "Run.Eval_GoUrl", "check_term": "check",
        "n_quick": 2500, "n_thorough": 40000, "findings": {},
    }],
    "rule": "envoy: the same generator and corpus, both spellings handed to grpcv3.NewRequestContext + the real executor.  requests: a base path of 1-4 segments (words, values with escapes of unreserved/reserved octets, %2F/%2f, "
            "place-holder text, bytes net/url rejects, malformed escapes), 1-4 rules derived from it (literal / :wildcard / "
            "*catch-all per position, path_params on the decoded or encoded value, all three allow_encoded_slashes settings, "
            "forward_to with/without rewrite), default rule in 40%, and an equivalent re-encoding of the path (unreserved "
            "octets encoded in either hex case, escapes of unreserved octets decoded, hex case of other escapes swapped; on the "
            "whole path or inside one segment); both spellings are sent byte for byte over TCP to a real net/http server whose "
            "handler runs the real requestcontext + repository + rule executor.  "
            "Non-trivial = the request reaches heimdall, a rule set is loaded, and the two spellings differ or the path has an "
            "encoded slash; distinct by hash of the input.  units: rule_impl.go unescape on concatenations of escapes, "
            "place-holder fragments and malformed escapes.  gourl: net/url (unescape/escape/setPath/EscapedPath/RequestURI/"
            "ParseQuery/Encode) and heimdall's URL rewriter on random and edge byte strings.",
    "anchors": ["internal/rules/rule_impl.go", "internal/rules/route_matcher.go", "internal/rules/repository_impl.go",
                "internal/rules/config/encoded_slash_handling.go", "internal/rules/config/backend.go",
                "internal/rules/config/url_rewriter.go", "internal/handler/requestcontext/extract_url.go"],
    "trusted": ["the radix tree is abstracted to a segment-wise search (static > wildcard > catch-all, backtracking on, routes "
                "of a node in insertion order); its faithful model and findings are C02/C03's; the abstraction is compared with "
                "the real tree on every case of the requests stream",
                "net/url and strings functions are mirrored in Base/GoUrl.v and compared with the Go standard library on "
                "every run (stream gourl)",
                "path_params matchers are `exact` only (glob/regex engines are C03's oracles)",
                "the pipeline behind Execute accepts (stub authenticator); Backend.CreateURL/URLRewriter are C15's model"],
    "level_text": "Proof (kernel-checked, no axioms) over a Gallina model of net/http target parsing, extractURL, FindRule's "
                  "choice of the raw path, the route lookup (segment-wise), pathParamMatcher and ruleImpl.Execute: for ALL "
                  "rule sets, default-rule settings, request paths and ALL equivalent re-encodings, the answer kind, the rule "
                  "and the captured values are unchanged outside the guard of finding C08-F1; a path with %2F/%2f is "
                  "never accepted by an `off` rule or the default rule outside C08-F4; captured values are the decoded pieces of the path "
                  "(`no_decode`: all but the encoded slash; the piece-by-piece decoding is proved correct without a guard, the earlier place-holder trick outside C08-F2/F5) and the upstream raw path is kept / dropped, outside C08-F4.  Each guard has a `_refuted` witness.  The model is tied "
                  "to the code by three differential streams per run (~1000 request pairs through the real net/http server/"
                  "repository/executor, ~500 through the real Envoy request context, ~1500 unescape units, ~2500 net/url cases; "
                  "30000/15000/30000/40000 in the thorough tier).",
    "level_note": "Trusted: Coq kernel/vm_compute; the correspondence harness (generator, stub authenticator, Gallina rendering); "
                  "the radix tree abstracted to a segment-wise search (C02/C03 own the tree), generator restricted to inputs "
                  "exact path_params only.  Open findings C08-F1/F4 are guarded, observed on every run from the driver's corpus "
                  "and documented by `_refuted` theorems; C08-F2, C08-F3 and C08-F5 were repaired by fix: commits a779db8, 72ba5d4 and 6d0a3af (theorems are stated "
                  "for the repaired tree, the earlier behaviour is kept as `_pinned_refuted`); the model is parametric in the repairs.",
    "assumptions": ["requests reach heimdall through net/http (HTTP/1.1 origin-form target) or through the Envoy ext_authz request "
                    "context (path attribute without query); X-Forwarded-Uri delivery is not driven",
                    "every rule of the modelled rule sets has backtracking enabled (C02-F1/C14 cover the flag)",
                    "the request path contains no '?' (the query is a separate input)"],
}
