"""C08 check configuration (see lib/runner.py for the meaning of the keys)."""

P = {
    "id": "C08",
    "coq_targets": ["Properties/C08.vo", "Run/Eval_GoUrl.vo"],
    "theorems_module": "Properties.C08",
    "theorems": [],
    "streams": [{
        "name": "gourl", "pkg": "./internal/rules/config", "test": "TestVerifGoUrl",
        "overlay": {"internal/rules/config/zz_verif_gourl_test.go": "gourl/gourl_test.go"},
        "eval_module": "Run.Eval_GoUrl", "check_term": "check",
        "n_quick": 3000, "n_thorough": 40000, "findings": {},
    }],
    "rule": "tbd",
    "anchors": [],
    "trusted": [],
    "level_text": "tbd",
    "level_note": "tbd",
    "assumptions": [],
}
