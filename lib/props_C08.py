"""C08 check configuration (see lib/runner.py for the meaning of the keys)."""

P = {
    "id": "C08",
    "claimed": False,  # flip to True once bin/check is green AND Properties/C08.v has real theorems
    "coq_targets": ["Properties/C08.vo", "Run/Eval_GoUrl.vo", "Run/Eval_C08.vo"],
    "theorems_module": "Properties.C08",
    "theorems": [],
    "streams": [{
        "name": "requests", "pkg": "./internal/rules", "test": "TestVerifC08",
        "overlay": {"internal/rules/zz_verif_c08_test.go": "c08/c08_test.go"},
        "eval_module": "Run.Eval_C08", "check_term": "check pinned",
        "n_quick": 1200, "n_thorough": 30000, "shard": 150,
        "findings": {1: "C08-F1", 2: "C08-F2", 3: "C08-F3", 4: "C08-F4", 5: "C08-F5"},
    }, {
        "name": "units", "pkg": "./internal/rules", "test": "TestVerifC08Units",
        "overlay": {"internal/rules/zz_verif_c08_test.go": "c08/c08_test.go"},
        "eval_module": "Run.Eval_C08", "check_term": "ucheck pinned",
        "n_quick": 1500, "n_thorough": 30000,
        "findings": {2: "C08-F2", 5: "C08-F5"},
    }, {
        "name": "gourl", "pkg": "./internal/rules/config", "test": "TestVerifGoUrl",
        "overlay": {"internal/rules/config/zz_verif_gourl_test.go": "gourl/gourl_test.go"},
        "eval_module": "Run.Eval_GoUrl", "check_term": "check",
        "n_quick": 3000, "n_thorough": 40000, "findings": {},
    }],
    "rule": "tbd",
    "anchors": [],
    "trusted": [],
    "level_text": "tbd",
    "level_note": "tbd",
    "assumptions": [],
}
