"""C19 check configuration (see lib/runner.py for the meaning of the keys)."""

import os

# which repairs the implementation under test has: `impl_fixes` (Run/Eval_C19.v) for /repo; C19_FIXES=all_fixes to run the
# check against a worktree with every fixes/C19-F*.diff applied
_FX = os.environ.get("C19_FIXES", "impl_fixes")
_ENV = {}

# goroutine entry points without recover (every `go` statement outside tests), as read on 2026-10-01.  The list is
# re-extracted from the tree on every run and written into the evidence; drift is reported there, never as a violation.
# Besides the `go` statements: the Kubernetes provider's informer callbacks (addRuleSet / updateRuleSet / deleteRuleSet and
# the filter with its obj.(*v1alpha4.RuleSet) assertions, provider.go) run on client-go's informer goroutines, which do not
# recover either (DeletedFinalStateUnknown in filter: C18, bG2-C18; updateStatus: C19-F12/F13, stream "k8s").
_GO_STATEMENTS = [
    "internal/cache/memory/cache.go: go c.c.Start()",
    "internal/handler/envoyextauth/grpcv3/server_adapter.go: go func() {",
    "internal/handler/fxlcm/lifecycle_manager.go: go func() {",
    "internal/rules/provider/cloudblob/provider.go: go p.s.Start()",
    "internal/rules/provider/filesystem/provider.go: go p.watchFiles()",
    "internal/rules/provider/kubernetes/provider.go: go func() {",
    "internal/rules/provider/kubernetes/provider.go: go func() {",
    "internal/watcher/watcher_impl.go: go listener.OnChanged(w.l.Level(zerolog.InfoLevel))",
    "internal/watcher/watcher_impl.go: go w.startWatching()",
]


def _goroutine_inventory():
    import re
    import vf
    found = []
    for top in ("internal", "cmd"):
        for root, _, names in os.walk(os.path.join(vf.REPO, top)):
            for n in sorted(names):
                if not n.endswith(".go") or n.endswith("_test.go"):
                    continue
                path = os.path.join(root, n)
                rel = os.path.relpath(path, vf.REPO)
                if rel.startswith("internal/zzverif"):
                    continue
                with open(path, errors="replace") as f:
                    for line in f:
                        t = line.strip()
                        if re.match(r"go\s+(func\b|[A-Za-z_][\w.]*\()", t):
                            found.append("%s: %s" % (rel, t))
    found.sort()
    rec = sorted(_GO_STATEMENTS)
    return {"goroutine_entry_points": found,
            "goroutine_entry_points_drift": {"new": [x for x in found if x not in rec], "gone": [x for x in rec if x not in found]}}


_GEN = {"internal/zzverif/c19gen/gen.go": "c19/gen/gen.go", "internal/zzverif/c19gen/reload.go": "c19/gen/reload.go",
        "internal/zzverif/c19gen/bounds.go": "c19/gen/bounds.go"}

# Bounds.  Every driver has its own watchdog (harness/c19/gen/bounds.go: quick 45-100 s: k8s 45, signer / tls / httpsig / watchloop 60, misc / rules / fs 100; thorough x10) that ends the process
# with "C19 DRIVER TIMEOUT: stream ..." - reported by the runner as "stream ...: driver failed"; child processes are limited to
# 40-45 s.  "timeout" below is the runner's cap for BUILD + run of one stream (also handed to the driver as -test.timeout):
# generous enough for a cold Go build cache, far below the runner's default of 1800 s.
import sys
_TIMEOUT = 1800 if "thorough" in sys.argv else 400


def _ov(extra):
    d = dict(_GEN)
    d.update(extra)
    return d


_KF = {1: "C19-F1", 2: "C19-F2", 3: "C19-F3", 4: "C19-F4", 5: "C19-F5", 6: "C19-F6", 7: "C19-F7", 8: "C19-F8", 9: "C19-F9", 10: "C19-F10", 11: "C19-F11", 12: "C19-F12", 13: "C19-F13"}
_KS = _ov({"internal/zzverif/c19gen/ks_test.go": "c19/gen/ks_test.go", "internal/zzverif/c19gen/req_test.go": "c19/gen/req_test.go",
           "internal/zzverif/c19gen/remote_test.go": "c19/gen/remote_test.go",
           "internal/zzverif/c19gen/watch_test.go": "c19/gen/watch_test.go",
           "internal/zzverif/c19gen/scopes_test.go": "c19/gen/scopes_test.go"})

P = {
    "id": "C19",
    "claimed": True,
    "coq_targets": ["Properties/C19.vo", "Run/Eval_C19.vo"],
    "theorems_module": "Properties.C19",
    "theorems": ["C19_reload_total", "C19_partial_rejected_guarded", "C19_partial_rejected_fixed",
                 "C19_reload_run_alive", "C19_reload_run_all_rejected", "C19_reload_run_last_good",
                 "C19_reload_total_any_fixed", "C19_reload_total_guarded", "C19_reload_exit_iff_guards",
                 "C19_find_chain_terminates", "C19_pinned_exhaustion_is_divergence", "C19_empty_store_iff",
                 "C19_accepted_sizes_have_jwk", "C19_size_tables_agree",
                 "C19_truststore_total", "C19_truststore_partial_rejected_fixed", "C19_truststore_panic_iff",
                 "C19_ruleset_total", "C19_decoder_panic_is_exit", "C19_duplicate_id_rejected", "C19_ruleset_total_typed",
                 "C19_F3_only_ill_typed", "C19_decode_scopes_panic_iff", "C19_decode_scopes_total_fixed",
                 "C19_fs_total", "C19_fs_run_alive", "C19_fs_run_all_rejected", "C19_fs_run_last_good",
                 "C19_fs_empty_changes_state_iff", "C19_fs_total_guarded", "C19_fs_exit_iff_guard",
                 "C19_update_status_panic_iff", "C19_update_status_total_fixed",
                 "C19_request_panic_is_non_success", "C19_composite_extract_panic_iff",
                 # findings repaired by fix: commits: witnesses on the variant of the code before the commit
                 "C19_F1_pinned_refuted", "C19_F2_pinned_refuted", "C19_F3_pinned_refuted", "C19_F4_pinned_refuted",
                 "C19_F5_pinned_refuted", "C19_F6_pinned_refuted", "C19_F7_pinned_refuted",
                 "C19_F9_pinned_refuted", "C19_F10_pinned_refuted", "C19_F10_truststore_pinned_refuted",
                 "C19_F12_pinned_refuted", "C19_F13_pinned_refuted",
                 # the open one: witness on the variant of the code as it is now
                 "C19_F11_refuted",
                 "C19_reload_nonvacuous", "C19_ruleset_nonvacuous"],
    "streams": [{
        # key store, trust store and request streams (no in-package access needed) share one driver binary
        "name": "misc", "pkg": "./internal/zzverif/c19gen", "test": "TestVerifC19Misc", "overlay": _KS,
        "eval_module": "Run.Eval_C19", "check_term": "check_misc " + _FX,
        "n_quick": 460, "n_thorough": 9000, "findings": _KF, "env": _ENV, "timeout": _TIMEOUT,
    }, {
        "name": "signer", "pkg": "./internal/rules/mechanisms/finalizers", "test": "TestVerifC19Signer",
        "overlay": _ov({"internal/rules/mechanisms/finalizers/zz_verif_c19_test.go": "c19/signer_test.go"}),
        "eval_module": "Run.Eval_C19", "check_term": "check_reload " + _FX,
        "n_quick": 250, "n_thorough": 2500, "findings": _KF, "env": _ENV, "timeout": _TIMEOUT,
    }, {
        "name": "tls", "pkg": "./internal/x/tlsx", "test": "TestVerifC19TLS",
        "overlay": _ov({"internal/x/tlsx/zz_verif_c19_test.go": "c19/tls_test.go"}),
        "eval_module": "Run.Eval_C19", "check_term": "check_reload " + _FX,
        "n_quick": 150, "n_thorough": 1500, "findings": _KF, "env": _ENV, "timeout": _TIMEOUT,
    }, {
        "name": "httpsig", "pkg": "./internal/rules/endpoint/authstrategy", "test": "TestVerifC19HttpSig",
        "overlay": _ov({"internal/rules/endpoint/authstrategy/zz_verif_c19_test.go": "c19/httpsig_test.go"}),
        "eval_module": "Run.Eval_C19", "check_term": "check_reload " + _FX,
        "n_quick": 200, "n_thorough": 2500, "findings": _KF, "env": _ENV, "timeout": _TIMEOUT,
    }, {
        "name": "watchloop", "pkg": "./internal/watcher", "test": "TestVerifC19WatchLoop",
        "overlay": _ov({"internal/watcher/zz_verif_c19_test.go": "c19/watchloop_test.go"}),
        "eval_module": "Run.Eval_C19", "check_term": "check_wloop " + _FX,
        "n_quick": 3, "n_thorough": 3, "findings": _KF, "env": _ENV, "timeout": _TIMEOUT,
    }, {
        "name": "k8s", "pkg": "./internal/rules/provider/kubernetes", "test": "TestVerifC19K8s",
        "overlay": _ov({"internal/rules/provider/kubernetes/zz_verif_c19_test.go": "c19/k8s_test.go"}),
        "eval_module": "Run.Eval_C19", "check_term": "check_k8s " + _FX,
        "n_quick": 60, "n_thorough": 2000, "findings": _KF, "env": _ENV, "timeout": _TIMEOUT,
    }, {
        "name": "rules", "pkg": "./internal/rules", "test": "TestVerifC19Rules",
        "overlay": _ov({"internal/rules/zz_verif_c19_test.go": "c19/rules_test.go"}),
        "eval_module": "Run.Eval_C19", "check_term": "check_rules " + _FX,
        "n_quick": 200, "n_thorough": 4000, "findings": _KF, "env": _ENV, "timeout": _TIMEOUT, "shard": 320,
    }, {
        "name": "fs", "pkg": "./internal/rules/provider/filesystem", "test": "TestVerifC19FS",
        "overlay": _ov({"internal/rules/provider/filesystem/zz_verif_c19_test.go": "c19/fs_test.go"}),
        "eval_module": "Run.Eval_C19", "check_term": "check_fs " + _FX,
        "n_quick": 200, "n_thorough": 4000, "findings": _KF, "env": _ENV, "timeout": _TIMEOUT,
    }],
    "extra_coverage": _goroutine_inventory,
    "rule": "eight drivers (= runner streams: misc, signer, tls, httpsig, watchloop, k8s, rules, fs) with 14 sub-streams (misc: keystore, "
            "truststore, request, remote, watch, scopes; fs: fs, fs-loop) against the real code. keystore/truststore: compositions of 24 fixture PEM blocks (RSA 1024-4096, EC P-224..P-521, "
            "ed25519, encrypted PKCS#8, public key, certificate chains, expired / wrong-usage / cross-issued certificates, X-Key-ID headers) "
            "truncated at EVERY offset (valid stores) and mutated byte-wise (flip, deleted line, renamed block label, trailing bytes) through "
            "NewKeyStoreFromPEMBytes + Entry.JWK and NewTrustStoreFromPEMBytes; signer/tls/httpsig: the same contents written to the watched "
            "file of a freshly loaded jwtSigner / tlsx key store / http_message_signatures strategy, then the real OnChanged (panic caught, "
            "log level and private state read); rules: type-confusion of every node of three valid rule sets (12 replacement kinds incl. "
            "non-string-keyed maps, structural edits), truncation of the YAML text at every offset and random multi-mutations through "
            "ParseRules, the real processor, rule factory, REAL mechanism factory (catalogue with every mechanism type) and repository; "
            "k8s: the kubernetes provider's informer callbacks (add / update / delete / tombstone / finalize) with a scripted API client: "
            "18 status.activeIn strings x 8 PatchStatus answers, conflicts with re-reads; watch / fs-loop / watchloop: the key-store watcher and the provider's watch loop through real fsnotify (child processes): "
            "sequences bad, bad, good, ... of in-place rewrites / atomic replacements with errors fed into the fsnotify Errors channel, "
            "every step must be delivered; fs: real files (truncated at every offset, empty, missing, ENOTDIR, FIFO unlinked before EOF) through the provider's "
            "ruleSetsChanged for every fsnotify op / previous state / processor answer; request: recovery middleware + real error handler "
            "around handlers panicking with values of every kind, composite extractor over stub strategies; remote: real jwt / "
            "oauth2_introspection authenticators and remote authorizer against an httptest server answering a valid JWKS / introspection / "
            "authorization document truncated at every offset, byte-flipped or with each JSON node replaced by values of 10 other types, "
            "and a valid JWT truncated at every offset. Non-trivial = the input is not a plainly valid "
            "single-block store / reached the factory / made the provider call the processor, fail or exit; distinct by hash of the input.",
    "anchors": ["internal/rules/mechanisms/finalizers/jwt_signer.go", "internal/x/tlsx/key_store.go",
                "internal/rules/endpoint/authstrategy/http_message_signatures.go", "internal/keystore/key_store.go",
                "internal/keystore/entry.go", "internal/keystore/cert_chain.go", "internal/truststore/trust_store.go",
                "internal/x/pkix/pemx/reader.go", "internal/watcher/watcher_impl.go", "internal/rules/rule_factory_impl.go",
                "internal/rules/config/parser.go", "internal/rules/config/decoder.go",
                "internal/rules/mechanisms/authenticators/extractors/composite_extract_strategy.go",
                "internal/handler/middleware/http/recovery/handler.go", "internal/rules/provider/filesystem/provider.go",
                "internal/rules/mechanisms/oauth2/mapstructure_decoder.go", "internal/rules/provider/kubernetes/provider.go",
                "internal/rules/ruleset_processor_impl.go", "internal/rules/mechanisms/cellib/expression.go"],
    "trusted": ["byte-level parsers (encoding/pem, crypto/x509, youmark/pkcs8, yaml.v3, mapstructure, validator) are not modelled: their "
                "answer on the bytes of a case is data of the case (per PEM block: parser result; per rule set: decoded tree or error "
                "or panic); they are exercised only by the truncation / mutation sweeps",
                "the rules stream runs the REAL mechanism factory (catalogue with every mechanism type; a rule set carrying every option "
                "each WithConfig accepts, every node type-confused, every option name injected with values of every kind); in the "
                "model its answer per step is data (ok / error / panic) - only the scopes-matcher decode hook is modelled itself",
                "x509 chain verification (ValidateChain, pkix.ValidateCertificate), CEL compilation, the mechanism factory (prototype "
                "lookup + WithConfig), matcher construction and Rule.Hash are oracles (ok / error / panic per call)",
                "goroutine attribution: OnChanged runs under `go listener.OnChanged` (watcher_impl.go), the providers' watch loops and the "
                "informer callbacks without recover (read from the source; every `go` statement of the tree is listed in the evidence). "
                "The drivers call the same methods synchronously and catch the panic; per run 10 key-store rewrites (2 child processes "
                "x 5 steps) and 9 rule-file steps (1 child process) go through real fsnotify end to end, plus 3 in-process sequences "
                "through the bare watcher loop",
                "CEL compilation (cellib/expression.go) is an oracle: compiles / does not compile per `if` string",
                "httpsig.NewSigner is assumed to succeed for a supported key (observed on every run)",
                "request goroutines: the recovery middleware and the composite extractor are modelled; for remote documents and tokens "
                "the model only says that the complete valid document is accepted and a cut / certainly invalid one never ends in "
                "success (JSON / JOSE parsing is not modelled); arbitrary request lines, headers and bodies through the assembled "
                "services are left to the C01/C13 streams"],
    "level_text": "Proof (kernel-checked, no axioms) that the modelled loaders of the tree as it is now - key store creation incl. chain "
                  "building, the hot reload of jwt signer / TLS key store / http message signatures, trust store, rule factory over "
                  "the decoded YAML value tree + rule-set processor, the scopes-matcher decode hook, file-system provider event handler, "
                  "kubernetes provider updateStatus - never reach a panic (= process exit on their goroutine) and keep the previous state "
                  "whenever they reject the input, for ALL inputs of any size; for the rule factory under the hypothesis that the decoder "
                  "and the collaborators taken as data do not panic themselves. Sequences: any sequence of events leaves the key-store "
                  "listener and the fs provider loop alive; rejected contents change nothing; a good content after any events is in "
                  "effect (folds over event lists). A PARTIAL or EMPTY key / trust store is rejected and the state kept for all inputs "
                  "since 9709c71 (C19_partial_rejected_fixed, C19_truststore_partial_rejected_fixed; C19-F10 pinned). One clause FAILS "
                  "on the tree as it is: an EMPTY rule file of a loaded source unloads its rules - for every loaded source observed at "
                  "size 0 (C19-F11, open, C19_F11_refuted, C19_fs_empty_changes_state_iff). No theorem for: malformed tokens / key sets / "
                  "introspection / authorization responses (expectation table in the remote stream), request lines / headers / bodies "
                  "(C01/C13; C19_request_panic_is_non_success is a 6-row table), http_endpoint / cloud_blob loops, the gRPC recovery "
                  "interceptor. The models are tied to the Go code by ~5900 (quick) / ~60000 (thorough) systematic + generated cases "
                  "per run through the real entry points - including the three watcher loops through real fsnotify (key-store e2e and "
                  "fs-loop in child processes, the bare watcher loop in-process) - comparing the classes the statement fixes (reloaded / "
                  "rejected / exit site, state kept on rejection, error flag).",
    "level_note": "PARTIAL by design: totality of the decision logic after byte parsing + systematic fault enumeration (truncation at every "
                  "offset, type confusion and malformed strings at every node, option injection); parsers, crypto and the mechanisms' "
                  "decoders are data/oracles (see trusted) - only the scopes-matcher hook is modelled. C19-F1..F10, F12, F13 are repaired "
                  "by fix: commits (pinned behaviour: _pinned_refuted theorems; reverting a commit is a VIOLATION with the crashing "
                  "input). C19-F8 (checkKeys) is a fact about the parser = DATA of a case: its repair is witnessed by the rules stream / "
                  "corpus only, no theorem distinguishes the pinned from the current tree (C19_decoder_panic_is_exit holds for every "
                  "variant). OPEN: C19-F11 only - an empty rule file unloads the rule set. It is a conflict between the readings of two "
                  "property statements, not a defect of the code: C19's quantifier includes truncation at offset 0 and demands that the "
                  "loaded state stays, C18's statement demands that emptied sources are unloaded; the provider follows C18 by design, no "
                  "repair is proposed. 'Previous state stays' is true by construction of the model (Err => Kept st) and tested by the "
                  "streams. NOT covered here: request bytes through the assembled services (C01/C13), the gRPC ext_authz recovery "
                  "interceptor, the http_endpoint / cloud_blob provider loops and the kubernetes informer machinery itself (C18; their "
                  "rule-set bytes go through the ParseRules + processor path driven here).",
    "assumptions": ["drivers read private fields of jwtSigner / tlsx.keyStore / HTTPMessageSignatures / repository / Provider (in-package): "
                    "renamed private fields are rebound by harness/tools/rebind; a removed field breaks the driver (reported as "
                    "correspondence-broken with the stream named), not the property",
                    "fixtures (corpus/C19/fixtures.pem) contain certificates valid until 2120; an expired-on-purpose one is dated 2021"],
}
