"""C16 check configuration (see lib/runner.py for the meaning of the keys)."""

_OVERLAY = {
    "internal/rules/mechanisms/finalizers/zz_verif_c16_test.go": "c16/c16_test.go",
    "internal/rules/mechanisms/finalizers/zz_verif_c16_conc_test.go": "c16/c16_conc_test.go",
    "internal/handler/management/zz_verif_c16_export.go": "c16/management_export.go",
    "internal/keyholder/zz_verif_c16_export.go": "c16/keyholder_export.go",
}
_PKG = "./internal/rules/mechanisms/finalizers"

# Which repairs the tree under test is expected to have = which variant of the model the implementation is compared with.
# C16-F1: repaired by fix: commit d9caf75.  C16-F2: open (candidate fixes/C16-F2.diff); set _FIXED_F2 = True once it is applied.
# VERIF_C16_FIXED="10" style overrides (first digit F1, second F2) are for examining other checkouts.
import os as _os
_FIXED_F1, _FIXED_F2 = True, False
if _os.environ.get("VERIF_C16_FIXED"):
    _v = _os.environ["VERIF_C16_FIXED"] + "00"
    _FIXED_F1, _FIXED_F2 = _v[0] == "1", _v[1] == "1"
_CHECK = "check (FX %s %s)" % (str(_FIXED_F1).lower(), str(_FIXED_F2).lower())

P = {
    "id": "C16",
    "claimed": True,
    "coq_targets": ["Properties/C16.vo", "Run/Eval_C16.vo"],
    "theorems_module": "Properties.C16",
    "theorems": ["C16_system_claims_win", "C16_exp_is_ttl_later", "C16_load_never_panics",
                 "C16_header_names_active_key", "C16_token_verifies_against_published", "C16_jwks_public_only",
                 "C16_run_meets_spec", "C16_run_meets_property", "C16_run_meets_spec_pinned", "C16_F1_pinned_refuted", "C16_F2_pinned_refuted", "C16_variant_overlays_catalogue", "C16_variant_token", "C16_nonvacuous",
                 "C16_consistent_pair", "C16_sign_sees_one_load", "C16_torn_skeleton_refuted"],
    "streams": [{
        "name": "histories", "pkg": _PKG, "test": "TestVerifC16",
        "overlay": _OVERLAY, "eval_module": "Run.Eval_C16", "check_term": _CHECK,
        "n_quick": 600, "n_thorough": 12000, "findings": {1: "C16-F1", 2: "C16-F2"}, "shard": 100,
    }, {
        "name": "skeleton", "pkg": _PKG, "test": "TestVerifC16Skel",
        "overlay": _OVERLAY, "eval_module": "Run.Eval_C16", "check_term": "check_skel",
        "n_quick": 1, "n_thorough": 1, "findings": {}, "escalate": False,
    }, {
        "name": "race", "pkg": _PKG, "test": "TestVerifC16Race",
        "overlay": _OVERLAY, "eval_module": "Run.Eval_C16", "check_term": "check_race", "race": True,
        "n_quick": 1, "n_thorough": 1, "findings": {}, "escalate": False,
        "env": {"VERIF_C16_RACE_MS": 1500, "VERIF_C16_RACE_CACHE": 1 if _FIXED_F2 else 0},
    }],
    "rule": "histories: a jwt finalizer configuration (key_id absent / an existing id / unknown; signer name; ttl incl. fractional and "
            "<= 5s / invalid; claims template of 0-4 members, 55% of them naming sub/iss/iat/nbf/exp/jti, values string/int/JSON/"
            "subject id; cache on/off; custom header) x a PEM key store (1-4 private-key blocks from a pool of RSA 2048/3072/4096, "
            "P-256/384/521 and unsupported RSA-1024/P-224/Ed25519 keys; PKCS#8, PKCS#1/SEC1, encrypted PKCS#8; X-Key-ID present/absent/"
            "duplicate; certificate chains none/self-signed/CA/CA+intermediate, with or without subject key id, flawed: no "
            "digitalSignature usage, expired, not yet valid; block order keys-first/certs-first/interleaved; malformed: missing file, "
            "directory, unsupported block, bad DER, wrong password, no PEM at all, truncated) x 2-8 operations (Execute for one of 4 "
            "subjects, 40% of them on a rule-level variant made by the real WithConfig from an override with every subset of "
            "{ttl, claims}, the empty override, or — malformed share — a member WithConfig must refuse (header/signer/values) or "
            "ttl <= 1s / replace the file + OnChanged, biased to 'same key ids, other keys', rotation, dropping entries / GET JWKS) "
            "through the real newJWTFinalizer, Execute, OnChanged, key-holder registry and management service; every token decomposed "
            "and verified with go-jose against the JWKS body served right after it; non-trivial = a run that issued a token and either "
            "issued one after a successful reload or has a template naming a reserved claim; distinct by hash of the generated input. "
            "skeleton: the lock/field-access skeleton of jwt_signer.go extracted by go/ast on every run. race: 6 workers x Execute + "
            "JWKS against a reloader alternating 4 generations, under the race detector.",
    "anchors": ["internal/rules/mechanisms/finalizers/jwt_finalizer.go",
                "internal/rules/mechanisms/finalizers/jwt_signer.go",
                "internal/keystore/key_store.go", "internal/keystore/entry.go",
                "internal/keyholder/registry.go", "internal/handler/management/handler.go",
                "internal/watcher/watcher_impl.go"],
    "trusted": [
        "cryptography: keys are indices into a pool of real key pairs; 'signed by private key k verifies exactly under public key k' "
        "is assumed in the model and observed in the run (go-jose verification of every token against the served JWKS and against every pool key)",
        "PEM / PKCS#1 / PKCS#8 / X.509 parsing, FindChain and certificate validation are not modelled: the model receives a key-store "
        "file as the list of its parsed key blocks (key, X-Key-ID, generated key id, chain, validation answers) computed by the driver "
        "from how it built the file, independently of heimdall's code",
        "JSON and text/template rendering of the claims template, float64 round trip of numbers (values compared, not spellings)",
        "time: time.Now() inside Sign cannot be injected; the driver brackets each Execute with clock readings and the evaluator "
        "checks iat against the bracket at second granularity; the nanosecond part is inferred from exp",
        "Go memory model and scheduler: the interleaving theorem is about the lock/field-access skeleton extracted from the source "
        "by a go/ast walker in the driver (straight-line reading; early returns checked not to leak a lock); sync.RWMutex is assumed to "
        "exclude writers from readers/writers; races themselves are only exhibited by the -race stress stream",
        "memory cache semantics reduced to get/set by key without expiry (the driver uses ttl <= 5s, i.e. no caching, or >= 65s)",
    ],
    "level_text": "Proof (kernel-checked, no axioms). Sequential part: for the model of key-store build, Entry.JWK, jwtSigner.load/Sign "
                  "and jwtFinalizer.Execute with its token cache — system claims sub/iss/iat/nbf/exp/jti overwrite any custom claim and "
                  "all other custom claims survive; exp-iat is the ttl (exact for whole seconds); a file is loaded iff it is a usable "
                  "store, the active entry being the one with the configured key id else the first; every token names that entry's key "
                  "id and algorithm, is signed by its key and verifies against the set published by the same load; the published set is "
                  "the public halves and certificates of all entries; and for ALL histories of Execute/reload/JWKS operations every "
                  "observation meets the specification (for the pinned tree: outside the inputs of finding C16-F1, since repaired). Schedule part: for every lock skeleton "
                  "that passes wf_skeleton, every set of concurrent calls and every interleaving, all reads of one call see the "
                  "fields of one load, with key, JWK and published set of that load at each read. Tied to the code by ~600 (quick) / "
                  "12000 (thorough) generated histories through the real finalizer, signer, key store, registry and management "
                  "service per run (incl. rule-level variants created by the real WithConfig: a variant is the catalogue configuration "
                  "overlaid with exactly the given ttl/claims, exp-iat is that effective ttl), by re-extracting and checking the skeleton of jwt_signer.go on every run, and by a -race stress run.",
    "level_note": "Partial: cryptography, PEM/X.509/JSON/template handling and the clock are trusted/observed, not modelled; the "
                  "interleaving theorem is about the extracted lock skeleton under an idealised RWMutex, the Go memory model is not "
                  "modelled (the race detector stream covers actual races only as far as its schedules go). Finding C16-F1 "
                  "(cached token survived a reload that keeps kid+alg but replaces the key) was repaired by fix: commit d9caf75; the "
                  "history theorem holds unguarded for the repaired model, the pinned behaviour is documented by "
                  "C16_run_meets_spec_pinned / C16_F1_pinned_refuted, its witness is a corpus case (a regression is a VIOLATION). "
                  "The two panic sites in load (Entries()[0], Entry.JWK) are kept in the model and proved unreachable since the "
                  "fixes for C19-F1/F2 (C16_load_never_panics). "
                  "Non-whole-second ttls give exp-iat in {floor(ttl), ceil(ttl)} (claims are whole seconds) — stated in the theorem, "
                  "not counted as a finding. Concurrent reloads (watcher fires OnChanged in goroutines) may install the older of two "
                  "files last; the state stays consistent, convergence is C18's subject.",
    "assumptions": [
        "one catalogue finalizer (plus its rule-level variants) per run; Outputs() is empty and subject attributes are constant, so "
        "the token cache key varies only in (kid, alg, key, issuer, ttl, template, subject) within a run",
        "reloads are triggered by calling OnChanged directly after replacing the file (fsnotify delivery is not part of the check)",
        "the driver reads jwtSigner.Keys() slice identity to tell a successful reload from a failed one (OnChanged only logs)",
    ],
}
