"""C16 check configuration (see lib/runner.py for the meaning of the keys)."""

_OVERLAY = {
    "internal/rules/mechanisms/finalizers/zz_verif_c16_test.go": "c16/c16_test.go",
    "internal/rules/mechanisms/finalizers/zz_verif_c16_conc_test.go": "c16/c16_conc_test.go",
    "internal/rules/mechanisms/finalizers/zz_verif_c16_sched_test.go": "c16/c16_sched_test.go",
    "internal/handler/management/zz_verif_c16_export.go": "c16/management_export.go",
    "internal/keyholder/zz_verif_c16_export.go": "c16/keyholder_export.go",
}
_PKG = "./internal/rules/mechanisms/finalizers"

# Which repairs the tree under test is expected to have = which variant of the model the implementation is compared with.
# C16-F1: repaired by fix: commit d9caf75.  C16-F2: repaired by fix: commit 186d696 (= fixes/C16-F2.diff).
# VERIF_C16_FIXED="10" style overrides (first digit F1, second F2) are for examining other checkouts.
import os as _os
_FIXED_F1, _FIXED_F2 = True, True
if _os.environ.get("VERIF_C16_FIXED"):
    _v = _os.environ["VERIF_C16_FIXED"] + "00"
    _FIXED_F1, _FIXED_F2 = _v[0] == "1", _v[1] == "1"
_FX = "(FX %s %s)" % (str(_FIXED_F1).lower(), str(_FIXED_F2).lower())
_CHECK = "check " + _FX

P = {
    "id": "C16",
    "claimed": True,
    "coq_targets": ["Properties/C16.vo", "Run/Eval_C16.vo", "Run/Eval_C16Conc.vo"],
    "theorems_module": "Properties.C16",
    "theorems": ["C16_system_claims_win", "C16_exp_is_ttl_later", "C16_load_never_panics",
                 "C16_header_names_active_key", "C16_token_verifies_against_published", "C16_jwks_public_only",
                 "C16_run_meets_spec", "C16_run_meets_property", "C16_run_meets_spec_pinned", "C16_F1_pinned_refuted", "C16_F2_pinned_refuted", "C16_variant_overlays_catalogue", "C16_variant_token", "C16_nonvacuous",
                 "C16_consistent_pair", "C16_sign_sees_one_load", "C16_torn_skeleton_refuted",
                 "C16_conc_token_of_own_section", "C16_conc_hit_same_state", "C16_conc_hit_within_window", "C16_conc_invariant",
                 "C16_conc_rejected_reloads_unobservable", "C16_conc_sequential_is_exec", "C16_conc_nonvacuous",
                 "C16_conc_F1_pinned_refuted", "C16_conc_F2_pinned_refuted", "C16_conc_return_after_reload",
                 "C16_fine_is_atomic", "C16_fine_refines", "C16_fine_token_of_own_section", "C16_fine_nonvacuous",
                 "C16_fine_programs"],
    # the guard numbers of stream histories are dead on /repo (both findings are repaired: the runner only maps OPEN findings, and the
    # evaluator multiplies each guard by `negb (fx_Fi impl)`); they are only live with VERIF_C16_FIXED=0x / x0 on another checkout
    "streams": [{
        "name": "histories", "pkg": _PKG, "test": "TestVerifC16",
        "overlay": _OVERLAY, "eval_module": "Run.Eval_C16", "check_term": _CHECK,
        "n_quick": 600, "n_thorough": 12000, "findings": {1: "C16-F1", 2: "C16-F2"}, "shard": 100,
    }, {
        "name": "skeleton", "pkg": _PKG, "test": "TestVerifC16Skel",
        "overlay": _OVERLAY, "eval_module": "Run.Eval_C16", "check_term": "check_skel",
        "n_quick": 1, "n_thorough": 1, "findings": {}, "escalate": False,
    }, {
        "name": "race", "pkg": _PKG, "test": "TestVerifC16Race",
        "overlay": _OVERLAY, "eval_module": "Run.Eval_C16", "check_term": "check_race", "race": True,
        "n_quick": 1, "n_thorough": 1, "findings": {}, "escalate": False,
        "env": {"VERIF_C16_RACE_MS": 1500, "VERIF_C16_RACE_CACHE": 1 if _FIXED_F2 else 0},
    }, {
        "name": "exec-skeleton", "pkg": _PKG, "test": "TestVerifC16ExecSkel",
        "overlay": _OVERLAY, "eval_module": "Run.Eval_C16Conc", "check_term": "check_xskel " + _FX,
        "n_quick": 1, "n_thorough": 1, "findings": {}, "escalate": False,
    }, {
        "name": "conc", "pkg": _PKG, "test": "TestVerifC16Conc",
        "overlay": _OVERLAY, "eval_module": "Run.Eval_C16Conc", "check_term": "check_conc " + _FX,
        "n_quick": 300, "n_thorough": 6000, "findings": {}, "shard": 50,
    }],
    "rule": "histories: a jwt finalizer configuration (key_id absent / an existing id / a near miss (prefix, suffix, other case) / unknown; "
            "signer name; ttl incl. fractional, around the 5s cache leeway and invalid; claims template of 0-4 members, 55% of them "
            "naming sub/iss/iat/nbf/exp/jti, values string/int/JSON/subject id/.Outputs.x/.Subject.Attributes.x; cache on/off; custom "
            "header; 35%: a twin finalizer over the same key store with another signer name executing on the same cache; 30%: another "
            "key holder registered before/after) x a PEM key store (1-4 private-key blocks from a pool of RSA 2048/3072/4096, "
            "P-256/384/521 and unsupported RSA-1024/P-224/Ed25519 keys; PKCS#8, PKCS#1/SEC1, encrypted PKCS#8; X-Key-ID present/absent/"
            "duplicate; certificate chains none/self-signed/CA/CA+intermediate, with or without subject key id, flawed on the leaf (no "
            "digitalSignature usage, expired, not yet valid) or on the issuing side (expired CA / intermediate); block order keys-first/"
            "certs-first/interleaved; malformed: missing file, directory, unsupported block, bad DER, wrong password, no PEM at all, "
            "truncated; cut exactly at an entry boundary (loads, one entry less), white space only (an empty store: refused), trailing "
            "white space / text between entries (load), text after the last entry (refused since 9709c71)) x 2-8 operations: Execute for one of 2 subjects per run drawn from 11 ids (case, outer blanks, empty, "
            "non-ASCII, quotes, tab) with varying outputs/attributes, 45% on the twin, 40% on a rule-level variant made by the real "
            "WithConfig (every subset of {ttl, claims}, empty, refused members, ttl <= 1s), 25% WITH RELOADS LANDING INSIDE Execute "
            "between its cache lookup and Sign (a hook cache performs them in Get; half of them followed by a roll-back) / replace "
            "the file + OnChanged (same kids other keys, same kid other algorithm, rotation, dropping entries, roll-back to the previous "
            "store, malformed) / GET JWKS / the cache's (virtual) clock advancing by ttl-5s-1ms, ttl-5s, ttl-1s, ttl, 2*ttl, ...; all through "
            "the real newJWTFinalizer, WithConfig, Execute, OnChanged, key-holder registry and management service; every token decomposed "
            "and verified with go-jose against the JWKS body served right after it; non-trivial = a run that issued a token and either "
            "issued one after a successful reload or has a template naming a reserved claim; distinct by hash of the generated input. "
            "skeleton: lock/field-access skeleton of jwt_signer.go (plus unlocked `.signer.<field>` accesses anywhere in the package and "
            "escaping pointers) extracted by go/ast on every run. race: 6 workers (half on a shared real memory cache with 3 subjects) x "
            "Execute + JWKS, one goroutine calling Certificates()/Hash(), against a reloader cycling through 4 generations, under -race. "
            "exec-skeleton: one event list per path through jwtFinalizer.Execute (signer calls, cch.Get/Set with the provenance of their "
            "key, AddHeaderForUpstream, returns; other finalizer methods inlined) extracted by go/ast from jwt_finalizer.go on every run, "
            "with the lock skeleton. conc: 7 corpus schedules + generated ones forced onto the real finalizer — 2-4 Execute calls (mostly "
            "the same request, 15% rule-level variants) of 5 steps each (Hash section, cache lookup, Sign section, cache store, return; one "
            "goroutine per call, parked by a gating cache double at entry and exit of Get and Set) interleaved with 1-3 reloads (new "
            "store / roll-back to an earlier one / refused file), 0-2 JWKS requests, 25% a cache-clock advance around ttl-5s; 55% of the "
            "shape 'call A parked after k steps, reload, call B runs through, roll-back, A resumes'; non-trivial = at least two tokens, "
            "overlapping calls and an accepted reload inside a call.",
    "anchors": ["internal/rules/mechanisms/finalizers/jwt_finalizer.go",
                "internal/rules/mechanisms/finalizers/jwt_signer.go",
                "internal/keystore/key_store.go", "internal/keystore/entry.go",
                "internal/keyholder/registry.go", "internal/handler/management/handler.go",
                "internal/watcher/watcher_impl.go"],
    "trusted": [
        "cryptography: keys are indices into a pool of real key pairs; 'signed by private key k verifies exactly under public key k' "
        "is assumed in the model and observed in the run (go-jose verification of every token against the served JWKS and against every pool key)",
        "PEM / PKCS#1 / PKCS#8 / X.509 parsing, FindChain and certificate validation are not modelled: the model receives a key-store "
        "file as the list of its parsed key blocks (key, X-Key-ID, generated key id, chain, validation answers) computed by the driver "
        "from how it built the file, independently of heimdall's code",
        "JSON and text/template rendering of the claims template, float64 round trip of numbers (values compared, not spellings)",
        "time: time.Now() inside Sign cannot be injected; the driver brackets each Execute with clock readings and the evaluator "
        "checks iat against the bracket at second granularity; the nanosecond part is inferred from exp",
        "Go memory model and scheduler: the lock theorem (C16_consistent_pair) is about the lock/field-access skeleton extracted from "
        "the source by a go/ast walker in the driver (straight-line reading; early returns checked not to leak a lock); sync.RWMutex is "
        "assumed to exclude writers from readers/writers; races themselves are only exhibited by the -race stress stream",
        "the programs of the machines: the C16_conc_* theorems take Hash(), signWithHash(), Keys() and the swap in load as atomic "
        "steps; C16_fine_is_atomic justifies that for the machine one level down (RLock/RUnlock/Lock/Unlock and each access to "
        "jwk/key/pubKeys as steps, a blocking RWMutex, reloads and JWKS requests as threads) FOR ALL section programs P with "
        "progs_ok P; P is read off the lock skeleton extracted from jwt_signer.go on every run (`programs`: the accesses, in order, "
        "of the two signer methods Execute calls, of the reader of pubKeys and of the writer, each required to be ONE section "
        "with nothing outside it) and progs_ok is evaluated on it (stream exec-skeleton). What stays hand-written is the OUTER "
        "program of a call — Hash section, Get, Sign section + signing on the copies, Set, header/return — and of load (parse and "
        "validate outside the lock, then one write section); it is tied to jwt_finalizer.go by exec_shape on the extracted event "
        "skeleton (exactly one Hash-like call, Get with its key, one Sign-like call, Set with the key derived from it, header; by "
        "role, not by name). Names `signer`, `cache.Ctx`, `Get`, `Set`, `AddHeaderForUpstream`, `jwtFinalizer`, `jwtSigner`, `mut`, "
        "`jwk`/`key`/`pubKeys` are wired into the extractors; a Go `if` containing a return forks a path of Execute, everything else "
        "and every inlined callee is read straight-line; sync.RWMutex is modelled as: RLock granted iff no writer holds it, Lock iff "
        "nobody holds it (no fairness, no writer preference — safety only); steps are sequentially consistent",
        "the conc stream can park a call only at the cache operations (after its Hash section, after the lookup, after its Sign "
        "section, after the store); there is no yield point inside the signer or between Sign and the computation of the Set key — "
        "changes there are caught by the structural checks, not by forced schedules",
        "the cache of the histories is the driver's stub (get/set with expiry on a virtual clock, reloads triggered inside Get); the "
        "real memory cache is used in the race stream only; what is checked is which key and ttl the finalizer hands to the cache",
        "in the histories stream reloads landing inside Execute are placed between cache lookup and Sign only; arbitrary "
        "interleavings of several Execute calls with reloads are the conc stream's and the C16_conc_* theorems' subject; the twin "
        "finalizer (a second signer over the same file) is not part of the concurrent machine",
    ],
    "level_text": "Proof (kernel-checked, no axioms) ABOUT GALLINA MODELS — PROVED: the sequential histories model, the atomic-section "
                  "machine for N Executes x M reloads, and the lock-operation machine for all section programs with progs_ok; CHECKED on "
                  "every run by differential execution (model = real finalizer on generated histories and on forced schedules) and by "
                  "re-extracting the lock skeleton and Execute's event skeleton; ASSUMED: cryptography, PEM/X.509, JSON/template "
                  "rendering, the clock, RWMutex semantics, sequentially consistent memory, and the outer program of Execute as far as "
                  "exec_shape does not pin it down (see the note). In detail: for the model of key-store build, Entry.JWK, jwtSigner.load/Sign/Hash and "
                  "jwtFinalizer.WithConfig/Execute — Execute as it is: cache-key section, cache lookup, any key-store reloads, Sign section, "
                  "cache store — and for ALL histories (any configuration incl. a twin finalizer with another signer name on the same cache "
                  "and other key holders, any initial file, any list of Execute-on-prototype/twin/rule-level-variant with any reloads "
                  "inside, reloads, JWKS requests, cache time passing): every observation meets the full specification of the finalizer "
                  "(C16_run_meets_spec) and hence what the property statement fixes (C16_run_meets_property = the predicate the check "
                  "evaluates on the implementation): every token handed out, fresh or reused, verifies against the key set served at that "
                  "moment (for an Execute overlapped by reloads: at its beginning or end), names the active key's id and algorithm, is "
                  "signed by it, has sub/iss/iat/nbf/exp/jti of the signer's making (custom claims cannot override them; exp-iat = the "
                  "effective ttl, exact for whole seconds), a reused token is not older than its ttl, and every JWKS answer is free of "
                  "private material and contains the current public keys. Plus: system claims win for any custom claims; variants overlay "
                  "the catalogue configuration; load never panics; for every lock skeleton passing wf_skeleton, every set of calls and "
                  "every interleaving, one call's reads see one load. CONCURRENT EXECUTES (C16_conc_*, machine at critical-section "
                  "granularity built from the same load/sign/key_of/cache functions; the sequential exec is its one-call case, "
                  "C16_conc_sequential_is_exec): for ANY number of Execute calls interleaved in ANY order with any reloads (accepted or "
                  "rejected), JWKS reads and cache time — every returned token, fresh or reused, is what Sign makes for that very "
                  "request (at some instant, with some jti: for a reused token those of the call that made it) from the signer fields of a "
                  "moment that is one of the call's own critical sections (its Hash section or its Sign section), hence signed with the key active at a moment between the call's start and end, "
                  "naming its kid/alg, verifying against the key set published then and at every later moment up to the next successful "
                  "reload (C16_conc_token_of_own_section, by an invariant 'cache ⊆ log of tokens made, each filed under the key of the "
                  "state and call it was made under', C16_conc_invariant); a cache hit returns a token made under a state with the same "
                  "kid, algorithm and key as the one the call's Hash section read, for the same issuer/ttl/template/request, filed less "
                  "than ttl-5s of cache time before (C16_conc_hit_same_state, C16_conc_hit_within_window); rejected reloads leave the "
                  "whole configuration unchanged (C16_conc_rejected_reloads_unobservable). DOWN TO LOCK OPERATIONS (C16_fine_*): in the "
                  "machine where RLock/RUnlock/Lock/Unlock and every single access to jwk, key, pubKeys are steps, the RWMutex blocks, "
                  "and reloads (parse; Lock; assignments; Unlock) and JWKS requests are threads, for ALL programs of the critical "
                  "sections that pass progs_ok (which fields each section reads/assigns, in which order — read off the extracted lock "
                  "skeleton on every run), every schedule is — by an abstraction function, step for step, with the invariant 'a writer "
                  "excludes readers and writers; a reader's copies are the current fields; every field is the new one or still to be "
                  "assigned' — a schedule of the machine with atomic sections (C16_fine_is_atomic, C16_fine_refines), so for all "
                  "interleavings at that level a returned token belongs to the moment the call itself releases the read lock of its "
                  "Hash or Sign section, and the fields then are those of ONE loaded file (C16_fine_token_of_own_section). Tied to the code by ~600 (quick) / 12000 "
                  "(thorough) generated histories through the real finalizer, signer, key store, registry and management service per "
                  "run, by ~300 / 6000 schedules of 2-4 concurrent calls forced onto the real finalizer (goroutines parked at the cache "
                  "operations) and compared with the machine step for step, by re-extracting and checking the lock skeleton and "
                  "Execute's event skeleton (exec_shape) on every run, and by a -race stress run.",
    "level_note": "Partial: cryptography, PEM/X.509/JSON/template handling and the clock are trusted/observed, not modelled (the issue "
                  "time is inferred from the token and only bracketed by the driver's clock at second granularity, so `times_exact` "
                  "constrains exp relative to iat, not iat itself); the interleaving theorem is about the extracted lock skeleton under an "
                  "idealised RWMutex (field and type names are wired into the extractor; a refactoring to another synchronisation "
                  "primitive needs the extractor adapted), the Go memory model is not modelled (sequentially consistent steps); the "
                  "outer program of Execute in the concurrent machines (Hash section, Get, Sign section, Set, return) is hand-written and tied "
                  "to the source by exec_shape on the extracted event skeleton; the programs of the sections themselves are read off the "
                  "extracted lock skeleton (programs / progs_ok); "
                  "'verifies against the published set at the moment of return' holds only if no reload succeeded since the "
                  "call's own section (C16_conc_return_after_reload is the counter-example: nothing a lock in the signer could prevent); "
                  "the conc stream's property predicate (calls_prop) checks verification at the call's own step, the "
                  "system claims and that some moment of the call's span names the active entry, but not the age of a reused token, so "
                  "C16_conc_hit_within_window is tied to the code through the correspondence with the machine only (the histories "
                  "stream's token_prop does check the age); the reuse window starts at the cache store, time between a call's Sign section and its store is not counted by the "
                  "code; the twin finalizer is not in the concurrent machine; forced schedules can only park a call at its cache "
                  "operations. "
                  "Findings C16-F1 (cached token survived a same-kid key change; fix d9caf75) and C16-F2 (token signed after a reload "
                  "filed under the previous key's cache key; fix 186d696) are repaired; the pinned behaviours are documented by "
                  "C16_run_meets_spec_pinned (guards over-approximate the findings' inputs) and C16_F1/F2_pinned_refuted, their witnesses "
                  "are corpus cases (a regression is a VIOLATION). The property predicate deliberately does not fix which files/overrides "
                  "are accepted, the order/`use`/x5c of JWKS entries, typ, custom claims, or the upstream header: deviations there end as "
                  "correspondence differences (VIOLATION ... no-failing-input-found), not as property failures. The two panic sites in "
                  "load are proved unreachable since the fixes for C19-F1/F2. Non-whole-second ttls give exp-iat in {floor, ceil}. "
                  "Concurrent reloads may install the older of two files last (watcher starts OnChanged in goroutines); the state stays "
                  "consistent, convergence is C18's subject. watcher_impl.go is off the check's path (OnChanged is called directly).",
    "assumptions": [
        "one catalogue finalizer, optionally its twin, and their rule-level variants per run; requests vary in subject id, one output "
        "and one attribute, so the token cache key varies in (kid, alg, key, issuer, ttl, template, subject id, output, attribute)",
        "reloads are triggered by calling OnChanged directly after replacing the file (fsnotify delivery is not part of the check)",
        "the driver reads jwtSigner.Keys() slice identity to tell a successful reload from a failed one (OnChanged only logs)",
        "Execute is always called with a non-nil subject (the `sub == nil` error path of Execute is not modelled and not exercised)",
    ],
}
