"""compile every driver once so that quick checks start from a warm Go build cache"""
import os, sys
sys.path.insert(0, os.path.dirname(os.path.abspath(__file__)))
import props, vf
from concurrent.futures import ThreadPoolExecutor

def warm(job):
    pid, st = job
    if not st.get("overlay") or not st.get("pkg"):
        return   # a stream that has no driver of its own (evaluated Go-side / shares another stream's driver)
    try:
        _warm(pid, st)
    except Exception as e:   # warming is an optimisation: never let it fail the setup
        print("warm", pid, st.get("name"), "skipped:", e, flush=True)

def _warm(pid, st):
    ov = vf.overlay_for(pid, st["overlay"])
    cmd = ["go", "test", "-tags", "verif", "-overlay", ov, "-vet=off", "-c", "-o", os.path.join(vf.OUT, pid, "driver_%s.test" % st["name"])]
    if st.get("race"):
        cmd.append("-race")
    cmd.append(st["pkg"])
    rc, o = vf.sh(cmd, cwd=vf.REPO, env=vf.GOENV, timeout=1800)
    print("warm", pid, st["name"], "rc=%s" % rc, flush=True)

jobs = [(pid, st) for pid, P in props.PROPS.items() for st in P.get("streams", []) + P.get("extra_drivers", [])]
with ThreadPoolExecutor(4) as ex:
    list(ex.map(warm, jobs))
