"""C04 check configuration (see lib/runner.py for the meaning of the keys)."""

P = {
    "id": "C04",
    "coq_targets": ["Properties/C04.vo", "Run/Eval_C04.vo"],
    "theorems_module": "Properties.C04",
    "theorems": ["C04_execute_iff_spec", "C04_tried_in_configured_order", "C04_first_success_wins",
                 "C04_later_only_if_all_earlier_nocreds_or_optin",
                 "C04_rejected_without_optin_fails_even_if_later_accepts", "C04_rejected_without_optin_exact",
                 "C04_no_credentials_iff_none_presented",
                 "C04_typed_later_only_if", "C04_typed_first_success", "C04_typed_rejected_blocks", "C04_named_rejections_block",
                 "C04_flag_history_independent", "C04_step_flag_alone",
                 "C04_checked_predicate_implies_spec", "C04_model_passes_checked_predicate"],
    "streams": [{
        "name": "chains", "pkg": "./internal/rules", "test": "TestVerifC04",
        "overlay": {"internal/rules/zz_verif_c04_test.go": "c04/c04_test.go",
                    "internal/handler/decision/zz_verif_export.go": "export/decision_export.go",
                    "internal/handler/envoyextauth/grpcv3/zz_verif_export.go": "export/grpcv3_export.go"},
        "eval_module": "Run.Eval_C04", "check_term": "check",
        "n_quick": 4000, "n_thorough": 60000, "findings": {},
    }],
    "rule": "case = one set of prototypes + 1-4 rules created on it by ONE rule factory in a random order (a step of a further rule "
            "mostly names a prototype an earlier step names and differs in the rule-level settings, often only in "
            "allow_fallback_on_error true/false/absent; a rule may name a prototype twice) + 1-4 requests, each handled by one of the "
            "rules, all with one real in-memory cache. Rule: chain (1-8; histogram rule0_len = length of rule 0, bucket '6+' = six or more) of real authenticators, prototypes created by the real "
            "mechanism factory (anonymous, unauthorized, basic_auth incl. a password with ':', jwt, "
            "oauth2_introspection, generic; endpoint answers / closes the connection / 5xx / not-JSON / no answer within the time limit / "
            "'switchable' = behaviour given per request; jwks_endpoint|introspection_endpoint or metadata_endpoint (fixed URL in each of "
            "those states, document without endpoint, URL templated with the token issuer); default or custom token sources; audience+scope "
            "assertions in the prototype or as rule-level override; cache_ttl 0s/5m in the prototype or as rule-level override; "
            "allow_fallback_on_error in the prototype x rule-level override true/false/none, with and without other rule-level settings), "
            "assembled by the real rule factory without a default rule, with a default rule that must stay out, or AS the default rule. "
            "Request: Authorization absent / other scheme (incl. lower-case, no space) / Basic {bad base64, 1 or 3 parts, right or wrong "
            "pair} / Bearer token / 'Bearer' + blanks / two field lines in both orders; X-Token header; token in query (incl. blank) / body "
            "(form, JSON, one-element array, twice, number); session cookie / header; tokens = not-a-JWS variants, JWS with array payload, "
            "unknown key, bad signature (4 ways), every claim assertion failing by a wrong / absent / empty / ill-typed value (iss, exp, nbf, "
            "iat, aud, scope|scp, sub), optional claims absent, no subject, valid - crossed with the same variety of "
            "introspection answer; a later request repeats the previous one (tokens, sessions) with the switchable endpoints in another "
            "state, or is fresh. Entry: compositeSubjectCreator.Execute directly | complete decision service | complete Envoy ext_authz "
            "service (real rule executor, ruleImpl.Execute, header finalizer forwarding Subject.ID). Observation per request: per consulted "
            "authenticator its mechanism id (position), IsFallbackOnErrorAllowed() of the real object, whether its cache lookup hit, outcome "
            "class (accepted+subject | errors.Is ErrArgument | other error; the first sentinel found is recorded for the histogram only); the "
            "composite's answer; status class + forwarded subject of the service. non-trivial = chain of >= 2 and for some request the first "
            "authenticator did not accept (a continue/break decision was taken); distinct by hash of the case without token serials",
    "anchors": ["internal/rules/composite_subject_creator.go",
                "internal/rules/mechanisms/authenticators/jwt_authenticator.go",
                "internal/rules/mechanisms/authenticators/basic_auth_authenticator.go",
                "internal/rules/mechanisms/authenticators/generic_authenticator.go",
                "internal/rules/mechanisms/authenticators/oauth2_introspection_authenticator.go",
                "internal/rules/mechanisms/authenticators/anonymous_authenticator.go",
                "internal/rules/mechanisms/authenticators/unauthorized_authenticator.go",
                "internal/rules/mechanisms/authenticators/extractors/header_value_extract_strategy.go",
                "internal/rules/mechanisms/authenticators/extractors/query_parameter_extract_strategy.go",
                "internal/rules/mechanisms/authenticators/extractors/body_parameter_extract_strategy.go",
                "internal/rules/mechanisms/authenticators/extractors/cookie_value_extract_strategy.go",
                "internal/rules/mechanisms/authenticators/extractors/composite_extract_strategy.go",
                "internal/rules/rule_impl.go", "internal/rules/rule_factory_impl.go",
                "internal/handler/requestcontext/request_context.go",
                "internal/handler/envoyextauth/grpcv3/request_context.go"],
    "trusted": ["type level: requests are abstracted to credential shapes; that a concrete request has the shape the driver says "
                "(base64/JWS parsing, signature and assertion checks, the remote endpoints' answers, 'two Authorization field lines = the "
                "value joined with a comma') is by construction of the driver and checked only through the observed outcomes",
                "errors.Is over heimdall error chains is observed (driver classifies every returned error with errors.Is(ErrArgument)), not "
                "modelled structurally",
                "cache: whether a lookup hits is observed per authenticator call and handed to the model as data (when entries are stored, "
                "expire and are shared is C10/C11's subject); the model only says what a hit means for the outcome",
                "the driver wraps each real authenticator of the rule's composite in a recording delegate (the composite field of the rule "
                "object is found by its type, not by its name) and points a stub repository of the real rule executor at the rule; the time "
                "limit of outgoing calls is http.DefaultTransport.ResponseHeaderTimeout = 80 ms, set by the driver"],
    "level_text": "Proof (kernel-checked, no axioms) about a model. Chain level, chains of any length: a literal transcription of the loop of "
                  "compositeSubjectCreator.Execute equals a declarative specification (answer = first authenticator that accepts or fails "
                  "without no-credentials/opt-in; later ones consulted only if all earlier ones had no credentials or opted in; a "
                  "non-opted-in failure on presented credentials ends authentication whatever follows) and calls the authenticators as a "
                  "prefix of the configured list in order. Type level: a classification table written by reading the six authenticators and "
                  "five extractors, over a shape space of requests (shapes declared by the driver, not derived from the bytes) x six "
                  "authenticator types x endpoint behaviour (incl. time limit, metadata discovery) x assertions x token sources x cache "
                  "lookup x (prototype flag, rule-level flag): 'no credentials' is answered exactly when no credentials of the type's kind "
                  "are presented; and - over histories of rule creations from one set of prototypes, in the model of WithConfig "
                  "(append-only: a step without config shares the prototype, one with config gets a new object, nothing is modified; that "
                  "the six Go WithConfig behave so is sampled by the multi-rule cases) - the objects (type, flag) of a rule's steps are "
                  "those it gets when created alone, whatever was created before or after; the three sentences of the statement for real "
                  "chains, and explicitly for wrong password / bad signature / inactive token / failed assertion. The composite part of "
                  "the executable predicate applied to the implementation's observation (prop_chain; the agreement of the service answer "
                  "with the composite's, e2e_ok, is checked on every case but covered by no theorem) is proved to imply the specification, "
                  "and the model is proved to pass it. Tied to the code by ~4000 (quick) / 60000 (thorough) sampled cases, each one set of "
                  "prototypes with 1-4 rules and 1-4 requests, through real authenticators, real cache and local endpoints, 60% through the "
                  "complete decision / Envoy ext_authz services observing status class and forwarded subject.",
    "level_note": "Chain level: full proof over abstract outcomes. Type level: proof over a finite shape space chosen by reading the six "
                  "authenticators and five extractors, against `presented`, written by the same reader; not covered: generic "
                  "payload/forward_headers/forward_cookies, JWK certificate validation and trust store, allowed_algorithms and "
                  "validity_leeway overrides, endpoint auth/retry, http_cache of metadata endpoints (switched off in the driver), concurrent "
                  "requests, proxy mode. 'Tried in the configured order' is a statement about the loop with a call log added by hand "
                  "(`exec_log`); on the code side it is the observed positions 0,1,2,.. of the consulted mechanisms; that the rule factory "
                  "keeps the configured order, and the service answer (status class / forwarded subject), are sampled only. Two lemmas kept "
                  "in Properties/C04.v but not counted, `C04_kindless_never_no_credentials` and `C04_fallback_only_if_opted_in`, are "
                  "immediate from the model's definitions; what they are worth is the sampled agreement of those definitions with the code "
                  "(flags observed on the real objects). Correspondence compares classes only (no-credentials | other failure | accepted "
                  "subject; consulted positions; flags; answer class; service answer) - which non-argument sentinel a failure carries is "
                  "C12's subject and only recorded. The property predicate is one-directional (credentials presented and not accepted => not "
                  "a no-credentials answer; flag true => opted in); a stricter heimdall shows as a correspondence difference (reported as "
                  "`VIOLATION ... no-failing-input-found`, exit 1), not as a property failure with an input. Readings of 'usable credentials "
                  "of its kind' that follow the code and that the property text allows: for jwt a bearer token that is not a parseable JWS "
                  "(empty, opaque, alg none, unknown alg) is none, while a malformed Basic payload is 'presented' - so `[jwt, anonymous]` "
                  "answers a garbage or alg-none bearer token as anonymous; a lower-case scheme ('basic', 'bearer') is another scheme; a "
                  "body parameter present twice is absent; of several Authorization field lines the joined value counts (so the scheme of "
                  "the first line decides). Observed, not C04's: a basic_auth password containing ':' can never be presented; generic caches "
                  "any 2xx body, also one that is not JSON.",
    "assumptions": ["each case builds its own prototypes, rules (1-4, created by one rule factory) and cache; requests of a case are sent one "
                    "after the other (no concurrency)",
                    "a call that hits the 80 ms time limit although its endpoint is not a slow one (busy machine) makes the driver run the "
                    "case again (at most 3 times; counted in the histogram as rerun:unexpected-timeout)"],
}
