"""C04 check configuration (see lib/runner.py for the meaning of the keys)."""

P = {
    "id": "C04",
    "coq_targets": ["Properties/C04.vo", "Run/Eval_C04.vo"],
    "theorems_module": "Properties.C04",
    "theorems": ["C04_execute_iff_spec", "C04_tried_in_configured_order", "C04_first_success_wins",
                 "C04_later_only_if_all_earlier_nocreds_or_optin",
                 "C04_rejected_without_optin_fails_even_if_later_accepts", "C04_rejected_without_optin_exact",
                 "C04_no_credentials_iff_none_presented", "C04_kindless_never_no_credentials", "C04_fallback_only_if_opted_in",
                 "C04_typed_later_only_if", "C04_typed_first_success", "C04_typed_rejected_blocks", "C04_named_rejections_block",
                 "C04_checked_predicate_implies_spec", "C04_model_passes_checked_predicate"],
    "streams": [{
        "name": "chains", "pkg": "./internal/rules", "test": "TestVerifC04",
        "overlay": {"internal/rules/zz_verif_c04_test.go": "c04/c04_test.go",
                    "internal/handler/decision/zz_verif_export.go": "export/decision_export.go",
                    "internal/handler/envoyextauth/grpcv3/zz_verif_export.go": "export/grpcv3_export.go"},
        "eval_module": "Run.Eval_C04", "check_term": "check",
        "n_quick": 4000, "n_thorough": 60000, "findings": {},
    }],
    "rule": "chains (1-8) of real authenticators (anonymous, unauthorized, basic_auth, jwt, oauth2_introspection, generic; remote "
            "endpoint up/refusing/5xx/garbage; fallback flag from the prototype or a rule-level override) built by the real mechanism "
            "and rule factories x requests over credential shapes (Authorization absent/other scheme/Basic{bad base64, 1 or 3 parts, "
            "right/wrong pair}/Bearer token; token in query/body; session cookie/header; tokens = not-a-JWS variants or JWS with "
            "unknown key/bad signature/failed assertion/no subject/valid, crossed with the introspection answer); observation = outcome "
            "of every consulted authenticator + the composite's answer; non-trivial = chain of >= 2 whose first authenticator did not "
            "accept (a continue/break decision was taken); distinct by hash of chain + request shapes",
    "anchors": ["internal/rules/composite_subject_creator.go",
                "internal/rules/mechanisms/authenticators/jwt_authenticator.go",
                "internal/rules/mechanisms/authenticators/basic_auth_authenticator.go",
                "internal/rules/mechanisms/authenticators/generic_authenticator.go",
                "internal/rules/mechanisms/authenticators/oauth2_introspection_authenticator.go",
                "internal/rules/mechanisms/authenticators/anonymous_authenticator.go",
                "internal/rules/mechanisms/authenticators/unauthorized_authenticator.go",
                "internal/rules/mechanisms/authenticators/extractors/header_value_extract_strategy.go",
                "internal/rules/mechanisms/authenticators/extractors/query_parameter_extract_strategy.go",
                "internal/rules/mechanisms/authenticators/extractors/body_parameter_extract_strategy.go",
                "internal/rules/mechanisms/authenticators/extractors/cookie_value_extract_strategy.go",
                "internal/rules/mechanisms/authenticators/extractors/composite_extract_strategy.go"],
    "trusted": ["type level: requests are abstracted to credential shapes; that a concrete request has the shape the driver says "
                "(base64/JWS parsing, signature and assertion checks, the remote endpoints' answers) is by construction of the driver "
                "and checked only through the observed outcomes",
                "errors.Is over heimdall error chains is observed (driver classifies every returned error with errors.Is), not modelled "
                "structurally; reading shows ErrArgument is produced only by the extractors and the jwt parse failure",
                "request timeouts (ErrCommunicationTimeout) are not generated"],
    "level_text": "Proof (kernel-checked, no axioms): compositeSubjectCreator.Execute, transcribed literally (including its idx < len test, "
                  "proved vacuous), equals a declarative specification for chains of any length: the answer is that of the first "
                  "authenticator that accepts or fails without (no-credentials or opt-in), later authenticators are consulted only if all "
                  "earlier ones had no credentials or opted in, and a non-opted-in failure on presented credentials ends authentication "
                  "whatever follows. Per authenticator type a classification table over credential shapes is proved to answer "
                  "'no credentials' exactly when no credentials of the kind are present. Both levels are tied to the code by running "
                  "~4000 (quick) / 60000 (thorough) chains of real authenticators against local JWKS/introspection/identity servers.",
    "level_note": "Chain level: full proof over abstract outcomes. Type level: proof over a finite shape space chosen by reading the six "
                  "authenticators and five extractors; shapes outside it (e.g. custom source lists, metadata discovery, timeouts, caches "
                  "enabled) are not covered. Design decisions of heimdall that the classification records and the property text allows: "
                  "a bearer token that is not a parseable JWS (opaque, alg none, unknown alg) counts as 'no credentials' for jwt; a "
                  "lower-case scheme ('basic', 'bearer') counts as another scheme; a body parameter present twice counts as absent.",
    "assumptions": ["caches are off in the driver (no cache in the request context), so every authenticator call reaches its endpoint",
                    "the driver wraps each real authenticator in a recording delegate inside the real composite to see which were consulted"],
}
