"""C15 check configuration (see lib/runner.py for the meaning of the keys)."""

P = {
    "id": "C15",
    "claimed": False,
    "coq_targets": ["C15/Spec.vo", "Run/Eval_C15.vo"],
    "theorems_module": "Properties.C15",
    "theorems": [],
    "streams": [{
        "name": "proxy", "pkg": "./internal/handler/proxy", "test": "TestVerifC15",
        "overlay": {"internal/handler/proxy/zz_verif_c15_test.go": "c15/c15_test.go"},
        "eval_module": "Run.Eval_C15", "check_term": "check current",
        "n_quick": 1200, "n_thorough": 30000, "shard": 150,
        "findings": {1: "C15-F1", 2: "C15-F2", 3: "C15-F3", 4: "C15-F4", 5: "C15-F5"},
    }],
    "rule": "tbd",
    "anchors": ["internal/rules/config/backend.go", "internal/rules/config/url_rewriter.go", "internal/rules/rule_impl.go",
                "internal/handler/proxy/request_context.go", "internal/handler/proxy/service.go"],
    "trusted": [],
    "level_text": "tbd",
    "level_note": "tbd",
    "assumptions": [],
}
