"""C15 check configuration (see lib/runner.py for the meaning of the keys)."""

ASSEMBLY_OVERLAY = {
    "internal/zzverif/assembly/assembly.go": "assembly/assembly.go",
    "internal/zzverif/assembly/handlers.go": "assembly/handlers.go",
    "internal/handler/decision/zz_verif_export.go": "assembly/export/decision_export.go",
    "internal/handler/proxy/zz_verif_export.go": "assembly/export/proxy_export.go",
    "internal/handler/envoyextauth/grpcv3/zz_verif_export.go": "assembly/export/envoy_export.go",
    "internal/zzverif/assembly/listeners.go": "assembly/listeners.go",
}

def _extra_coverage():
    """per-stream case counts and one generated sample of the units and e2e streams (read from this run's observations)"""
    import json, os
    import vf
    out = {"evaluations_per_stream": {}, "more_samples": []}
    for name in ("proxy", "units", "e2e"):
        path = os.path.join(vf.OUT, "C15", "obs_%s.jsonl" % name)
        if not os.path.exists(path):
            continue
        n, sample = 0, None
        with open(path) as f:
            for line in f:
                if not line.strip():
                    continue
                n += 1
                if sample is None and name != "proxy":
                    o = json.loads(line)
                    if o.get("stream") != "corpus":
                        sample = {"stream": name, "in": o["in"], "obs": o["obs"]}
        out["evaluations_per_stream"][name] = n
        if sample:
            out["more_samples"].append(sample)
    return out


P = {
    "id": "C15",
    "extra_coverage": _extra_coverage,
    "claimed": True,
    "coq_targets": ["C15/Spec.vo", "C15/QueryLemmas.vo", "C15/Proofs.vo", "C15/MainProof.vo", "Properties/C15.vo", "Run/Eval_C15.vo"],
    "theorems_module": "Properties.C15",
    "theorems": [
        "C15_view_wellformed",
        "C15_wire_path_exact", "C15_wire_path_on", "C15_decoded_path", "C15_request_path_end_to_end",
        "C15_query_only_removed", "C15_query_only_removed_pinned", "C15_query_kept_bytes", "C15_parse_encode_roundtrip",
        "C15_headers_name_by_name", "C15_pipeline_header_wins", "C15_pipeline_header_on_the_wire", "C15_pipeline_host_wins",
        "C15_no_forwarded_passthrough", "C15_forwarded_extended_by_peer", "C15_header_names_any_casing",
        "C15_spec_holds", "C15_spec_holds_repo", "C15_sequence_spec_holds",
        "C15_F1_pinned_refuted", "C15_F4_pinned_refuted", "C15_F6_pinned_refuted", "C15_F7_pinned_refuted",
        "C15_F2_refuted", "C15_F3_refuted", "C15_F5_refuted", "C15_F9_refuted", "C15_F8_observed_refuted",
        "C15_nonvacuous", "C15_nonvacuous_trusted",
    ],
    "streams": [{
        "name": "proxy", "pkg": "./internal/handler/proxy", "test": "TestVerifC15",
        "overlay": {"internal/handler/proxy/zz_verif_c15_test.go": "c15/c15_test.go"},
        "eval_module": "Run.Eval_C15", "check_term": "check repaired2",
        "n_quick": 1200, "n_thorough": 30000, "shard": 150,
        "findings": {2: "C15-F2", 3: "C15-F3", 5: "C15-F5", 8: "C15-F8", 9: "C15-F9"},
    }, {
        "name": "units", "pkg": "./internal/rules/config", "test": "TestVerifC15Units",
        "overlay": {"internal/rules/config/zz_verif_c15_units_test.go": "c15/c15_units_test.go"},
        "eval_module": "Run.Eval_C15", "check_term": "ucheck repaired2",
        "n_quick": 1500, "n_thorough": 40000, "shard": 300,
        "findings": {},
    }, {
        "name": "e2e", "pkg": "./internal/zzverif/c15e2e", "test": "TestVerifC15E2E",
        "overlay": dict(ASSEMBLY_OVERLAY, **{"internal/zzverif/c15e2e/c15_e2e_test.go": "c15/c15_e2e_test.go"}),
        "eval_module": "Run.Eval_C15", "check_term": "check repaired2",
        "n_quick": 400, "n_thorough": 6000, "shard": 150,
        "findings": {2: "C15-F2", 3: "C15-F3", 5: "C15-F5", 8: "C15-F8", 9: "C15-F9"},
    }],
    "rule": "Stream proxy (in-package): requests written byte for byte over TCP or TLS (request target of 1-4 segments built from words, "
            "percent-escapes of reserved / unreserved / non-ASCII bytes in either hex case, reserved literals, bytes net/url re-encodes, broken "
            "escapes, bare '?'; queries with repeated, encoded, empty, unparsable parameters; header names from pools AND fresh names "
            "(Content-Type, Traceparent, Via, X-<random token>), random casing, colliding with pipeline header names; values incl. the empty "
            "string; X-Forwarded-* / Forwarded (also in two field lines) / Connection fields, CORS preflights; 11 methods (incl. lower-case `get`, PROPFIND, M-SEARCH, TRACE); bodies 0 B .. 2 MiB "
            "with Content-Length or chunked framing, 12 % of the bodies <= 4 KiB NOT arriving intact (malformed chunk-size line after 0..n good "
            "chunks, write side closed before the last chunk, fewer bytes than Content-Length; with and without the pipeline reading the body); "
            "kept-alive connections re-used) from 5 loopback source addresses against 3 "
            "trusted_proxies configurations x rule (allow_encoded_slashes off/on/no_decode, forward_to host by address or name with every "
            "combination of scheme / strip_path_prefix (hit, miss, inside an escape) / add_path_prefix / strip_query_parameters biased to "
            "present keys) x pipeline output (headers in any casing incl. empty values, Host, Cookie, forwarding names, names of client "
            "fields; cookies; body read) through the real proxy service, rule factory, ruleImpl.Execute, CreateURL/Rewrite, ReverseProxy and "
            "Transport to raw TCP upstreams (plain and TLS); corpus (every finding's witness, the audit's cases, edge targets) first.  "
            "Non-trivial = forwarded AND at least one of: an escaped path met strip/add prefix, a stripped parameter was present, a client "
            "header collided with a pipeline header, the client sent a forwarding / X-Forwarded-Method/-Uri/-Path field; distinct by hash of "
            "the input.  SESSIONS: 45 % of the generated requests come in sessions of 2-5 requests through ONE rule / Backend / URLRewriter instance, "
            "the followers mostly carrying the previous request's path in ANOTHER SPELLING (equal after percent-decoding: %2F vs /, %61 vs a, "
            "hex case, %3B vs ;), so state kept on the instance between requests shows as a mismatch of a later request.  Stream units: "
            "Backend.CreateURL on arbitrary url.URL values x rewrite configurations, likewise in sessions on one Backend instance.  Stream e2e: the real assembled "
            "proxy application (fx wiring of cmd/serve, YAML configuration and rule file with 24 generated rules /r<i>/**, real executor, "
            "repository, anonymous authenticator, header and cookie finalizers, tracing ENABLED) under 2 trusted_proxies configurations, "
            "cases sent in parallel batches of 8 sessions with a correlation field (40 % followers: same rule, previous path in another "
            "spelling, sent right after it); non-trivial = forwarded.",
    "anchors": ["internal/rules/config/backend.go", "internal/rules/config/url_rewriter.go", "internal/rules/rule_impl.go",
                "internal/handler/proxy/request_context.go", "internal/handler/proxy/service.go",
                "internal/handler/requestcontext/extract_url.go", "internal/handler/requestcontext/extract_method.go",
                "internal/handler/middleware/http/trustedproxy/handler.go"],
    "trusted": [
        "Base/GoUrl.v mirrors net/url (PathUnescape, EscapedPath, RequestURI, ParseQuery, Values.Encode); it is compared with the real "
        "library by C08's gourl stream and, end to end, by every case of this stream",
        "net/http server request parsing, httputil.ReverseProxy (hop-by-hop removal, stripping of client forwarding headers before Rewrite) "
        "and http.Transport (request line = URL.RequestURI, first User-Agent value only, Accept-Encoding: gzip added, scheme must be "
        "http/https) are MODELLED in C15/Model.v as observed, not verified",
        "oracles in the case: whether the peer is in trusted_proxies (net.ParseCIDR/IP.Equal evaluated by the driver), and what extractURL "
        "reads from a trusted X-Forwarded-Uri (EscapedPath, RawQuery as sent; for a value url.Parse rejects: the text before / after the "
        "first '?'); a path that is not a valid well-formed encoded path is finding C15-F9 (guard_F9), excluded from C15_spec_holds by its "
        "hypothesis oracle_ok",
        "the rule executor (rule lookup) is replaced by a stub that runs one real rule; the pipeline is a stub authenticator calling the real "
        "AddHeaderForUpstream / AddCookieForUpstream / Body()",
    ],
    "level_text": "Proof (kernel-checked, closed under the global context) about an executable model of the proxy path client bytes -> request view -> "
                  "ruleImpl.Execute/CreateURL/Rewrite -> ReverseProxy/rewriteRequest -> upstream bytes. Main theorem C15_spec_holds: for a tree with "
                  "the repairs that are in /repo, ALL requests (any bytes in path, query, header names/values, body; TLS or not), ALL pipeline "
                  "outputs and ALL rules / rewrite configurations on which none of the open findings shows (guards: trusted X-Forwarded-Method "
                  "differs; `on` with a path net/url would re-spell; add_path_prefix not a valid encoded path; tracing on and a pipeline trace "
                  "header; a trusted X-Forwarded-Uri that is not a valid encoded path (C15-F9, hypothesis oracle_ok)), what the model forwards satisfies spec_ok — a predicate on the OBSERVATION written from the statement only: "
                  "scheme, Host, wire path = add ++ (raw path minus strip prefix) byte for byte, kept query settings byte for byte in order, "
                  "method, body (a body that does not arrive intact is never passed on as a complete request), and per header name: pipeline values (empty ones included) replace client values in any casing, "
                  "X-Forwarded-Method/-Uri/-Path never pass, X-Forwarded-For or Forwarded is the whole received chain extended by the peer, "
                  "client fields nobody touches arrive as sent. Separately: no double encoding for every setting/configuration (also inside the "
                  "guards), removed query parameters key by key for EVERY query, ParseQuery/Encode round trip, field names in any casing, "
                  "every upstream field name by name. Four findings repaired by fix: commits (C15-F1 41fd1db, -F4 35453b2, -F6 5270ed2, -F7 "
                  "f228b67; the behaviour before each commit kept as _pinned_refuted theorems), five open findings (F2, F3, F5, F9 proved with a "
                  "witness in the model, F8 recorded from an observation of the assembled application) with guards. C15_spec_holds_repo is the "
                  "statement read for /repo as it is (guards F2, F3, F5, F8 false and oracle_ok); C15_sequence_spec_holds the same for every "
                  "request of every sequence through one rule. Measured share of cases inside a guard (quick run, proxy + e2e, about 1660 "
                  "cases): F3 ~220, F2 ~50, F5 ~45, F8 ~40, F9 ~7; about half of the `allow_encoded_slashes: on` cases fall under guard_F3 "
                  "(any escape other than %2F that is not the upper-case escape of a byte net/url escapes anyway) — for those inputs only "
                  "C15_decoded_path speaks. The model is tied to the code by ~3175 (quick) / 76000 (thorough) generated cases per run in three "
                  "streams (proxy service in-package, Backend.CreateURL, the assembled application), 45 % of them in sessions of 2-5 requests "
                  "through one rule instance; the evaluator checks spec_ok on the implementation's observation and compares a projection "
                  "(fields somebody sent, status class) for correspondence.",
    "level_note": "Trusted: Coq kernel/vm_compute; the harness (generators, stub executor/authenticator, raw TCP/TLS client and upstreams, Gallina "
                  "rendering, sha256 projection of bodies > 512 B); net/http server parsing, ReverseProxy and Transport behaviour is modelled as "
                  "observed (not verified); Base/GoUrl mirrors net/url (checked by C08's gourl stream and end to end here). DEFINITIONAL in the "
                  "model, hence assured by correspondence and by spec_ok on observations only: the body is passed through, the method is the "
                  "view's, scheme/Host/request line are assembled as Rewrite.v says. The request view (trusted X-Forwarded-Proto/-Uri/-Host; "
                  "re-encoding of invalid bytes, C08-F4) is taken as 'the original' request for scheme, host, path and query; its reading of "
                  "X-Forwarded-Uri is an oracle. For the METHOD the received request line is taken as the original (unlike scheme/host/path/"
                  "query); under the other reading C15-F2 is no finding except for the body of the received request being sent with the "
                  "forwarded method (the code's behaviour is deliberate). The quantifier is "
                  "restricted to origin-form targets (the model answers 'not forwarded' otherwise). Not generated, not modelled: CONNECT, "
                  "Upgrade/Te/Expect/trailers, absolute-form and `*` targets, pipeline headers named like framing/hop-by-hop fields, cookie "
                  "values needing sanitising, pipeline Host values that are not plain host names, HTTP/2. The OpenTelemetry transport "
                  "wrapper is not modelled (trace headers are projected out when tracing is on; C15-F8 is an observed finding). State "
                  "kept on a rule / Backend / URLRewriter instance between consecutive requests is looked for by the sessions of all three "
                  "streams; leakage between CONCURRENT requests only by the e2e stream's parallel batches (the in-package stream sends one "
                  "request at a time). Looseness of the property predicate (the exact behaviour is still in the correspondence comparison): "
                  "the Forwarded clause accepts any element containing for=<peer> as a substring (for=127.0.0.21 passes for peer 127.0.0.2); "
                  "the Cookie clause only requires the pipeline's cookies to occur in the one Cookie value; 'forwarded to forward_to.host' is "
                  "observed as which of the two upstreams (plain / TLS) received the request plus its Host line, the dialled address is not "
                  "part of the outcome. C15_F8_observed_refuted says nothing about model or code (spec_ok rejects one recorded observation).",
    "assumptions": [
        "the upstream speaks HTTP/1.1 (ALPN offers only http/1.1 on the TLS upstream and on heimdall's TLS listener)",
        "header values are sent without leading/trailing blanks; names are RFC 7230 tokens",
        "the in-package driver uses newService, tlsClientConfig and rules.NewRuleFactory: renaming them breaks the driver, not the property",
    ],
}
