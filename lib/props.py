"""Per-property check configurations: every lib/props_C??.py defines P = {...}."""
import glob
import importlib
import os
import sys

_here = os.path.dirname(os.path.abspath(__file__))
sys.path.insert(0, _here)
PROPS = {}
for _f in sorted(glob.glob(os.path.join(_here, "props_C*.py"))):
    try:
        _m = importlib.import_module(os.path.basename(_f)[:-3])
        PROPS[_m.P["id"]] = _m.P
    except Exception as _e:  # a props file that is being edited must not take the other checks down
        sys.stderr.write("props: skipping %s: %r\n" % (_f, _e))
