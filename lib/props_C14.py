"""C14 check configuration (see lib/runner.py for the meaning of the keys)."""

_OVERLAY = {"internal/rules/zz_verif_c14_test.go": "c14/c14_test.go"}
_OVERLAY_REAL = dict(_OVERLAY, **{"internal/rules/zz_verif_c14_real_test.go": "c14/c14_real_test.go"})
_OVERLAY_HISTORY = dict(_OVERLAY, **{"internal/rules/zz_verif_c14_history_test.go": "c14/c14_history_test.go"})
_OVERLAY_WIRING = dict(_OVERLAY, **{"internal/rules/zz_verif_c14_wiring_test.go": "c14/c14_wiring_test.go"})



def _per_stream():
    """evaluations per stream of this run (lines of the observation files), so that the evidence shows all five streams ran"""
    import os
    import vf
    out = {}
    for name in ("factory", "history", "ruleset", "realfactory", "wiring"):
        p = os.path.join(vf.OUT, "C14", "obs_%s.jsonl" % name)
        out[name] = sum(1 for _ in open(p)) if os.path.exists(p) else 0
    return {"per_stream": out}


P = {
    "id": "C14",
    "coq_targets": ["Properties/C14.vo", "Run/Eval_C14.vo"],
    "theorems_module": "Properties.C14",
    "theorems": ["C14_factory_meets_spec", "C14_stagewise_inheritance", "C14_malformed_rejected", "C14_wellformed_accepted",
                 "C14_default_rule_meets_spec", "C14_pipeline_language", "C14_reading_in_scope",
                 "C14_history_meets_spec", "C14_ruleset_all_or_nothing", "C14_ruleset_one_bad_rejects", "C14_ruleset_meets_spec",
                 "C14_trace_success", "C14_trace_failure", "C14_trace_fin_failure", "C14_trace_authn_failure",
                 "C14_stage_kinds", "C14_default_stage_kinds",
                 "C14_corr_implies_prop", "C14_corr_implies_prop_ids", "C14_corr_implies_prop_set", "C14_prop_sound", "C14_prop_rejects_bad_default", "C14_nonvacuous"],
    "streams": [{
        "name": "factory", "pkg": "./internal/rules", "test": "TestVerifC14", "overlay": _OVERLAY,
        "eval_module": "Run.Eval_C14", "check_term": "check",
        "n_quick": 1500, "n_thorough": 40000, "findings": {}, "shard": 200,
    }, {
        "name": "history", "pkg": "./internal/rules", "test": "TestVerifC14History", "overlay": _OVERLAY_HISTORY,
        "eval_module": "Run.Eval_C14", "check_term": "check",
        "n_quick": 250, "n_thorough": 8000, "findings": {}, "shard": 150,
    }, {
        "name": "ruleset", "pkg": "./internal/rules", "test": "TestVerifC14RuleSet", "overlay": _OVERLAY,
        "eval_module": "Run.Eval_C14", "check_term": "check_rs",
        "n_quick": 600, "n_thorough": 15000, "findings": {}, "shard": 80,
    }, {
        "name": "realfactory", "pkg": "./internal/rules", "test": "TestVerifC14Real", "overlay": _OVERLAY_REAL,
        "eval_module": "Run.Eval_C14", "check_term": "check_ids",
        "n_quick": 800, "n_thorough": 20000, "findings": {}, "shard": 400,
    }, {
        "name": "wiring", "pkg": "./internal/rules", "test": "TestVerifC14Wiring", "overlay": _OVERLAY_WIRING,
        "eval_module": "Run.Eval_C14", "check_term": "check_rs",
        "n_quick": 200, "n_thorough": 5000, "findings": {}, "shard": 80,
    }],
    "rule": "default rule (absent 35 % / partial / complete; 40 % of them as YAML through the real configuration loader) x rule "
            "definition (every subset of the four stages, ordered and permuted step kinds, 4 distinct CEL conditions, 3 distinct "
            "override maps, unknown ids, non-string ids of 4 shapes, bad overrides, non-map configs, bad conditions, multi-key "
            "steps, backtracking unset/on/off, both modes; source id, version string, encoded-slash mode, hosts, methods, scheme, "
            "number of routes, forward_to.rewrite randomised and not given to the model) through (factory) the real NewRuleFactory/"
            "CreateRule with a stub catalogue, (history) 2-5 CreateRule calls on ONE factory instance whose rules deliberately re-use "
            "stage lists of each other byte for byte (same execute / other on_error, same on_error / other execute, the same "
            "definition with one broken reference, the same pipelines with other matcher settings; also between the rules of a rule "
            "set and the preloaded rules), every call evaluated on its own, (ruleset) YAML text through the real parser, processor (OnCreated, or OnUpdated over "
            "0-3 preloaded rules) and repository, (wiring) the fx Module of the rules package with the real file_system provider and "
            "rule executor, (realfactory) the real mechanism factory over 14 real mechanisms with type-specific valid and invalid "
            "overrides. Observed through rule.Rule / rule.Repository / rule.Executor only (factory, history, ruleset, wiring): Execute on 12 "
            "probe requests (GET/POST/PUT x nothing fails / authenticators fail / authorization stage fails / finalization stage "
            "fails) -> error flag and trace of (kind, id, override marker), AllowsBacktracking(), accepted/rejected, which rule "
            "serves /p0../p3; realfactory: accepted/rejected and mechanism ids per stage. Non-trivial = inside the scope of the "
            "statement and either a loaded rule that takes over at least one non-empty stage of the default rule, or a rejected "
            "definition all of whose steps are individually well formed (rejected for order / missing authenticator / forward_to); "
            "histories: a call on a rule derived from an earlier rule of the same factory; rule sets: more than one rule or a preloaded set; distinct by hash of the generated input",
    "anchors": ["internal/rules/rule_factory_impl.go", "internal/config/default_rule.go", "internal/rules/config/rule.go",
                "internal/rules/rule_impl.go", "internal/rules/ruleset_processor_impl.go",
                "internal/rules/mechanisms/mechanism_factory.go", "internal/rules/module.go"],
    "trusted": ["stub streams: the answer of the mechanism catalogue (known id / acceptable override) is fixed by the generator "
                "(stub catalogue: ids \"<n>\" known, an override with the key \"bad\" refused); realfactory stream: it is the "
                "driver's table of the 11 mechanism types (which single option a type has; option-less types ignore overrides; "
                "default/redirect error handlers cannot be reconfigured), read off the option structs of the mechanism types "
                "(not off mechanism_factory.go / rule_factory_impl.go, the code this stream exercises) and reproduced by the real "
                "types on every run",
                "CEL: the truth table of the driver's 4 condition expressions on the 3 probe methods is a constant of the "
                "evaluator (Run/Eval_C14.v holds); the driver checks the real CEL library against it before generating; the "
                "theorems hold for every oracle",
                "matcher construction (C03) is a boolean of the case; struct validation of a rule set is modelled as the two "
                "demands that concern this property (execute non-empty, no empty method name) plus the version check; "
                "repository path conflicts are not modelled (the generated paths are distinct)",
                "the probe set decides what is observed of a loaded rule: two effective rules that differ only in the order of "
                "mechanisms whose conditions never hold together, or in unreachable tails (an authenticator behind one that "
                "cannot fail, an error handler behind an unconditional one - except under the probe where handlers decline) "
                "are not distinguished"],
    "level_text": "Proof (kernel-checked, no axioms) that the model of the rule factory computes, for every default rule and every "
                  "rule definition in the scope of the statement (steps naming one mechanism; lists of any length, both modes, "
                  "backtracking unset/on/off), exactly the effective rule of an independently written specification "
                  "(all steps well formed, sorted by stage, stage = own mechanisms if any else the default rule's, backtracking "
                  "own/default/off) and rejects exactly what the specification rejects, each clause of the statement also as a "
                  "theorem of its own; that the rule-set loader (parser validation, version, factory; creation and update) accepts a "
                  "set iff it accepts every rule and otherwise leaves the source's rules untouched; that the executed trace is the "
                  "effective pipeline stage by stage in each of the four probe modes (nothing fails; authenticators, authorization "
                  "stage, finalization stage fail); and that an implementation showing what the model shows satisfies the "
                  "property predicate. The model is tied to the code by running both on ~4000 (quick: 3988 on seed 1) / ~107000 (thorough: 106946 measured, 88000 generated inputs, a history counting once per call) generated "
                  "cases per run in five streams and comparing executed traces, load results and served rules; the property "
                  "predicate compares the implementation's observation with the observation of the SPECIFICATION's effective rule, "
                  "projected by the model's execution / lookup functions run, lookup, observe_ids (run is characterised by the "
                  "C14_trace_* theorems); only the effective rule comes from the specification alone.",
    "level_note": "Scope: a step map with several mechanism keys and an `if` on an authenticator step are outside the statement; for "
                  "them only the model's reading (first key in a fixed order, condition ignored) is characterised "
                  "(C14_pipeline_language) and compared, the property predicate demands nothing. The statement does not say that "
                  "nothing else is rejected: over-rejection (e.g. the parser refusing a rule without `execute`, documented as "
                  "mandatory) shows as a correspondence difference, never as a property failure. A malformed default rule is a malformed "
                  "rule: a factory that exists over a default rule the specification rejects fails the predicate. Error kinds/texts are not "
                  "compared (histogram only). Trusted: Coq kernel/vm_compute; the harness (generators, stub mechanisms, probe "
                  "contexts, Gallina rendering); the catalogue/override oracle and the CEL truth table as listed under trusted. "
                  "No finding is open; C14-F1 was repaired by 97aaffa; C14_F1_pinned_refuted (Properties/C14.v, with Print "
                  "Assumptions; lemma F1_pinned_refuted in C14/Proofs.v) documents the behaviour before that commit and is the one "
                  "theorem of the file that is not an obligation. C14_history_meets_spec holds by construction of the model (no "
                  "state between calls); that the code has no such memory is checked by the history stream only.",
    "extra_coverage": lambda: _per_stream(),
    "assumptions": ["the realfactory stream reads the ids of the created mechanisms from the rule's private stage slices "
                    "(in-package, own file): renaming those fields stops that stream's driver (reported as correspondence "
                    "broken, no failing input), not the other four streams (factory, history, ruleset, wiring), which use rule.Rule/rule.Repository/rule.Executor only",
                    "the drivers are compiled together with the repository's own in-package tests of internal/rules; if those do "
                    "not compile, no stream runs"],
}
