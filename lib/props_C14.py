"""C14 check configuration (see lib/runner.py for the meaning of the keys)."""

P = {
    "id": "C14",
    "coq_targets": ["Properties/C14.vo", "Run/Eval_C14.vo"],
    "theorems_module": "Properties.C14",
    "theorems": ["C14_order_language", "C14_stagewise_inheritance", "C14_stagewise_inheritance_pinned",
                 "C14_F1_pinned_refuted", "C14_accepted_only_if_wellformed", "C14_wellformed_accepted", "C14_ruleset_all_or_nothing", "C14_ruleset_one_bad_rejects", "C14_loader_total",
                 "C14_nonvacuous"],
    "streams": [{
        "name": "factory", "pkg": "./internal/rules", "test": "TestVerifC14",
        "overlay": {"internal/rules/zz_verif_c14_test.go": "c14/c14_test.go"},
        "eval_module": "Run.Eval_C14", "check_term": "check true",
        "n_quick": 1500, "n_thorough": 40000, "findings": {1: "C14-F1"},
    }, {
        "name": "ruleset", "pkg": "./internal/rules", "test": "TestVerifC14RuleSet",
        "overlay": {"internal/rules/zz_verif_c14_test.go": "c14/c14_test.go"},
        "eval_module": "Run.Eval_C14", "check_term": "check_rs true",
        "n_quick": 800, "n_thorough": 20000, "findings": {1: "C14-F1"},
    }],
    "rule": "default rule (absent/partial/complete) x rule definition (every stage subset, ordered and permuted step kinds, "
            "multi-key steps, bad ids/overrides/conditions, backtracking unset/on/off, both modes) through the real NewRuleFactory/"
            "CreateRule, and (stream 2) as YAML text through the real rule-set parser, rule-set processor and repository; non-trivial = loaded rule inheriting at least one stage from a default rule, or a rejected definition "
            "with >= 2 steps; distinct by hash of the generated input",
    "anchors": ["internal/rules/rule_factory_impl.go", "internal/config/default_rule.go", "internal/rules/config/rule.go"],
    "trusted": ["mechanism creation (catalogue lookup, override validation) is an oracle: known/unknown per reference",
                "CEL compilation is an oracle: valid/invalid per condition; matcher construction (C03) is a boolean"],
    "level_text": "Proof (kernel-checked, no axioms) that the rule factory model accepts exactly the ordered execute lists of known "
                  "mechanisms and builds the effective rule by stage-wise inheritance (own stage if non-empty else the default rule's; "
                  "backtracking own/default/off), for all default rules and rule definitions of any length; the model is tied to "
                  "rule_factory_impl.go by running both on ~1500 (quick) / 40000 (thorough) generated definitions per run and comparing "
                  "the created pipelines, rejections and panics.",
    "level_note": "Trusted: Coq kernel/vm_compute; the correspondence harness (generator, stub mechanism factory, Gallina rendering); "
                  "mechanism creation and CEL compilation are oracles (known/unknown, valid/invalid); matcher construction is a boolean. "
                  "Finding C14-F1 was repaired by a fix: commit; the pinned behaviour is documented by C14_F1_pinned_refuted.",
    "assumptions": ["the driver reads the created rule's private stage slices (in-package), so a rename of those fields breaks the driver, not the property"],
}
