"""C14 check configuration (see lib/runner.py for the meaning of the keys)."""

_OVERLAY = {"internal/rules/zz_verif_c14_test.go": "c14/c14_test.go"}
_OVERLAY_REAL = dict(_OVERLAY, **{"internal/rules/zz_verif_c14_real_test.go": "c14/c14_real_test.go"})
_OVERLAY_WIRING = dict(_OVERLAY, **{"internal/rules/zz_verif_c14_wiring_test.go": "c14/c14_wiring_test.go"})

P = {
    "id": "C14",
    "coq_targets": ["Properties/C14.vo", "Run/Eval_C14.vo"],
    "theorems_module": "Properties.C14",
    "theorems": ["C14_factory_meets_spec", "C14_stagewise_inheritance", "C14_malformed_rejected", "C14_wellformed_accepted",
                 "C14_default_rule_meets_spec", "C14_pipeline_language", "C14_reading_in_scope",
                 "C14_ruleset_all_or_nothing", "C14_ruleset_one_bad_rejects", "C14_ruleset_meets_spec",
                 "C14_trace_success", "C14_trace_failure", "C14_stage_kinds",
                 "C14_corr_implies_prop", "C14_corr_implies_prop_set", "C14_prop_sound", "C14_nonvacuous"],
    "streams": [{
        "name": "factory", "pkg": "./internal/rules", "test": "TestVerifC14", "overlay": _OVERLAY,
        "eval_module": "Run.Eval_C14", "check_term": "check",
        "n_quick": 1500, "n_thorough": 40000, "findings": {}, "shard": 200,
    }, {
        "name": "ruleset", "pkg": "./internal/rules", "test": "TestVerifC14RuleSet", "overlay": _OVERLAY,
        "eval_module": "Run.Eval_C14", "check_term": "check_rs",
        "n_quick": 600, "n_thorough": 15000, "findings": {}, "shard": 80,
    }, {
        "name": "realfactory", "pkg": "./internal/rules", "test": "TestVerifC14Real", "overlay": _OVERLAY_REAL,
        "eval_module": "Run.Eval_C14", "check_term": "check_ids",
        "n_quick": 800, "n_thorough": 20000, "findings": {}, "shard": 400,
    }, {
        "name": "wiring", "pkg": "./internal/rules", "test": "TestVerifC14Wiring", "overlay": _OVERLAY_WIRING,
        "eval_module": "Run.Eval_C14", "check_term": "check_rs",
        "n_quick": 200, "n_thorough": 5000, "findings": {}, "shard": 80,
    }],
    "rule": "tbd",
    "anchors": ["internal/rules/rule_factory_impl.go", "internal/config/default_rule.go", "internal/rules/config/rule.go"],
    "trusted": [],
    "level_text": "tbd",
    "level_note": "tbd",
    "assumptions": [],
}
