"""C20 check configuration (see lib/runner.py for the meaning of the keys)."""
import os

import vf

OUTD = os.path.join(vf.OUT, "C20")
PROBES = os.path.join(OUTD, "schema_probes.json")
TOOLS = os.path.join(vf.HARNESS, "tools", "schema")


def gen_schema_tables(rep=None):
    """regenerate coq/Gen/SchemaTables.v (+ SchemaTablesOk.v) and the probe list of the "schema" stream from the working
    tree of the repo: schema/config.schema.json (python) and the loader's type registries / config structs (go/ast)"""
    os.makedirs(OUTD, exist_ok=True)
    tool = os.path.join(OUTD, "schematool")
    rc, o = vf.sh(["go", "build", "-o", tool, "."], cwd=TOOLS, env=vf.GOENV, timeout=600)
    if rc != 0:
        return False, "schema/loader extractor does not build: " + o[-1500:]
    lj = os.path.join(OUTD, "loader_tables.json")
    rc, o = vf.sh("%s -repo %s > %s" % (tool, vf.REPO, lj), timeout=300)
    if rc != 0:
        return False, "loader extractor failed: " + o[-1500:]
    rc, o = vf.sh(["python3", os.path.join(TOOLS, "gen.py"), vf.REPO, lj, os.path.join(vf.COQ, "Gen"), PROBES], timeout=120)
    if rc != 0:
        return False, "schema table generator failed: " + o[-1500:]
    return True, "regenerated Gen/SchemaTables.v, Gen/SchemaTablesOk.v and %s" % PROBES


P = {
    "id": "C20",
    "claimed": True,
    "coq_targets": ["Properties/C20.vo", "Run/Eval_C20.vo"],
    "theorems_module": "Properties.C20",
    "theorems": ["C20_load_meets_spec", "C20_env_order_independent", "C20_env_wins_per_leaf", "C20_defaults_fill",
                 "C20_file_env_equivalent", "C20_file_env_equivalent_splits", "C20_env_name_read_back", "C20_merge_later_wins_no_panic", "C20_merge_panic_iff", "C20_in_scope_b_sound", "C20_guard_F4n_narrower",
                 "C20_domain_in_domainN", "C20_load_meets_spec_F4n", "C20_env_order_independent_F4n", "C20_env_wins_per_leaf_F4n",
                 "C20_defaults_fill_F4n", "C20_file_env_equivalent_F4n", "C20_file_env_equivalent_splits_F4n", "C20_file_env_equivalent_splits_F4s",
                 "C20_merge_dotted_keys", "C20_domainN_nonvacuous", "C20_split_example_F4n", "C20_split_guard_example",
                 "C20_domain_nonvacuous", "C20_split_example", "C20_schema_loader_agree", "C20_tables_agree_accept_equal",
                 "C20_schema_loader_accept_equal",
                 "C20_F1_pinned_refuted", "C20_F1_pinned_rows_all_disagree", "C20_F1f_refuted", "C20_F6_refuted", "C20_F3_pinned_refuted", "C20_F3_repaired_on_witness", "C20_F4_refuted", "C20_F4_sharing_refuted",
                 "C20_history_independent", "C20_load_history_independent", "C20_load_sequence_meets_spec", "C20_shared_defaults_refuted"],
    "streams": [{
        "name": "tree", "pkg": "./internal/config/parser", "test": "TestVerifC20",
        "overlay": {"internal/config/parser/zz_verif_c20_test.go": "c20/c20_tree_test.go"},
        "eval_module": "Run.Eval_C20", "check_term": "check true false",  # fix3 = true since /repo 0f39207
        "n_quick": 1000, "n_thorough": 30000, "findings": {4: "C20-F4"}, "shard": 64,
    }, {
        "name": "schema", "pkg": "./internal/rules/mechanisms", "test": "TestVerifC20Schema",
        "overlay": {"internal/rules/mechanisms/zz_verif_c20_schema_test.go": "c20/c20_schema_test.go"},
        "eval_module": "Run.Eval_C20", "check_term": "check_schema fixed_F1a fixed_F1b",
        "n_quick": 0, "n_thorough": 0, "findings": {6: "C20-F6"}, "env": {"VERIF_C20_PROBES": PROBES},  # guard 1 (C20-F1 groups) cannot fire any more: a-e fixed, the rows of f are no mechanism probes
        "escalate": False,
    }],
    "generators": [gen_schema_tables],
    "_meta_stream": {
        "name": "meta", "pkg": "./internal/config", "test": "TestVerifC20Meta",
        "overlay": {"internal/config/zz_verif_c20_meta_test.go": "c20/c20_meta_test.go",   # the same overlay as stream seq: one build
                    "internal/config/zz_verif_c20_seq_test.go": "c20/c20_seq_test.go"},
        "eval_module": "Run.Eval_C20", "check_term": "check_meta",
        "n_quick": 120, "n_thorough": 1500, "findings": {4: "C20-F4", 5: "C20-F5", 6: "C20-F6", 7: "C20-F1f"}, "escalate": False, "shard": 10,
    },
    "_seq_stream": {
        # sequences of loads in one (fresh) process through the real NewConfiguration; the meta driver's helpers are reused
        "name": "seq", "pkg": "./internal/config", "test": "TestVerifC20Seq",
        "overlay": {"internal/config/zz_verif_c20_meta_test.go": "c20/c20_meta_test.go",
                    "internal/config/zz_verif_c20_seq_test.go": "c20/c20_seq_test.go"},
        "eval_module": "Run.Eval_C20", "check_term": "check_seq",
        "n_quick": 60, "n_thorough": 1500, "findings": {}, "escalate": False,
    },
    "rule": "four streams.  (seq, model-free) sequences of 2-4 DIFFERENT loads through the real config.NewConfiguration in one "
            "process (the test binary re-executed per case, so every case starts from a fresh process and replays on its own): "
            "inputs composed from hand-written variants of every top-level section (cache incl. the three redis kinds with "
            "their map-typed cache.config, serve with lists and tls, mechanisms with config/header/cookie maps, default_rule, "
            "providers with their map-typed settings, log/metrics/profiling/tracing), random leaves pruned, random leaves moved "
            "to the environment, whole example files, environment-only inputs, failing inputs (schema-invalid file, "
            "undecodable variable); observable = canonical deep rendering (reflect walk, unexported fields and pointers "
            "followed, maps sorted) of the decoded Configuration right after each load and of every earlier result after each "
            "later load; reference = the same (file, environment) loaded alone in its own fresh process, twice.  "
            "(meta, model-free) real config.NewConfiguration with validator, real Configuration struct, defaults and "
            "hooks: for example_config.yaml, test_config.yaml and four inline configurations, random subsets of the nameable leaves are "
            "moved to the environment; the three related loads all-file / split / all-env are compared by reflect.DeepEqual of the "
            "decoded Configuration (corpus: the auditor's three asymmetries).  (schema) ~200 probes derived from the regenerated "
            "schema/loader tables (types, config objects, options incl. nested ones, enums, ranges, duration and non-empty classes, "
            "unknown and missing options) through the real ValidateConfig and the real mechanism loader.  (tree) generated configurations (1-3 top-level fields, maps/lists/scalars nested up to depth 4, 27 scalar texts incl. "
            "0123/1e3/0x10/quoted) with every leaf assigned to a temporary YAML file or to the process environment (modes allfile/"
            "allenv/split/conflict/malformed), optional defaults tree, name variants (case, leading zeros, __ for _), shuffled "
            "enumeration order; loaded through the real parser.New(...).Load, each load repeated 6-30 times because Go's map order "
            "is random; the merged tree is captured by a decode hook; the file as read by yaml.go is compared with the tree built from "
            "the generator's logical leaves; 45 % of list-valued fields have the real shape [{id, type, config: {...}}], lists of up to "
            "13 scalars, leading-zero indices.  Non-trivial = at least two variables with a list index or a "
            "file next to them, or file+environment+defaults together; distinct by hash of the generated input",
    "anchors": ["internal/config/parser/configloader.go", "internal/config/parser/env.go", "internal/config/parser/merge.go",
                "internal/config/parser/yaml.go", "internal/config/configuration.go", "internal/config/default_configuration.go",
                "internal/config/validator.go", "schema/config.schema.json"],
    "trusted": ["YAML scalar typing (toRealType / the YAML parser) is an oracle: the observed typed value per scalar text of the case.  That the "
                "same scalar text is typed alike from a file and from the environment is part of the property (identical effect) and is NOT a "
                "theorem: to_real is universally quantified and file leaves enter the theorems already typed.  It is checked on every run for "
                "the 27 scalar texts of the generator by a t.Fatalf in the tree driver (c20_tree_test.go, the toRealType-vs-YAML comparison "
                "before the cases are generated), outside the Coq verdict",
                "the sha256 suffix of environment keys is modelled by its pre-image (normalised name, value text); collisions are not modelled",
                "mapstructure decoding of the merged tree into the Configuration struct is not modelled: the observable is the merged tree "
                "that Load hands to the decoder (captured by a decode hook)",
                "koanf (env provider, maps.Unflatten, Load with merge function, Raw) is transcribed into the model and covered by the correspondence run",
                "stream seq: the deep rendering of the decoded Configuration (reflect walk in the driver) is the observable; a fresh "
                "process per case is obtained by re-executing the test binary; process state outside the Go process (files other "
                "than the configuration file, the clock) is not varied"],
    "level_text": "Proof (kernel-checked, no axioms) about an executable Gallina transcription of the configuration loader "
                  "(env.go convert/cleanSuffix/koanfFromEnv, merge.go, configloader.go Load, with koanf's env provider, "
                  "maps.Unflatten and merge-function Load): for all defaults, file trees and environments of the property's domain "
                  "(scalar values, well-formed names, no two variables for one leaf, all sources agreeing on the shape at every "
                  "path) outside the shape of the open finding C20-F4 (and, for the code before the repair 0f39207 only, of C20-F3: "
                  "the first block of theorems is parametric in `fix3`, /repo is `fix3 = true`), and for every iteration order of every Go map on "
                  "the way, the loaded tree shows at every path the environment's node if there is one, else the file's, else "
                  "the default's (C20_load_meets_spec, under the syntactic guard_F4 = no name continues with two or more name "
                  "segments below a list index; C20_load_meets_spec_F4n for the code as it is under the narrowed guard_F4n = the "
                  "defect's own shape: such a name — MECHANISMS_AUTHENTICATORS_0_CONFIG_USER — is inside the theorem whenever "
                  "defaults or file hold a map at that list element and no other variable shares the element and the first name "
                  "segment; proved by following convert's dotted key through koanfFromEnv and mergeMaps' Unflatten-on-source to "
                  "the last merge, coq/C20/Dotted*.v); corollaries (these five in both versions): independence of the enumeration order, environment wins per "
                  "leaf, defaults fill, file/environment equivalence for every (file, environment) pair that together shows the "
                  "configuration and concretely for every subset of its leaves moved to the environment (keep/sel_leaves, lists "
                  "and nested structures included); the documented naming rule (prefix, _ separator, __ for a literal "
                  "underscore, upper case) is read back as the path it names; merge panics exactly on a container/other-kind "
                  "clash reached through nodes of equal kind and otherwise shows later-wins per leaf; the evaluator's finite "
                  "domain check is proved sound for the theorems' domain.  The schema/loader agreement is a finite vm_compute statement over tables regenerated on every run from "
                  "schema/config.schema.json and the loader's type registries/config structs, nested option objects included (endpoint, assertions, subject, ...: ~160 option rows; open objects as a pseudo option "
                  "`<any>`), with the disagreeing rows recorded as C20-F1 in groups a-f, each with its own repair flag: a-e fixed (80621e4, 6c5864d, "
                  "c343928, cc49e3a, 86b640c), f open (10 name rows of the non-mechanism sections, C20_F1f_refuted); in addition the 31 "
                  "duration-valued option rows (of 162 mechanism option rows) are excused as C20-F6 (guard_F6_row, C20_F6_refuted) — "
                  "measured on the current tables 72 of 669 entries of all_rows disagree = 10 (F1f) + 62 (F6, each row counted from both "
                  "tables).  The model is tied to the code by running both on ~1000 (quick) / 30000 (thorough) generated loads per run "
                  "(every observed outcome over 6-30 repetitions must be an outcome of the model for some iteration order) and "
                  "by replaying ~200 table-derived probes through the real schema validator and the real mechanism loader.  That the same "
                  "scalar text is typed alike from file and environment is not a theorem (to_real is a free oracle); the tree driver "
                  "checks it for its 27 scalar texts on every run.  "
                  "Sequences of loads in one process: C20_history_independent / C20_load_history_independent / "
                  "C20_load_sequence_meets_spec are theorems about a heap MODEL of what NewConfiguration does around the tree-level loader "
                  "(C20/History.v: a Configuration value holds its map-, slice- and pointer-typed settings as references, decoding "
                  "writes into the instance referred to, a deep look dereferences at the time of looking); they hold by construction "
                  "of that model when defaultConfig() makes new instances per call (share = false): every result of every sequence, "
                  "looked at after all its loads, is what its own three inputs give alone (C20_shared_defaults_refuted: with a "
                  "defaults value copied shallowly it is not).  That the CODE behaves like the share = false model is not proved; "
                  "it is checked on the real NewConfiguration on every run by the model-free stream seq (65 quick / 1500 thorough "
                  "sequences of 2-4 different loads, each in a fresh process, against each load alone in a fresh process; deep "
                  "rendering of the decoded Configuration after each load and again after every later load).",
    "level_note": "40 entries in Properties/C20.v.  General content, 18: six under the syntactic guard_F4 and parametric in fix3 "
                  "(load_meets_spec, env_order_independent, env_wins_per_leaf, defaults_fill, file_env_equivalent, ..._splits), four "
                  "independent of the guards (naming read-back, the two merge theorems, table agreement => equal acceptance), seven "
                  "restated under the narrowed guard for fix3 = true (_F4n/_F4s), and the merge theorem for trees with dotted keys.  "
                  "One is plumbing (in_scope_b_sound), two relate the two F4 guards / domains.  Fifteen are vm_compute "
                  "witnesses/examples/finite table statements: non-vacuity and split examples (5), the two table statements "
                  "(schema_loader_agree, schema_loader_accept_equal — the latter with ALL value classes erased, durations and "
                  "non-emptiness), and the findings' witnesses: open findings as `_refuted` about the code/tables as they are "
                  "(C20_F1f_refuted, C20_F4_refuted, C20_F4_sharing_refuted, C20_F6_refuted), repaired ones as `_pinned_refuted` about the "
                  "variant before the commit (C20_F1_pinned_refuted, C20_F1_pinned_rows_all_disagree: groups a, b, c before 80621e4 / "
                  "6c5864d / c343928; C20_F3_pinned_refuted before 0f39207, with C20_F3_repaired_on_witness).  C20-F5 has no theorem "
                  "(there is no model of validating the file before the merge); it is observed by stream meta only (guard 5), the "
                  "container-level `required` part of C20-F6 likewise (guard 6); groups d and e of C20-F1 have no pinned theorem "
                  "(their rows were caught by the generated table check and the probes).  History block (4 entries): the heap model "
                  "of C20/History.v is a model of Go's value/reference semantics around the loader, not a transcription of "
                  "mapstructure; its tie to the code is the model-free stream seq (v_corr there = a load alone in a fresh process "
                  "is stable over two runs).  "
                  "With the _F4n block, names of the C20-F4 shape whose list element exists as a map in defaults or "
                  "file and that are alone at their first name segment are PROVED (all map orders, all permutations); what stays "
                  "outside every theorem is exactly where guard_F4n fires (element absent, or two variables sharing element and first "
                  "name segment, e.g. ..._0_CONFIG_USER + ..._0_CONFIG_PASSWORD, where the model too loses one of them for some map "
                  "order) and, for the F4n block, the code before 0f39207 (fix3 = false).  guard_F4n / guard_F4s are sufficient "
                  "shapes for the defect: no theorem says the property fails wherever guard_F4n fires (C20_F4_refuted and "
                  "C20_F4_sharing_refuted give one input per clause).  "
                  "For splits the guard is evaluated on the remaining file keep_map sel c (C20_file_env_equivalent_splits_F4n); "
                  "keep never removes a map or a list, so only the sharing clause can fire there, and "
                  "C20_file_env_equivalent_splits_F4s states the splits theorem with that clause alone (guard_F4s, a condition on "
                  "the variables only).  "
                  "Not covered by any theorem: the decoded Configuration (mapstructure; streams meta and seq only); equal typing of "
                  "one scalar text from file and environment (driver check only); `usable from a file iff from the environment` "
                  "for the real validator (C20-F5, C20-F6, C20-F1f refute it).  "
                  "Trusted: Coq kernel/vm_compute; the correspondence harness (generators, decode-hook capture of the merged tree, "
                  "Gallina rendering); YAML scalar typing is an oracle (observed per case); the sha256 key suffix is modelled by its "
                  "pre-image; the translation of the JSON schema and of the Go config structs into the tables "
                  "(harness/tools/schema, go/ast + python) is trusted and cross-checked by the dynamic probes.  "
                  "Open findings: C20-F1f (names of the non-mechanism sections: 10 table rows, 4 of them — serve.decision.cors, "
                  "serve.decision.connections_limit, serve.management.connections_limit, serve.management.respond — an observable "
                  "asymmetry, replayed by the meta base decision_cors under guard 7; no repair proposed), C20-F4 (nested structure "
                  "inside a list element stays a flat dotted key; fixes/C20-F4.diff not applicable because it edits a repo unit test "
                  "that pins the flat key), C20-F5 (the schema validates the file alone, so a split moving a schema-required leaf is "
                  "rejected; no small repair), C20-F6 (schema stricter than loader: duration syntax, container-level required; no "
                  "small repair).  Fixed: C20-F3 (0f39207; general theorem proved for the repaired code), C20-F1a/b/c/d/e "
                  "(80621e4 / 6c5864d / c343928 / cc49e3a / 86b640c).",
    "assumptions": ["names and values are in the modelled domain: key segments contain no '.' or '#', list indices <= 2^20, "
                    "ASCII names (strings.ToLower is modelled on ASCII)",
                    "the schema stream needs a minimal valid configuration per mechanism type (harness/tools/schema/gen.py BASE); "
                    "a mechanism type added later is probed uncontrolled (property only) until an entry is added",
                    "a key can be named from the environment only if every segment is [a-z0-9][a-z0-9_]* (valid_seg, NamingProofs.v): map "
                    "keys with upper case, '-', '.', and numeric MAP keys (header names like X-Foo) cannot be given by a variable; the "
                    "meta and seq streams move only nameable leaves",
                    "environment values type as scalars (typed_env): a value that YAML reads as list/map/null (X=, X=[a]) is outside every theorem",
                    "History block: which settings are reference-typed (rps), that decoding writes into the existing instance, and that "
                    "defaultConfig() makes new instances per call (share = false) are assumptions of the model, tied to the code by "
                    "stream seq only"],
}

P["streams"].append(P.pop("_meta_stream"))


def _custom(P_, tier, seed, replay):
    """the generic runner, with a replay routed to the stream its case came from (a replay file of an unguarded
    property failure does not name the stream; the shape of the case's input tells)"""
    import runner
    if replay and not replay.get("stream_name") and isinstance(replay.get("case"), dict):
        cin = replay["case"].get("in")
        cin = cin if isinstance(cin, dict) else {}
        if "loads" in cin:
            replay["stream"] = "seq"
        elif "base" in cin and "selected" in cin:
            replay["stream"] = "meta"
        elif "opts" in cin and "kind" in cin:
            replay["stream"] = "schema"
    return runner.run_property(P_, tier, seed, replay)


P["custom"] = _custom
P["streams"].append(P.pop("_seq_stream"))
