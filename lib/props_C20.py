"""C20 check configuration (see lib/runner.py for the meaning of the keys)."""

P = {
    "id": "C20",
    "claimed": False,  # flip to True once bin/check is green AND Properties/C20.v has real theorems
    "coq_targets": ["Properties/C20.vo", "Run/Eval_C20.vo"],
    "theorems_module": "Properties.C20",
    "theorems": ["C20_F3_refuted", "C20_F4_refuted"],
    "streams": [{
        "name": "tree", "pkg": "./internal/config/parser", "test": "TestVerifC20",
        "overlay": {"internal/config/parser/zz_verif_c20_test.go": "c20/c20_tree_test.go"},
        "eval_module": "Run.Eval_C20", "check_term": "check false false",
        "n_quick": 1200, "n_thorough": 30000, "findings": {3: "C20-F3", 4: "C20-F4"}, "shard": 100,
    }],
    "rule": "TODO",
    "anchors": ["internal/config/parser/configloader.go", "internal/config/parser/env.go", "internal/config/parser/merge.go",
                "internal/config/parser/yaml.go", "internal/config/configuration.go", "internal/config/default_configuration.go",
                "internal/config/validator.go", "schema/config.schema.json"],
    "trusted": [],
    "level_text": "TODO",
    "level_note": "TODO",
    "assumptions": [],
}
