"""C07 check configuration and runner (custom: regenerated lock skeleton + race-detector stress stream)."""
import json
import os
import re

import vf
import runner

PID = "C07"
SKEL_SRC = "internal/rules/repository_impl.go"
OUTD = os.path.join(vf.OUT, PID)
# A run against another checkout (VERIF_REPO, e.g. a seeded change) must not touch the shared Coq tree: its
# skeleton is generated into the run's own out directory and the repository instances are compiled there.
ALT = os.path.realpath(vf.REPO) != os.path.realpath(os.environ.get("VERIF_HOME_REPO", "/repo"))
GEN = os.path.join(OUTD, "RepoSkel.v") if ALT else os.path.join(vf.COQ, "Gen", "RepoSkel.v")


# --------------------------------------------------------------------------- skeleton regeneration

def gen_skel(rep=None):
    """rebuild harness/tools/skel and regenerate coq/Gen/RepoSkel.v from the working tree of the repo"""
    os.makedirs(OUTD, exist_ok=True)
    tool = os.path.join(OUTD, "skel")
    rc, o = vf.sh(["go", "build", "-o", tool, "."], cwd=os.path.join(vf.HARNESS, "tools", "skel"), env=vf.GOENV, timeout=600)
    if rc != 0:
        return False, "skeleton extractor does not build: " + o[-1500:]
    rc, o = vf.sh([tool, "-repo", vf.REPO, "-file", SKEL_SRC, "-type", "repository", "-name", "repo", "-ctor", "newRepository",
                   "-out", GEN, "-json", os.path.join(OUTD, "skel.json")], timeout=120)
    if rc != 0:
        return False, "skeleton extractor failed on %s: %s" % (SKEL_SRC, o[-1500:])
    return True, "regenerated " + GEN


def alt_instances():
    """alt run: compile  <generated skeleton> + <body of C07/Repo.v>  in the run's own directory: the repository
    instances of the theorems for the skeleton of the other checkout (the shared Gen/RepoSkel.v is not touched)"""
    repo_v = open(os.path.join(vf.COQ, "C07", "Repo.v")).read().replace(" Gen.RepoSkel", "")
    path = os.path.join(OUTD, "alt_instances.v")
    with open(path, "w") as f:
        f.write(open(GEN).read() + "\n" + repo_v + "\nPrint Assumptions repo_safe.\nPrint Assumptions repo_linearizable.\n"
                "Print Assumptions repo_explored_schedule_safe.\n")
    rc, o = vf.coqc_file(path, timeout=900)
    return rc == 0 and o.count("Closed under the global context") >= 3, o


def read_obs_tolerant(path):
    """like vf.read_obs, but a last line cut off by a dying driver (race detector exit, deadlock) is skipped"""
    out = []
    if not os.path.exists(path):
        return out
    with open(path) as f:
        for line in f:
            line = line.strip()
            if not line:
                continue
            try:
                out.append(json.loads(line))
            except ValueError:
                pass
    return out


def probe_skel():
    """evaluate wf_skel on the regenerated skeleton WITHOUT the closing Example (which fails to compile when wf is
    false).  Returns (wf_locks, wf_cow, cex_text, raw_output)"""
    src = open(GEN).read()
    i = src.find("Example repo_skel_wf")
    body = src[:i] if i >= 0 else src
    body += "\nEval vm_compute in (wf_locks repo_skel, wf_cow repo_wlock repo_skel).\n"
    body += "Eval vm_compute in (firstn_cex 60 (skel_cex repo_wlock repo_skel)).\n"
    path = os.path.join(OUTD, "probe.v")
    with open(path, "w") as f:
        f.write(body)
    rc, o = vf.coqc_file(path, timeout=600)
    m = re.search(r"=\s*\((true|false),\s*(true|false)\)", o)
    if rc != 0 or not m:
        return None, None, "", o
    cex = o[m.end():]
    k = cex.find("=")
    cex = cex[k + 1:] if k >= 0 else cex
    cex = cex.split(": list cex")[0].strip()
    return m.group(1) == "true", m.group(2) == "true", " ".join(cex.split()), o


def names():
    try:
        return json.load(open(os.path.join(OUTD, "skel.json")))
    except Exception:
        return {"locks": [], "vars": [], "methods": [], "locals": {}}


def pretty_event(ev, nm):
    ev = ev.strip()
    m = re.match(r"(\w+)\s*(\d+)?\s*(\d+)?", ev)
    if not m:
        return ev
    k, a, b = m.group(1), m.group(2), m.group(3)
    lk = lambda i: nm["locks"][int(i)] if i is not None and int(i) < len(nm["locks"]) else str(i)
    vr = lambda i: nm["vars"][int(i)] if i is not None and int(i) < len(nm["vars"]) else str(i)
    if k in ("ELock", "EUnlock", "ERLock", "ERUnlock"):
        return "%s.%s()" % (lk(a), k[1:])
    if k == "ERead":
        return "read r.%s" % vr(a)
    if k == "EWrite":
        return "write r.%s" % vr(a)
    if k == "ELoad":
        return "x%s := r.%s" % (a, vr(b))
    if k == "EStore":
        return "r.%s = x%s" % (vr(a), b)
    if k == "EClone":
        return "x%s := x%s.Clone()" % (a, b)
    if k == "EObjRead":
        return "read *x%s" % a
    if k == "EObjWrite":
        return "mutate *x%s" % a
    return k


def pretty_cex(cex_text, nm):
    """turn `CexRace 2 [..] [..]; CexPoint [..] [..]; ...` into readable schedules"""
    out = []
    for m in re.finditer(r"(CexPoint|CexAtomic|CexRace)\s*(\d+)?\s*\[([^\]]*)\]\s*\[([^\]]*)\]", cex_text):
        kind, v, l1, l2 = m.group(1), m.group(2), m.group(3), m.group(4)
        e1 = [pretty_event(e, nm) for e in l1.split(";") if e.strip()]
        e2 = [pretty_event(e, nm) for e in l2.split(";") if e.strip()]
        if kind == "CexRace":
            fld = nm["vars"][int(v)] if v is not None and int(v) < len(nm["vars"]) else v
            out.append({"kind": "unprotected conflicting accesses to r.%s" % fld,
                        "schedule": ["goroutine A: " + "; ".join(e1) + "   <- about to run the last access",
                                     "goroutine B: " + "; ".join(e2) + "   <- about to run the last access",
                                     "no lock is held by both with one of them holding it exclusively"]})
        elif kind == "CexPoint":
            out.append({"kind": "lock / ownership discipline broken",
                        "schedule": ["one goroutine has executed: " + "; ".join(e1),
                                     "its next events are: " + "; ".join(e2),
                                     "the first of them is not allowed here (lock order or re-acquisition, release of a lock not "
                                     "held, mutation of / store of an object that is not a private clone, undefined local, "
                                     "untranslatable code, or locks still held at return)"]})
        else:
            out.append({"kind": "operation is not atomic",
                        "schedule": ["one goroutine has executed: " + "; ".join(e1),
                                     "its next events are: " + "; ".join(e2),
                                     "the first of them touches guarded state outside the writer-lock section of the "
                                     "operation (or publishes twice / looks at the pointer again after publishing): another "
                                     "writer can run in between -> lost update / torn view"]})
    # at most two schedules of each kind, no repetitions
    seen, per_kind, res = set(), {}, []
    for c in out:
        key = json.dumps(c, sort_keys=True)
        k = c["kind"].split(" to ")[0]
        if key in seen or per_kind.get(k, 0) >= 2:
            continue
        seen.add(key)
        per_kind[k] = per_kind.get(k, 0) + 1
        res.append(c)
    return res


# --------------------------------------------------------------------------- stream

STREAM = {
    "name": "stress", "pkg": "./internal/rules", "test": "TestVerifC07",
    "overlay": {"internal/rules/zz_verif_c07_test.go": "c07/c07_test.go"},
    "eval_module": "Run.Eval_C07", "check_term": "check",
    "n_quick": 1500, "n_thorough": 20000, "findings": {}, "race": True, "shard": 300, "timeout": 2400,
}


def run_stress(rep, tier, seed, n, only=None, tag="stress", test=None):
    """returns (status, detail, obs) with status in ok | race | deadlock | panic | shallow | broken"""
    st = dict(STREAM)
    if os.environ.get("VERIF_C07_NORACE") == "1":     # experiments only: look at the linearizability check alone
        st["race"] = False
        rep.notes.append("EXPERIMENT SWITCH VERIF_C07_NORACE=1: the race detector is OFF for this run - not a valid check run")
        rep.obligation("switch:VERIF_C07_NORACE-unset", False)
    ov = c07_overlay(False)
    env = {"VERIF_SEED": seed, "VERIF_N": n, "VERIF_TIER": tier}
    if only is not None:
        env["VERIF_ONLY"] = only
    rc, out, obs_path = vf.go_run_driver(PID, st["pkg"], test or st["test"], ov, env=env, race=st.get("race", False),
                                         timeout=st.get("timeout", 1800), tag=tag)
    obs = read_obs_tolerant(obs_path)
    if "WARNING: DATA RACE" in out or "race detected during execution" in out:
        i = out.find("WARNING: DATA RACE")
        return "race", out[i:i + 6000] if i >= 0 else out[-3000:], obs
    if "C07-DEADLOCK" in out:
        return "deadlock", out[-4000:], obs
    if "C07-PANIC" in out or "panic:" in out and "goroutine" in out:
        i = out.find("panic:")
        return "panic", out[max(i, 0):max(i, 0) + 5000], obs
    if "C07-SHALLOW-CLONE" in out:
        return "shallow", out[-3000:], obs
    if rc != 0 or not obs:
        return "broken", out[-3000:], obs
    return "ok", "", obs


# the clone stream has no Coq evaluator: its verdict (no shared node / non-empty backing array, source unchanged after
# mutating the clone) is computed on the Go side; listed here so that the streams are counted consistently
CLONE = {
    "name": "clone", "pkg": "./internal/rules", "test": "TestVerifC07Clone",
    "eval_module": "no Coq evaluator", "check_term": "(verdict computed on the Go side)", "n_quick": 300, "n_thorough": 3000,
}

# --------------------------------------------------------------------------- stream "sched": schedule exploration

SCHED = {
    "name": "sched", "pkg": "./internal/rules", "test": "TestVerifC07Sched",
    "eval_module": "Run.Eval_C07Sched", "check_term": "check_sched repo_skel",
    "n_quick": 1100, "n_thorough": 20000, "shard": 100, "timeout": 1800,
}
INSTR_DIR = os.path.join(OUTD, "instrumented")
INSTR_JSON = os.path.join(OUTD, "instr.json")
ACCESS_GO = os.path.join(OUTD, "zz_verif_c07_access_test.go")


def gen_instr(rep=None):
    """rebuild harness/tools/instr; write the instrumented copies of the files declaring the guarded state of the checked
    tree, and the accessor file through which the drivers reach the repository's fields (bound by TYPE, not by name)"""
    os.makedirs(OUTD, exist_ok=True)
    tool = os.path.join(OUTD, "instr")
    rc, o = vf.sh(["go", "build", "-o", tool, "."], cwd=os.path.join(vf.HARNESS, "tools", "instr"), env=vf.GOENV, timeout=600)
    if rc != 0:
        return False, "instrumenter does not build: " + o[-1500:]
    if os.path.isdir(INSTR_DIR):
        for f in os.listdir(INSTR_DIR):
            os.remove(os.path.join(INSTR_DIR, f))
    rc, o = vf.sh([tool, "-repo", vf.REPO, "-file", SKEL_SRC, "-type", "repository", "-outdir", INSTR_DIR, "-json", INSTR_JSON,
                   "-access", ACCESS_GO], timeout=120)
    if rc != 0:
        return False, "instrumenter failed on %s: %s" % (SKEL_SRC, o[-1500:])
    try:
        notes = json.load(open(INSTR_JSON)).get("notes") or []
    except Exception:
        notes = []
    return True, "instrumented copies in " + INSTR_DIR + ("; instrumenter notes: " + "; ".join(sorted(set(notes))) if notes else "")


def c07_overlay(instrumented):
    """overlay of a C07 driver build: helper package, driver(s), the generated accessor file; for the sched stream also the
    shim package and the instrumented copies, which are compiled INSTEAD of the originals"""
    rules = os.path.dirname(SKEL_SRC)
    rep = {
        os.path.join(vf.REPO, "internal/zzverif/vf/vf.go"): os.path.join(vf.HARNESS, "vf/vf.go"),
        os.path.join(vf.REPO, rules, "zz_verif_c07_test.go"): os.path.join(vf.HARNESS, "c07/c07_test.go"),
        os.path.join(vf.REPO, rules, "zz_verif_c07_access_test.go"): ACCESS_GO,
    }
    if instrumented:
        rep[os.path.join(vf.REPO, "internal/zzverif/sched/sched.go")] = os.path.join(vf.HARNESS, "sched/sched.go")
        rep[os.path.join(vf.REPO, rules, "zz_verif_c07_sched_test.go")] = os.path.join(vf.HARNESS, "c07/c07_sched_test.go")
        for rel, out in json.load(open(INSTR_JSON)).get("files", {}).items():
            rep[os.path.join(vf.REPO, rel)] = out
    path = os.path.join(OUTD, "overlay_sched.json" if instrumented else "overlay.json")
    with open(path, "w") as f:
        json.dump({"Replace": rep}, f, indent=1)
    return path


def sched_overlay():
    return c07_overlay(True)


def skel_preamble():
    """the regenerated skeleton without its closing Example: pasted into the case files, so that the cases are
    evaluated against the skeleton of the CHECKED tree also when it does not pass wf_skel / for other checkouts"""
    src = open(GEN).read()
    i = src.find("Example repo_skel_wf")
    return src[:i] if i >= 0 else src


SCHED_KINDS = {200: "data-race-in-explored-schedule", 300: "non-linearizable-schedule",
               400: "deadlock-in-explored-schedule", 500: "crash-in-explored-schedule"}
TIE_CODES = {101: "the events logged for an operation are not a path of its method in the skeleton",
             102: "invocation while an operation of the thread is in flight", 103: "response before the path was used up",
             104: "a logged event is not the next event of the skeleton path, or concerns another object than the model's",
             105: "the skeleton semantics does not allow the logged event at this point (mutex state / undefined local)",
             106: "event of a thread that runs no operation", 107: "construct the instrumenter does not translate",
             108: "operations in flight at the end of the run / model not stuck at a reported deadlock"}


def run_sched(rep, tier, seed, cmds, nm, replay=None):
    """returns True if a concrete failing schedule was reported"""
    # cfg0 (C07/Sched.v) gives the guarded pointer fields 0..14 distinct initial objects: a named obligation, not a build failure
    fits = len(nm.get("vars") or []) <= 15
    rep.obligation("assumption:guarded-fields-fit-cfg0", fits)
    if not fits:
        rep.notes.append("sched: the guarded type has more than 15 data fields; the replay's initial configuration cfg0 does not "
                         "cover it - the stream is skipped")
        return False, []
    if os.environ.get("VERIF_C07_NOSLEEP"):
        rep.notes.append("EXPERIMENT SWITCH VERIF_C07_NOSLEEP: the sleep-set reduction is OFF (plain enumeration under the same "
                         "budget explores far fewer classes) - not a valid check run")
        rep.obligation("switch:VERIF_C07_NOSLEEP-unset", False)
    n = SCHED["n_quick"] if tier == "quick" else SCHED["n_thorough"]
    summ = os.path.join(OUTD, "sched_summary.json")
    env = {"VERIF_SEED": seed, "VERIF_N": n, "VERIF_TIER": tier, "VERIF_C07_SKEL": os.path.join(OUTD, "skel.json"),
           "VERIF_C07_INSTR": INSTR_JSON, "VERIF_C07_SUMMARY": summ}
    if replay:
        rp = os.path.join(OUTD, "sched_replay_in.json")
        with open(rp, "w") as f:
            json.dump(replay["case"]["in"], f)
        env["VERIF_C07_SCHED_REPLAY"] = rp
    if os.path.exists(summ):
        os.remove(summ)
    rc, out, obs_path = vf.go_run_driver(PID, SCHED["pkg"], SCHED["test"], sched_overlay(), env=env, race=False,
                                         timeout=SCHED["timeout"], tag="sched")
    cmds.append("go test -tags verif -overlay out/C07/overlay_sched.json -c ./internal/rules && driver -test.run ^TestVerifC07Sched$ "
                "(VERIF_SEED=%s VERIF_N=%s; the files declaring the guarded state replaced by their instrumented copies)" % (seed, n))
    obs = read_obs_tolerant(obs_path)
    for o in obs:
        o["stream"] = "sched/" + (o.get("stream") or "")
    if rc != 0 or not obs:
        rep.obligation("stream:sched", False)
        rep.notes.append("stream sched: driver failed\n" + out[-3000:])
        rep.violation({"kind": "correspondence-broken", "stream": "sched",
                       "why": "the schedule-exploration driver does not build or run against the instrumented copy of the current tree",
                       "detail": out[-2000:], "case": None}, no_input=True)
        return False, obs
    try:
        summary = json.load(open(summ))
    except Exception:
        summary = []
    if summary:
        ex = [s for s in summary if s["kind"] != "sampled"]
        rep.notes.append("sched: %d schedules; %d tiny plans, %d enumerations (lock-boundary / fine-grained / writer-preference), %d of them "
                         "complete (sleep-set reduction), %d larger plans sampled" %
                         (len(obs), len({s["plan"] for s in ex}), len(ex), sum(1 for s in ex if s["complete"]), len(summary) - len(ex)))
    rows, shards, shards_ok, elog = vf.eval_cases(PID + "/sched", "Run.Eval_C07Sched", SCHED["check_term"], [o["coq"] for o in obs],
                                                  shard_size=SCHED["shard"], extra_imports=skel_preamble())
    cmds.append("coqc out/C07/sched/cases_*.v   (regenerated skeleton + `Eval vm_compute in results (check_sched repo_skel) cases`)")
    if shards_ok != shards:
        rep.obligation("stream:sched", False)
        rep.notes.append("stream sched: model evaluation failed: " + elog[-2000:])
        rep.violation({"kind": "correspondence-broken", "stream": "sched", "why": "model evaluation failed (Coq)", "case": None},
                      no_input=True)
        return False, obs
    nviol, ntie, concrete = 0, 0, False
    per_kind = {}
    for pos, o in enumerate(obs):
        r = rows.get(pos)
        if r is None:
            if replay:
                print("REPLAY stream=sched schedule=%s verdict(corr,prop,diagnostics)=(True, True, []): the run is an execution of "
                      "the skeleton, linearizable, race free" % o["in"]["schedule"])
            continue
        corr, prop, gs = r
        if replay:
            print("REPLAY stream=sched schedule=%s verdict(corr,prop,diagnostics)=%s" % (o["in"]["schedule"], (corr, prop, gs)))
        ev = o["obs"].get("events", []) if isinstance(o["obs"], dict) else []
        if not prop:
            nviol += 1
            kinds = [SCHED_KINDS[g] for g in gs if g in SCHED_KINDS] or ["property-fails-on-explored-schedule"]
            if per_kind.get(kinds[0], 0) >= 2:
                continue
            per_kind[kinds[0]] = per_kind.get(kinds[0], 0) + 1
            v = {"kind": kinds[0], "all_kinds": kinds, "stream": "sched", "stream_name": "sched", "case": o,
                 "schedule": o["in"]["schedule"],
                 "how": "the real repository code (instrumented copy), run under this schedule of lock boundaries, violates "
                        "the property; the run is deterministic: bin/check C07 --replay <this file> repeats it",
                 "run_is_execution_of_the_skeleton": not any(100 < g < 110 for g in gs), "diagnostics": gs}
            if 200 in gs:
                k = gs.index(200)
                i, j = gs[k + 1], gs[k + 2]
                # positions refer to the rendered items; `res` events are merged into their Clone
                txt = [e for e in ev if "-> object" not in e.split(" ", 1)[1][:10]]
                v["race"] = {"first": txt[i] if i < len(txt) else i, "second": txt[j] if j < len(txt) else j,
                             "why": "conflicting accesses by different goroutines, not ordered by happens-before (program order, "
                                    "Unlock -> later Lock/RLock, RUnlock -> later Lock of the same mutex)"}
            rep.violation(v)
            concrete = True
        elif not corr:
            ntie += 1
            if ntie <= 2:
                codes = [TIE_CODES[g] for g in gs if g in TIE_CODES]
                rep.violation({"kind": "correspondence-broken", "stream": "sched", "stream_name": "sched", "case": o,
                               "why": "the events logged by the instrumented code under this schedule are not an execution of the "
                                      "skeleton extracted from the same file (or, literal plan, the results differ from repo_apply): "
                                      + "; ".join(codes), "diagnostics": gs,
                               "searched": "%d explored schedules, none violates the property" % len(obs)}, no_input=True)
    rep.obligation("stream:sched", nviol == 0 and ntie == 0)
    if nviol or ntie:
        rep.notes.append("sched: %d schedules violate the property, %d break the tie with the skeleton" % (nviol, ntie))
    if tier == "thorough" and not replay:
        rc2, out2, _ = vf.go_run_driver(PID, SCHED["pkg"], "TestVerifC07SchedSelf", sched_overlay(), env=env, race=False,
                                        timeout=SCHED["timeout"], tag="schedself")
        rep.obligation("selftest:sleep-set-reduction", rc2 == 0)
        if rc2 != 0:
            rep.notes.append("sleep-set self-test failed: " + out2[-1500:])
    return concrete, obs


def selftest(rep, cmds):
    """self-tests of the extractor and of the instrumenter; each result is cached by the hash of the tool's sources"""
    import hashlib
    for name, files in (("skel", ("main.go", "skel_test.go", "go.mod")),
                        ("instr", ("main.go", "instr_test.go", "go.mod", "../../sched/sched.go"))):
        d = os.path.join(vf.HARNESS, "tools", name)
        h = hashlib.sha256()
        for f in files:
            h.update(open(os.path.join(d, f), "rb").read())
        stamp = os.path.join(vf.VERIF, "out", "%s_selftest.ok" % name)
        key = h.hexdigest()
        cmds.append("cd harness/tools/%s && go test ./...   (cached by source hash)" % name)
        if os.path.exists(stamp) and open(stamp).read().strip() == key:
            rep.obligation("selftest:harness/tools/" + name, True)
            continue
        rc, o = vf.sh(["go", "test", "-count=1", "./..."], cwd=d, env=vf.GOENV, timeout=900)
        rep.obligation("selftest:harness/tools/" + name, rc == 0)
        if rc == 0:
            os.makedirs(os.path.dirname(stamp), exist_ok=True)
            with open(stamp, "w") as f:
                f.write(key)
        else:
            rep.notes.append("%s self-tests failed: %s" % (name, o[-1500:]))


def custom(P, tier, seed, replay=None):
    rep = vf.Report(PID, tier, seed)
    cmds = []
    nm = {}

    # 0. regenerate the skeleton from the working tree
    ok, msg = gen_skel(rep)
    rep.obligation("generate:RepoSkel.v", ok)
    cmds.append("go build harness/tools/skel && skel -repo $REPO -file %s -out %s" % (SKEL_SRC, os.path.relpath(GEN, vf.VERIF)))
    wf_ok = False
    cex = []
    if not ok:
        rep.notes.append(msg)
    else:
        nm = names()
        okm, outm = vf.coq_make(["C07/Model.vo"])
        wl, wc, cex_text, raw = probe_skel() if okm else (None, None, "", outm)
        if wl is None:
            rep.notes.append("skeleton probe failed: " + raw[-1500:])
        else:
            wf_ok = wl and wc
            rep.notes.append("wf_locks repo_skel = %s, wf_cow repo_wlock repo_skel = %s" % (wl, wc))
            if not wf_ok:
                cex = pretty_cex(cex_text, nm)
                rep.notes.append("skel_cex: " + cex_text[:3000])
        if nm.get("notes"):
            rep.notes.append("extractor notes: " + "; ".join(nm["notes"][:10]))
    rep.obligation("example:repo_skel_wf", wf_ok)
    if not replay:
        selftest(rep, cmds)

    # 1. proofs
    targets = [t for t in P["coq_targets"]]
    okb, out = vf.coq_make(targets)
    cmds.append("cd coq && make " + " ".join(targets))
    proofs_ok = okb
    ass = None
    inst_ok = True
    if not okb:
        f, line = vf.coq_failed_file(out)
        rep.notes.append("proof build failed at %s:%s\n%s" % (f, line, out[-1200:]))
    else:
        ass, aout = vf.print_assumptions(PID, P["theorems_module"], P["theorems"])
        if ass is None:
            proofs_ok = False
            rep.notes.append("Print Assumptions failed: " + aout[-800:])
    if ALT and ok:
        # the shared tree holds the skeleton of the home checkout; the instances for THIS checkout are compiled aside
        inst_ok, iout = alt_instances() if okb else (False, "general development does not build")
        cmds.append("coqc out/.../C07/alt_instances.v  (generated skeleton + C07/Repo.v)")
        if not inst_ok:
            rep.notes.append("repository instances do not compile for the regenerated skeleton: " + iout[-1200:])
    for t in P["theorems"]:
        good = proofs_ok and ass is not None and t in ass and "Closed under the global context" in ass[t]["assumptions"]
        if t.startswith("C07_repo_"):
            good = good and inst_ok and wf_ok
        rep.obligation("theorem:" + t, good)
    if tier == "thorough" and proofs_ok and not replay:
        okc, txt = vf.coqchk(P["theorems_module"])
        rep.obligation("coqchk:" + P["theorems_module"], okc)
        rep.notes.append("coqchk -silent -o: " + " ".join(txt.split())[:1200])
        if not okc:
            proofs_ok = False

    sched_replay = bool(replay) and replay.get("stream") == "sched"

    # 1b. instrumented copies + the accessor file the drivers of ALL streams are compiled with
    iok, imsg = gen_instr()
    rep.obligation("generate:instrumented-copy+driver-accessors", iok)
    cmds.append("go build harness/tools/instr && instr -repo $REPO -file %s -outdir out/C07/instrumented -access "
                "out/C07/zz_verif_c07_access_test.go" % SKEL_SRC)
    if "notes:" in imsg or not iok:
        rep.notes.append(imsg)
    if not iok:
        rep.violation({"kind": "correspondence-broken", "stream": "all",
                       "why": "the guarded state of the repository cannot be identified structurally (mutexes by type, the tree "
                              "pointer, the rule list and the default rule by their types): no driver can be bound to this tree",
                       "obligation": "generate:instrumented-copy+driver-accessors", "detail": imsg[-1500:], "case": None}, no_input=True)
        cov = {"evaluations": 0, "distinct_nontrivial": 0, "rule": P["rule"], "samples": [], "input_distribution": {},
               "theorems": ass or {}, "source_fingerprint": vf.fingerprint(P.get("anchors", [])), "exhaustive": False,
               "skeleton": {"wf": wf_ok}}
        return rep.finish(cov, vf.TRUSTED_COMMON + P.get("trusted", []), " ; ".join(cmds), P.get("assumptions", []))

    # 2a. every lock-boundary schedule of tiny plans (and sampled schedules of larger ones) on the instrumented copy;
    # first, so that its deterministic replays head the list of violations
    sched_concrete, sobs = False, []
    if ok and (not replay or sched_replay):
        sched_concrete, sobs = run_sched(rep, tier, seed, cmds, nm, replay=replay if sched_replay else None)

    # 2. stress stream under the race detector
    n = STREAM["n_quick"] if tier == "quick" else STREAM["n_thorough"]
    if not wf_ok and ok:
        n = max(n, 6000)      # the skeleton check failed: look harder for a concrete failing run
    only = replay["case"]["i"] if replay and replay.get("case") else None
    if sched_replay:
        status, detail, obs = "skipped", "", []
    else:
        status, detail, obs = run_stress(rep, tier, seed, n, only=only)
    cmds.append("go test -tags verif -race -overlay out/C07/overlay.json -c ./internal/rules && driver -test.run ^TestVerifC07$ "
                "(VERIF_SEED=%s VERIF_N=%s)" % (seed, n))
    concrete = False
    if status == "skipped":
        pass
    elif status == "race":
        rep.obligation("stream:stress", False)
        rep.violation({"kind": "data-race-detected", "stream": "stress",
                       "how": "go test -race on the real repository with concurrent writers and readers reported a data race",
                       "race_report": detail, "skeleton_counterexamples": cex,
                       "rerun": "bin/check C07   (VERIF_SEED=%s)" % seed, "case": None})
        concrete = True
    elif status == "deadlock":
        rep.obligation("stream:stress", False)
        last = obs[-1] if obs else None
        rep.violation({"kind": "deadlock", "stream": "stress", "how": "operations of the real repository did not return within 45 s",
                       "detail": detail, "skeleton_counterexamples": cex, "case": last, "stream_name": "stress"})
        concrete = True
    elif status == "panic":
        rep.obligation("stream:stress", False)
        rep.violation({"kind": "panic", "stream": "stress", "how": "an operation of the real repository panicked (crash clause)",
                       "detail": detail, "case": obs[-1] if obs else None, "stream_name": "stress"})
        concrete = True
    elif status == "broken":
        rep.obligation("stream:stress", False)
        rep.notes.append("stream stress: driver failed\n" + detail)
        rep.violation({"kind": "correspondence-broken", "stream": "stress",
                       "why": "driver does not build or run against the current tree", "detail": detail[-1500:], "case": None},
                      no_input=True)
        concrete = True
    else:
        rows, shards, shards_ok, elog = runner.evaluate(PID, STREAM, obs)
        if shards_ok != shards:
            rep.obligation("stream:stress", False)
            rep.notes.append("stream stress: model evaluation failed: " + elog[-2000:])
            rep.violation({"kind": "correspondence-broken", "stream": "stress", "why": "model evaluation failed (Coq)",
                           "case": None}, no_input=True)
            concrete = True
        else:
            before = len(rep.violations)
            cfpo, nviol = vf.classify_stream(rep, obs, rows, {}, "stress")
            rep.obligation("stream:stress", nviol == 0 and not cfpo)
            concrete = len(rep.violations) > before
            if cfpo and not concrete:
                # the histories are atomic (explained by the real code run sequentially), but the sequential reference
                # machine repo_apply computes other results: the repository's SEQUENTIAL behaviour has changed (or the
                # machine is wrong).  Atomicity is not refuted: DESIGN 4, last row.
                rep.notes.append("sequential reference repo_apply differs from the real repository on %d literal histories; "
                                 "every history is atomic w.r.t. the real code" % len(cfpo))
                rep.violation({"kind": "correspondence-broken", "stream": "stress",
                               "why": "the real repository, run sequentially, no longer behaves like coq/C07/Model.v repo_apply on %d "
                                      "histories with literal paths; atomicity (the property) holds on all %d histories of this run"
                                      % (len(cfpo), len(obs)),
                               "examples": [{"in": o["in"], "i": o["i"]} for o in cfpo[:3]],
                               "case": cfpo[0], "stream_name": "stress"}, no_input=True)
            if replay:
                for pos, o in enumerate(obs):
                    print("REPLAY case=%s linearizable=%s verdict(corr,prop,guards)=%s" %
                          (o["i"], o["obs"].get("linearizable") if isinstance(o["obs"], dict) else o["obs"],
                           rows.get(pos, (True, True, []))))
    for o in obs:
        o["stream"] = "stress/" + (o.get("stream") or "")

    # 2b. Tree.Clone is deep (structurally: no shared node / non-empty backing array; behaviourally: mutating the clone
    # leaves the source's answers unchanged), on trees with wildcards and catch-alls
    if (not replay or replay.get("stream") == "clone") and not sched_replay:
        nc = CLONE["n_quick"] if tier == "quick" else CLONE["n_thorough"]
        cstatus, cdetail, cobs = run_stress(rep, tier, seed, nc, tag="clone", test="TestVerifC07Clone",
                                            only=(replay["case"]["i"] if replay and replay.get("case") else None))
        cmds.append("driver -test.run ^TestVerifC07Clone$ (VERIF_SEED=%s VERIF_N=%s)" % (seed, nc))
        bad = [o for o in cobs if isinstance(o.get("obs"), dict) and not o["obs"].get("ok", True)]
        rep.obligation("stream:clone", cstatus == "ok" and not bad)
        if bad or cstatus == "shallow":
            rep.violation({"kind": "shallow-clone", "stream": "clone",
                           "how": "Tree.Clone shares mutable memory with its source (or mutating the clone changed the source's "
                                  "answers): writers would modify the published tree in place",
                           "case": bad[0] if bad else (cobs[-1] if cobs else None), "stream_name": "clone", "detail": cdetail[-1500:]})
        elif cstatus == "race":
            rep.violation({"kind": "data-race-detected", "stream": "clone", "race_report": cdetail, "case": None})
        elif cstatus != "ok":
            rep.notes.append("stream clone: driver failed\n" + cdetail)
            rep.violation({"kind": "correspondence-broken", "stream": "clone", "why": "driver failed", "detail": cdetail[-1500:],
                           "case": None}, no_input=True)
        for o in cobs:
            o["stream"] = "clone/"
        obs = obs + cobs

    obs = obs + sobs
    concrete = concrete or sched_concrete

    # 3. the skeleton no longer passes the check and the stress run found nothing concrete
    if ok and not wf_ok and not concrete:
        rep.violation({"kind": "proof-obligation-broken",
                       "obligation": "Example repo_skel_wf : wf_skel repo_wlock repo_skel = true   (coq/Gen/RepoSkel.v, regenerated from "
                                     + SKEL_SRC + ")",
                       "counterexample_schedules": cex,
                       "searched": "%d stress histories under -race and explored schedules without a failing run" % len(obs),
                       "theorems": P["theorems"], "case": None}, no_input=True)
    elif ok and not wf_ok and rep.violations:
        # attach the schedules to the concrete replay as well (already included above)
        pass
    if not ok and not rep.violations:
        rep.violation({"kind": "proof-obligation-broken", "notes": rep.notes[-2:], "case": None}, no_input=True)
    if ok and wf_ok and not proofs_ok and not rep.violations:
        rep.violation({"kind": "proof-obligation-broken", "notes": rep.notes[-2:], "theorems": P["theorems"], "case": None},
                      no_input=True)

    cov = {
        "evaluations": len(obs),
        "distinct_nontrivial": vf.distinct_nontrivial(obs),
        "rule": P["rule"],
        "samples": vf.sample(obs, 2) + ([{"theorem": t, "statement": ass[t]["statement"]} for t in P["theorems"][:3]] if ass else []),
        "input_distribution": vf.histogram(obs),
        "theorems": ass or {},
        "source_fingerprint": vf.fingerprint(P.get("anchors", [])),
        "exhaustive": False,
        "skeleton": {"wf": wf_ok, "names": {k: nm.get(k) for k in ("locks", "vars", "methods", "rank", "writer_lock",
                                                                     "object_methods_mutating")}},
    }
    return rep.finish(cov, vf.TRUSTED_COMMON + P.get("trusted", []), " ; ".join(cmds), P.get("assumptions", []))


P = {
    "id": PID,
    "claimed": True,
    "coq_targets": ["Base/Locks.vo", "C07/Model.vo", "C07/Lin.vo", "C07/Proofs.vo", "C07/Examples.vo", "Gen/RepoSkel.vo", "C07/Repo.vo", "C07/Sched.vo",
                    "Properties/C07.vo", "Run/Eval_C07.vo", "Run/Eval_C07Sched.vo"],
    "theorems_module": "Properties.C07",
    "theorems": ["C07_no_crash", "C07_drf", "C07_mutual_exclusion", "C07_deadlock_free", "C07_linearizable",
                 "C07_history_is_the_execution", "C07_readers_see_committed_state", "C07_real_time_order",
                 "C07_no_lost_update", "C07_seq_spec_total", "C07_repo_safe", "C07_repo_linearizable",
                 "C07_explored_schedule_is_model_execution", "C07_explored_schedule_same_history",
                 "C07_explored_schedule_safe", "C07_repo_explored_schedule_safe"],
    "streams": [STREAM, CLONE, SCHED],
    "technique": "lock / copy-on-write skeleton REGENERATED from repository_impl.go by a go/ast translator (harness/tools/skel) + general "
                 "theorems over the interleaving semantics of sync.Mutex/RWMutex for every skeleton passing wf_skel + race-detector "
                 "stress histories of the real repository checked for atomicity against the real code run sequentially + reflective "
                 "deep-clone check + exhaustive / sampled schedule exploration of an automatically instrumented copy (harness/tools/"
                 "instr, harness/sched), each event log replayed through the skeleton semantics in Coq; no hand-written model of the "
                 "repository is involved except the literal-path cross-check repo_apply",
    "category": "proof-partial",
    "generators": [gen_skel, gen_instr],
    "custom": custom,
    "rule": "stress stream: per case a fresh REAL repository wired as in module.go (newRepository + NewRuleSetProcessor), fed "
            "through the real rule-set processor (OnCreated/OnUpdated/OnDeleted) with rules whose routes/matchers are the real "
            "routeImpl/compositeMatcher/method/regex path-param matchers; 2-3 (thorough: 2-4) writer goroutines doing 2-4(5) changes each "
            "(mostly one source per writer, 15% two writers on one source; rule sets of 1-3 rules over 10 literal path expressions with "
            "shared prefixes and - in 60% of the plans - 7 wildcard / catch-all expressions, GET-only rules, backtracking on/off/unset, "
            "regex path_params; cross-source collisions reject changes; unchanged/changed/new/removed rules), 1-3 reader goroutines doing "
            "3-7 FindRule lookups (GET/POST, 19 request paths), then a sequential probe of all request paths; built with -race; every "
            "operation stamped with a logical clock at invocation and response.  The driver searches an order of the operations that "
            "respects real time and in which the REAL code, run sequentially on a fresh repository, gives the same results (Wing-Gong, "
            "memoised); Coq re-validates order, stamps and equality with the sequential results (= atomicity; no model of "
            "add/update/delete involved) and, for literal-only plans, compares with the sequential machine repo_apply (correspondence).  "
            "Second stream: 300 (3000) random trees incl. wildcards: Tree.Clone shares no node / non-empty backing array with its source "
            "and mutating the clone leaves the source's answers unchanged.  Non-trivial = at least one pair of operations of different "
            "goroutines, one of them a change, overlapped in time (stamps are taken outside the calls: an upper bound of real "
            "interleaving); distinct by hash of the generated plan; 5 corpus plans first.  The interleavings are chosen by the Go "
            "scheduler (seeded Gosched points / lock-step rounds only), so the observed histories differ between runs; the verdict "
            "does not.  Stream sched (1100 quick / 20000 thorough schedules, every one a case): the build replaces "
            "repository_impl.go by its automatically instrumented copy (harness/tools/instr: sync.Mutex/RWMutex -> scheduler-aware "
            "stand-ins of harness/sched, every read / assignment of r.dr / r.knownRules / r.index and every method call on a tree "
            "behind r.index logged); a controller runs the goroutines of a plan one at a time and switches only where an operation "
            "is invoked and at Lock/RLock/Unlock/RUnlock; a schedule is the list of thread ids chosen there and reproduces the "
            "execution event for event (bin/check C07 --replay).  10 hand-written tiny plans (1-2 writers of different or the same source x 1-2 "
            "changes + 1-2 readers after a sequential set-up: concurrent adds, update vs add, delete vs update, two-route delete "
            "vs two lookups, colliding adds with a follow-up change, two updates of one source, delete + re-add, default rule, "
            "wildcards) and up to 8 (thorough: 60) generated tiny "
            "plans are enumerated EXHAUSTIVELY, depth first, with sleep sets (one execution per class of executions that differ "
            "only in the order of independent steps; the reduction is self-tested against plain enumeration in the thorough tier: "
            "same set of outcomes); plans 2 and 3 (delete vs update, two-route delete vs two lookups; thorough: all hand-written plans) are enumerated a second time with "
            "assignments to guarded fields and method calls on tree objects as additional scheduling points; plans of the "
            "stress generator are sampled (12 schedules each: seeded random walk and PCT with "
            "depth 3).  Per schedule Coq (Run/Eval_C07Sched.v) checks: the logged events are an execution of the interleaving "
            "semantics for the skeleton regenerated from the same file (replay: each operation a path of its method up to "
            "stuttering, each lock grant enabled in the model, objects loaded / cloned / published are the model's), the results are "
            "linearizable w.r.t. the real code run sequentially (same evaluator as stress), no happens-before data race among the "
            "logged accesses, no deadlock (re-validated: no thread of the model can move), no unlock of an unlocked mutex.  "
            "Non-trivial = operations of different goroutines, one a change, overlap; distinct by hash of plan + schedule.",
    "anchors": ["internal/rules/repository_impl.go", "internal/x/radixtree/tree.go", "internal/rules/ruleset_processor_impl.go"],
    "trusted": [
        "harness/tools/skel (go/ast): the translation of repository_impl.go into the event skeleton (lock/unlock/defer, reads/writes "
        "of r.knownRules / r.dr, loads/stores of r.index incl. sync/atomic.Pointer, Clone / mutating / read-only calls on tree "
        "objects, inlining of addRulesTo/removeRulesFrom, closures as loop bodies; ANY other method call on or through a guarded "
        "field, escaping receivers, aliases, goroutines, a constructor used other than in fx.Provide ... become EUnsupported, which "
        "the Coq check rejects) and its syntactic classification of radixtree methods as receiver-mutating or not; 6 self-test "
        "functions (table driven: constructs to refuse, translations to produce, nested structs) run with every "
        "check (cached by source hash); Base/Locks.v method_paths (enumeration of paths: defers at returns, loops "
        "summarised as zero or one iteration of object accesses) is evaluated inside Coq but is not proved against Go's semantics.  "
        "Both are CROSS-CHECKED at run time on every explored schedule (stream sched): the events the instrumented code "
        "really executes must replay as an execution of the skeleton semantics (theorems C07_explored_schedule_is_model_execution "
        "+ C07_explored_schedule_same_history TOGETHER: a log replayed without error is, all of it, such an execution with the "
        "logged invocations and responses; the first alone also holds of a log rejected at once) - on the explored plans and "
        "schedules only, not for all inputs",
        "extractor, instrumenter and drivers identify the guarded state STRUCTURALLY (mutexes by their type, data leaves by "
        "their position; structs of the package nested by value - embedded or named - are flattened depth first, their methods "
        "inlined / instrumented with the receiver standing for that part of the state; the drivers reach the tree pointer, the rule "
        "list and the default rule through accessors generated by type): field, helper and lock names are free, the type name "
        "`repository`, the constructor `newRepository` and the methods of rule.Repository are not",
        "stream sched: harness/tools/instr (go/ast, written independently of the extractor) decides syntactically what is logged: "
        "r.f in a method of the type (read, assignment, op-assignment), method calls on r.index / on locals and parameters that "
        "syntactically denote such a tree; an access it does not see is not checked (the replay fails if the skeleton has an event "
        "the log lacks, and vice versa); which tree methods mutate their receiver is the extractor's table.  The comparison is up "
        "to stuttering (a run of identical accesses by one thread counts once on both sides: loops, in-place library calls such as "
        "slices.DeleteFunc) - lemma lmatch_normal_form.  harness/sched implements the mutexes itself under the controller (Lock needs "
        "the mutex free, RLock no exclusive holder; writer preference of sync.RWMutex only in the thorough tier and without the "
        "reduction); every grant is re-validated against the model by the replay.  Goroutines are switched at operation starts and "
        "lock operations only: code between two lock operations runs atomically (Find, Clone, Add, Delete are single steps), "
        "which is complete only for executions without data race - races are looked for by the happens-before detector hb_races "
        "on the log (vector clocks; evaluated in Coq, its completeness not proved).  The sleep-set reduction and the independence "
        "relation (same mutex unless both read-side, conflicting accesses, invocation vs response) are untrusted for failures "
        "(every reported schedule replays) but trusted for exhaustiveness; self-tested against plain enumeration (thorough)",
        "the interleaving semantics of Base/Locks.v is sequentially consistent: the Go memory model is not modelled; the lockset "
        "discipline proved there is what Go's memory model requires for data-race freedom (every conflicting pair of accesses "
        "is ordered by a common mutex); the Go scheduler is only assumed to run some enabled goroutine",
        "the skeleton treats each tree call as one atomic event on ONE abstract tree value and Clone as a deep copy; deepness is "
        "CHECKED dynamically (clone stream: reflect walk + behavioural test, wildcards included) but not proved; a slice of length 0 "
        "may keep the source's spare capacity (benign while clones are made under the writer lock only); rule/route/matcher "
        "objects and the request are outside the model (exercised by -race with the real matchers only)",
        "crash clause: the theorem covers unlock of a mutex the thread does not hold, use of a tree VARIABLE (method-local) that was "
        "never loaded or cloned, and untranslated code; that the pointer field r.index itself is non-nil is the hypothesis `initial` "
        "of the theorems (the body of newRepository is not extracted; a store of nil is untranslatable); panics inside tree / "
        "matcher code are only observed (an operation that panics in the stress run is a VIOLATION with the history as replay)",
        "stress stream: the sequential oracle is the real code (snapshots via Clone, checked by the clone stream); the witness search "
        "is untrusted, order and results are re-validated in Coq; coq/C07/Model.v repo_apply (literal paths) is a cross-check only",
        "not on the path: the real rule factory's pipelines (routes and matchers are built with the factory's own helper functions), "
        "the providers (C18), fx wiring (the extractor only checks that newRepository is handed to fx.Provide undecorated)",
    ],
    "level_text": "Proof (kernel-checked, no axioms), for EVERY lock skeleton passing the boolean check wf_skel and for unboundedly many "
                  "goroutines and operations (induction over the interleaving semantics of sync.Mutex/RWMutex, with and without writer "
                  "preference): (1) no unlock-of-unlocked-mutex, no use of a tree variable that was never loaded or cloned, no data race on r.index / r.knownRules / r.dr nor on "
                  "any tree object (lockset + ownership of private clones; published trees are never written), mutual exclusion, "
                  "deadlock freedom (rank certificate knownRulesMutex < rulesTreeMutex); (2) LINEARIZABILITY by forward simulation with "
                  "linearization points: every execution is equivalent to the sequential execution (seq_run: the same method body run "
                  "alone, atomically) of its operations in linearization-point order, every completed operation returns exactly the log "
                  "the sequential history gives it (a lookup is matched against one committed state), each operation takes effect once "
                  "between invocation and response, and at quiescence the guarded state IS the final state of the sequential history "
                  "(no lost update). The skeleton of the repository is REGENERATED from internal/rules/repository_impl.go (and the "
                  "mutating-method table from internal/x/radixtree) on every run and must pass `Example repo_skel_wf : wf_skel "
                  "repo_wlock repo_skel = true`. The sequential history of the theorems is tied to the execution: it consists of the "
                  "execution's own operations, per thread in program order with the returned logs, and respects real time. Supporting "
                  "streams: ~1500 (quick) / 20000 (thorough) concurrent histories of the real repository behind the real rule-set processor "
                  "under `go test -race` (wildcards, catch-alls, method and regex matchers, backtracking), each checked in Coq to be atomic "
                  "w.r.t. the real code run sequentially (and, literal plans, equal to repo_apply); deep-clone check of Tree.Clone.  "
                  "RUN-TIME TIE (stream sched): an automatically instrumented copy of the current repository_impl.go (mutexes replaced "
                  "by scheduler-aware stand-ins, guarded accesses logged) is run under EVERY lock-boundary schedule of 10 hand-written and some generated tiny plans "
                  "(sleep-set reduced) and sampled schedules of larger ones, 1100 / 20000 schedules, each deterministic and replayable "
                  "from its list of thread ids; Coq replays each event log through the interleaving semantics of the regenerated "
                  "skeleton - proved: a log replayed without error is an execution of that semantics with exactly the logged invocations "
                  "and responses; for it the general theorems give crash- and race-freedom and a linearization OF THE MODEL EXECUTION "
                  "(values are abstracted to unit there).  That the RESULTS the real operations returned are linearizable is checked "
                  "per schedule, not proved; so are happens-before race freedom of the log and absence of deadlock.  Three streams: "
                  "stress, clone (Go side only, no Coq evaluation), sched.",
    "level_note": "PARTIAL. Proved about the skeleton semantics, not about Go: the Go memory model and scheduler are not modelled "
                  "(sequentially consistent interleavings; lockset discipline => DRF is taken to be what Go guarantees), the "
                  "go/ast extractor and the path enumeration are not proved correct (they are cross-checked against the events the "
                  "instrumented real code executes, on the explored plans and schedules only; the instrumenter is trusted to log "
                  "the accesses), schedules are explored at lock-boundary granularity, Tree.Clone's deepness and panics inside tree "
                  "code are outside the model. The sequential specification of the theorems is the skeleton itself run atomically with "
                  "uninterpreted write functions (value semantics for trees); that this coincides with the repository's functional "
                  "behaviour (repo_apply, literal paths) is observed by the stress stream, not proved.",
    "assumptions": [
        "newRepository leaves the tree pointer non-nil: assumed by the hypothesis `initial` of the theorems (every pointer field "
        "points to an allocated object), not extracted; only observed (every stream would panic at once otherwise)",
        "guarded fields of `repository` are accessed only from repository_impl.go (the extractor scans the other files of the "
        "package for the field and unexported method names and rejects the skeleton otherwise)",
        "the stress stream's schedules are whatever the Go scheduler produces on the machine; the race detector only reports races "
        "on executed interleavings",
        "the sched stream controls the interleaving of the repository's own code only (operation starts and mutex operations); it is "
        "exhaustive for the tiny plans it enumerates completely (the evidence says how many) up to the independence relation of the "
        "sleep-set reduction, and a sample for the larger plans",
    ],
}
