"""C02 check configuration (see lib/runner.py for the meaning of the keys)."""

_OVERLAY_GEN = {"internal/zzverif/c02gen/gen.go": "c02/gen.go"}

def _per_stream():
    """cases and lookups per stream of the run just made (read back from the observation files)"""
    import json, os
    import vf
    out, total = {}, 0
    for st in ("tree", "repo", "processor", "history"):
        cases = lookups = 0
        try:
            with open(os.path.join(vf.OUT, "C02", "obs_%s.jsonl" % st)) as f:
                for line in f:
                    o = json.loads(line)
                    cases += 1
                    lookups += len((o.get("in") or {}).get("lookups") or [])
        except (OSError, ValueError):
            pass
        out[st] = {"cases": cases, "lookups": lookups}
        total += lookups
    return {"per_stream": out, "lookups": total}


P = {
    "id": "C02",
    "claimed": True,
    "coq_targets": ["Properties/C02.vo", "Run/Eval_C02.vo"],
    "theorems_module": "Properties.C02",
    "theorems": ["C02_find_is_most_specific", "C02_find_is_most_specific_with_last_flag", "C02_flag_in_force_is_last_add",
                 "C02_F2_refuted", "C02_F3_refuted", "C02_F3_refuted_on_tree", "C02_tree_refines_machine", "C02_tree_add_refines_machine", "C02_repository_find_rule",
                 "C02_ties_never_decide", "C02_nonvacuous", "C02_order_independent", "C02_rulesets_order_independent", "C02_rulesets_order_nonvacuous",
                 "C02_answer_is_first_acceptable",
                 "C02_match_decides_matches", "C02_parsed_expressions_wellformed", "C02_wildcards_nonempty",
                 "C02_escapes_are_literals",
                 "C02_reachable_tree_refines_machine", "C02_reachable_find_is_most_specific",
                 "C02_reachable_find_is_most_specific_with_flag_in_force", "C02_reachable_order_independent",
                 "C02_history_index_is_reachable", "C02_history_find_rule", "C02_history_find_rule_on_stored_routes",
                 "C02_history_nonvacuous"],
    "streams": [{
        "name": "tree", "pkg": "./internal/x/radixtree", "test": "TestVerifC02Tree",
        "overlay": dict({"internal/x/radixtree/zz_verif_c02_test.go": "c02/c02_tree_test.go"}, **_OVERLAY_GEN),
        "eval_module": "Run.Eval_C02", "check_term": "check_tree true",
        "n_quick": 500, "n_thorough": 12000, "shard": 60, "findings": {2: "C02-F2"},
    }, {
        "name": "repo", "pkg": "./internal/rules", "test": "TestVerifC02Repo",
        "overlay": dict({"internal/rules/zz_verif_c02_test.go": "c02/c02_repo_test.go"}, **_OVERLAY_GEN),
        "eval_module": "Run.Eval_C02", "check_term": "check_repo true",
        "n_quick": 300, "n_thorough": 8000, "shard": 60, "findings": {2: "C02-F2"},
    }, {
        "name": "processor", "pkg": "./internal/rules", "test": "TestVerifC02Processor",
        "overlay": dict({"internal/rules/zz_verif_c02_test.go": "c02/c02_repo_test.go"}, **_OVERLAY_GEN),
        "eval_module": "Run.Eval_C02", "check_term": "check_repo true",
        "n_quick": 200, "n_thorough": 5000, "shard": 60, "findings": {2: "C02-F2"},
    }, {
        "name": "history", "pkg": "./internal/rules", "test": "TestVerifC02History",
        "overlay": dict({"internal/rules/zz_verif_c02_test.go": "c02/c02_repo_test.go"}, **_OVERLAY_GEN),
        "eval_module": "Run.Eval_C02", "check_term": "check_hist",
        "n_quick": 250, "n_thorough": 6000, "shard": 60, "findings": {2: "C02-F2", 3: "C02-F3"},
    }],
    "rule": "a case = one fresh index + 8-24 lookups. Stream tree: 1-12 Adds on a real radixtree.Tree (repository's values constraint, "
            "WithBacktracking per Add). Stream repo: 1-5 rule sets of real ruleImpl/routeImpl values (real method matcher + table-driven "
            "capture-aware condition, rule ids = shuffled strings) via AddRuleSet, with/without default rule, plus a twin load in reverse "
            "order. Stream processor: the same written as configuration (backtracking_enabled set/unset x default rule, scheme/host/method) "
            "through the real NewRuleSetProcessor -> NewRuleFactory.CreateRule -> repository. Stream history: 2-7 OnCreated/OnUpdated/"
            "OnDeleted operations (definition-only changes, flag flips, reorderings, dropped/new rules, new routes; siblings on one "
            "expression inside a set, a path listed twice in a rule) then lookups, compared with the machine-level history model and with the "
            "compressed-tree model after the same Adds and Deletes, judged against a FRESH load of the rule sets in force. Expressions over a b A B 1 2 "
            ". - ; ~ % : * \\ / and a non-ASCII byte (static up to 16 bytes, :name, :*, *name, **, escaped, empty segments, trailing slash, "
            "malformed; up to 7 segments), 68% derived from an earlier expression of the case (same again, other key names, prefix, split "
            "inside a token, generalise/specialise one segment, free wildcard below a prefix, directory/child form); lookups = instances "
            "(wildcards filled with sibling segments), near misses (incl. case flip, ';'), random paths; conditions as data: acceptable "
            "ids (incl. 'only one or two acceptable' to force long failure chains) and per-id tests on the key names / captured values. "
            "Non-trivial = some lookup has >= 2 loaded expressions matching its path (history: an accepted update changing an existing "
            "rule); distinct by hash of the input.",
    "anchors": ["internal/x/radixtree/tree.go", "internal/x/radixtree/options.go", "internal/rules/repository_impl.go",
                "internal/rules/rule_impl.go", "internal/rules/route_matcher.go", "internal/rules/rule_factory_impl.go",
                "internal/rules/ruleset_processor_impl.go", "docs/content/docs/rules/regular_rule.adoc"],
    "trusted": [
        "the Gallina transcription of tree.go (Radix/Tree.v: addNode, splitCommonPrefix, Add, findNode, Find; C06/TreeDel.v, owned by C06: "
        "delNode, deleteChild, delEdge, Delete) and of the repository (C02/Model.v, C02/HistTree.v) is tied to the Go code by the "
        "correspondence runs only; static-child priorities (order of children) are omitted; Clone is the identity in the model (values are "
        "returned, not mutated); in histories which operations the implementation accepted and the answers of SameAs / EqualTo are data of "
        "the case; a route object is modelled as (rule id, rule-set id, position in its rule's route list), rule ids being unique inside a "
        "rule set (enforced by the rule set processor since fix 5e2c60e); that the content of the model tree after a history equals the machine-level history model (C02/Model.v hstep) is checked "
        "per case (db_equiv), not proved",
        "which Adds / rule sets are accepted is not part of the property: the index content is built from what the implementation accepted; "
        "a failed real Add leaves value-less nodes behind, invisible to lookups",
        "the flag of an expression 'as the property states it' is the conjunction of its rules' flags (regular_rule.adoc: 'a less specific "
        "rule fails to match and does not permit backtracking' stops the search); this reading is the spec's, finding C02-F2 depends on it",
        "conditions are data (acceptable ids + tests on key names / captured values); real matchers on the path: method (repo, processor, "
        "history), scheme and exact host (processor); path_params / glob / regex conditions and URL.Captures are C03's",
        "every Add carries WithBacktracking (as repository.addRulesTo does)",
    ],
    "level_text": "Proof (kernel-checked, no axioms): for EVERY sequence of Adds and Deletes of valid expressions on the empty index (any "
                  "expressions, order, flags, values constraint, delete matchers) - hence for every state the model of the repository reaches by any history of "
                  "AddRuleSet / UpdateRuleSet / DeleteRuleSet (which operations were accepted and SameAs / EqualTo are data of the history, Clone is "
                  "the identity) -, every path and every condition (captures included) the transcribed compressed radix tree of "
                  "tree.go (addNode with prefix splitting, delNode / deleteChild with node merging, findNode with static/wildcard/catch-all "
                  "children and backtrack flags) keeps its invariant, holds exactly the entries of the abstract pattern-map machine after the same "
                  "operations, and findNode returns exactly what the declarative specification says on the routes currently stored - scan of the "
                  "matching expressions by specificity (literal < single wildcard < free wildcard at the first differing position; the tie-breaks "
                  "of the order provably never decide), first acceptable value in insertion order, continue only if the failed expression allows "
                  "backtracking - with the flag in force (unguarded) and, outside open finding C02-F2, with the flag the property states (all rules "
                  "of the failed expression allow it); repository level incl. default rule / no rule, after rule-set loads and after histories; "
                  "independence of how operations on different expressions are interleaved and of the order of rule sets that are accepted completely in "
                  "both orders (such sets touch disjoint expressions); "
                  "wildcards non-empty, escapes literal. The model is tied to radixtree.Tree, rules.repository, NewRuleFactory and "
                  "NewRuleSetProcessor by four differential streams (~1270 cases / ~18000 lookups per quick run, per-stream counts in the evidence) comparing every returned value / "
                  "rule id with the tree model (after update/delete histories too), the machine and the specification; histories are judged "
                  "against a fresh load of the rule sets in force (open finding C02-F3: 'the first one in rule-set order' is false after an update and "
                  "has no theorem there).",
    "level_note": "Trusted: Coq kernel/vm_compute; the hand transcription of tree.go / repository_impl.go into Gallina (checked differentially "
                  "on every run, not verified; the Delete side is C06's file C06/TreeDel.v, its invariant and refinement proofs are imported from "
                  "C06); the Go drivers and generators (harness/c02) and the rendering into Gallina. The theorems about reachable states assume "
                  "that a Delete names a parseable expression (a Delete of a non-expression can remove another expression's route, witness "
                  "delete_of_a_non_expression); the repository-level theorem discharges it (only routes that were added are deleted). Not covered "
                  "by a theorem: that the routes stored after an update are those of a fresh load in rule-set order (false: C02-F3; C06's "
                  "statement), the equality of the model tree's content with the machine-level history model (checked per case), static-child "
                  "priorities (order only), Clone / copy-on-write after a rejected operation (covered differentially only, cf. seeded C02-9/-10/-11; C07). Open findings: C02-F2 (flag of the last Add in force; = C06-F2), guarded in the "
                  "theorems (guard_F2), and C02-F3 (rule order after an update; = C06-F1), guarded in the evaluator only (guard_F3, an "
                  "over-approximation: any difference between the routes on a matching expression and those of a fresh load): that outside the guard a "
                  "history answers like a fresh load is not proved here (C06's statement); both with refutation witnesses on the tree as it is "
                  "(C02_F2_refuted, C02_F3_refuted, C02_F3_refuted_on_tree), both observed on every run. C02-F1 was repaired by e897fef; its witness stays in the corpus and as C02_F1_pinned_refuted (not counted). URL.Captures / path_params are C03's observables.",
    "extra_coverage": _per_stream,
    "assumptions": ["lookups never mutate the tree; the drivers use one goroutine",
                    "the repository driver builds ruleImpl/routeImpl values directly (in-package); a rename of their fields breaks the driver, not the property"],
}
