"""C02 check configuration (see lib/runner.py for the meaning of the keys)."""

_OVERLAY_GEN = {"internal/zzverif/c02gen/gen.go": "c02/gen.go"}

P = {
    "id": "C02",
    "claimed": True,
    "coq_targets": ["Properties/C02.vo", "Run/Eval_C02.vo"],
    "theorems_module": "Properties.C02",
    "theorems": ["C02_find_is_most_specific", "C02_tree_refines_machine", "C02_tree_add_refines_machine",
                 "C02_tree_find_is_most_specific",
                 "C02_pinned_find_is_most_specific", "C02_pinned_tree_find_is_most_specific", "C02_F1_pinned_refuted",
                 "C02_nonvacuous", "C02_order_independent", "C02_answer_is_first_acceptable", "C02_most_specific_wins",
                 "C02_no_backtracking_stops", "C02_backtracking_continues", "C02_match_decides_matches",
                 "C02_parsed_expressions_wellformed", "C02_wildcards_nonempty", "C02_escapes_are_literals",
                 "C02_repository_find_rule", "C02_default_or_norule"],
    "streams": [{
        "name": "tree", "pkg": "./internal/x/radixtree", "test": "TestVerifC02Tree",
        "overlay": dict({"internal/x/radixtree/zz_verif_c02_test.go": "c02/c02_tree_test.go"}, **_OVERLAY_GEN),
        "eval_module": "Run.Eval_C02", "check_term": "check_tree true",
        "n_quick": 600, "n_thorough": 15000, "shard": 60, "findings": {2: "C02-F2"},
    }, {
        "name": "repo", "pkg": "./internal/rules", "test": "TestVerifC02Repo",
        "overlay": dict({"internal/rules/zz_verif_c02_test.go": "c02/c02_repo_test.go"}, **_OVERLAY_GEN),
        "eval_module": "Run.Eval_C02", "check_term": "check_repo true",
        "n_quick": 400, "n_thorough": 10000, "shard": 60, "findings": {2: "C02-F2"},
    }],
    "rule": "a case = one fresh index (stream tree: 1-12 Adds on a real radixtree.Tree with the repository's values constraint "
            "and a WithBacktracking option per Add; stream repo: 1-5 rule sets of real ruleImpl/routeImpl values with real "
            "method matchers loaded by AddRuleSet into a real repository, with/without default rule) + 8-24 lookups. "
            "Expressions over the alphabet a b % : * \\ / (static, :name, :*, *name, **, escaped, empty segments, trailing "
            "slash, malformed), 68% derived from an earlier expression of the same case (same expression again, other key "
            "names, prefix, split inside a token, segment kind swapped, continued differently); random order, flags, "
            "rule-set ids; lookups = instances of loaded expressions (58%), near misses of instances (30%), random paths; "
            "conditions as data (random subset of acceptable ids; in the repo stream method sets through the real matcher). "
            "Non-trivial = some lookup of the case has >= 2 loaded expressions matching its path; distinct by hash of the input.",
    "anchors": ["internal/x/radixtree/tree.go", "internal/x/radixtree/options.go", "internal/rules/repository_impl.go",
                "internal/rules/rule_impl.go", "internal/rules/route_matcher.go"],
    "trusted": [
        "the Gallina transcription of tree.go (Radix/Tree.v: addNode, splitCommonPrefix, Add, findNode, Find) is tied to the Go code by "
        "the correspondence runs only; static-child priorities (order of children) are omitted; Delete/deleteChild and Clone are not "
        "modelled here (C06/C07)",
        "a failed real Add leaves value-less nodes behind (and may overwrite key names before the constraint refuses); the model returns "
        "the tree unchanged - invisible to lookups by id for constraints that never refuse a value on an empty node (heimdall's does not)",
        "conditions are data in the runs (matchers that do not look at key names/captures: scheme, method, host); the theorems hold for "
        "all matchers; path_params conditions and the captures handed out are C03's observables and are not compared here",
        "every Add carries WithBacktracking (as repository.addRulesTo does); an expression's flag is that of its last accepted Add",
    ],
    "level_text": "Proof (kernel-checked, no axioms), both stages of DESIGN 6/C02: for every sequence of Adds (any expressions, insertion "
                  "order, flags, values constraint), every path and every condition (captures included) the transcribed compressed radix tree "
                  "of tree.go (addNode with prefix splitting, findNode with static/wildcard/catch-all children and backtrack flags) returns "
                  "exactly what the declarative specification says: scan of the matching expressions by specificity (literal < single wildcard "
                  "< free wildcard, position by position), first acceptable value in insertion order, continue only if the failed expression "
                  "allows backtracking (C02_tree_find_is_most_specific, via the pattern-map machine: Add refines the machine's add, findNode "
                  "refines its search on every well-formed tree); lookups are independent of how Adds of different expressions are interleaved; "
                  "wildcards are non-empty, escapes are literals; default rule / no rule at repository level. The pinned behaviour C02-F1 "
                  "(fixed by e897fef) is kept as guarded theorem + refutation witness. The model is tied to radixtree.Tree and rules.repository "
                  "by running both on ~1000 generated indexes / ~16000 lookups per quick run (25000 / 400000 thorough) and comparing every Add "
                  "result and every returned value / rule id with the tree model, the machine and the specification.",
    "level_note": "Trusted: Coq kernel/vm_compute; the hand transcription of tree.go and repository_impl.go into Gallina (checked differentially "
                  "on every run, not verified); the Go drivers and generators (harness/c02) and the rendering into Gallina. Not modelled: "
                  "static-child priorities (order only), Delete/Clone (C06/C07), garbage nodes of failed Adds. Conditions are data in the runs "
                  "(capture-independent matchers); captures/keys are C03's observables. Finding C02-F1 was repaired by fix: commit e897fef; "
                  "its witness stays in the corpus, so a regression is an ordinary VIOLATION (checked by reverting the commit in a scratch worktree).",
    "assumptions": ["lookups never mutate the tree; the drivers use one goroutine",
                    "the repository driver builds ruleImpl/routeImpl values directly (in-package); a rename of their fields breaks the driver, not the property"],
}
