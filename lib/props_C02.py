"""C02 check configuration (see lib/runner.py for the meaning of the keys)."""

_OVERLAY_GEN = {"internal/zzverif/c02gen/gen.go": "c02/gen.go"}

P = {
    "id": "C02",
    "claimed": True,
    "coq_targets": ["Properties/C02.vo", "Run/Eval_C02.vo"],
    "theorems_module": "Properties.C02",
    "theorems": ["C02_find_is_most_specific", "C02_tree_refines_machine", "C02_tree_find_is_most_specific",
                 "C02_pinned_find_is_most_specific", "C02_pinned_tree_find_is_most_specific", "C02_F1_pinned_refuted",
                 "C02_nonvacuous", "C02_order_independent", "C02_answer_is_first_acceptable", "C02_most_specific_wins",
                 "C02_no_backtracking_stops", "C02_backtracking_continues", "C02_match_decides_matches",
                 "C02_parsed_expressions_wellformed", "C02_wildcards_nonempty", "C02_escapes_are_literals",
                 "C02_default_or_norule"],
    "streams": [{
        "name": "tree", "pkg": "./internal/x/radixtree", "test": "TestVerifC02Tree",
        "overlay": dict({"internal/x/radixtree/zz_verif_c02_test.go": "c02/c02_tree_test.go"}, **_OVERLAY_GEN),
        "eval_module": "Run.Eval_C02", "check_term": "check_tree true",
        "n_quick": 600, "n_thorough": 15000, "shard": 60, "findings": {},
    }, {
        "name": "repo", "pkg": "./internal/rules", "test": "TestVerifC02Repo",
        "overlay": dict({"internal/rules/zz_verif_c02_test.go": "c02/c02_repo_test.go"}, **_OVERLAY_GEN),
        "eval_module": "Run.Eval_C02", "check_term": "check_repo true",
        "n_quick": 400, "n_thorough": 10000, "shard": 60, "findings": {},
    }],
    "rule": "a case = one fresh index (stream tree: 1-12 Adds on a real radixtree.Tree with the repository's values constraint "
            "and a WithBacktracking option per Add; stream repo: 1-5 rule sets of real ruleImpl/routeImpl values with real "
            "method matchers loaded by AddRuleSet into a real repository, with/without default rule) + 8-24 lookups. "
            "Expressions over the alphabet a b % : * \\ / (static, :name, :*, *name, **, escaped, empty segments, trailing "
            "slash, malformed), 68% derived from an earlier expression of the same case (same expression again, other key "
            "names, prefix, split inside a token, segment kind swapped, continued differently); random order, flags, "
            "rule-set ids; lookups = instances of loaded expressions (58%), near misses of instances (30%), random paths; "
            "conditions as data (random subset of acceptable ids; in the repo stream method sets through the real matcher). "
            "Non-trivial = some lookup of the case has >= 2 loaded expressions matching its path; distinct by hash of the input.",
    "anchors": ["internal/x/radixtree/tree.go", "internal/x/radixtree/options.go", "internal/rules/repository_impl.go",
                "internal/rules/rule_impl.go", "internal/rules/route_matcher.go"],
    "trusted": [
        "stage 2 is proved for lookups only: findNode of the compressed tree (Radix/Tree.v) on any tree satisfying the shape invariant wfb "
        "is the machine's search on abs(tree) (theorem C02_tree_refines_machine); that addNode/splitCommonPrefix preserve wfb and that "
        "abs of the tree built equals the machine's index is CHECKED on every generated case (tree_ok in Run/Eval_C02.v), not proved; "
        "static-child priorities (order only) and Delete/node merging are not modelled here",
        "conditions are data: matchers that do not look at key names/captures (scheme, method, host); path_params conditions and the "
        "captures handed out are C03's observables and are not compared here",
        "every Add carries WithBacktracking (as repository.addRulesTo does); an expression's flag is that of its last accepted Add",
    ],
    "level_text": "Proof (kernel-checked, no axioms): for every sequence of Adds (any expressions, insertion order, flags, values "
                  "constraint), every path and every condition, the depth-first search of the index model returns exactly what the "
                  "declarative specification says (scan of the matching expressions by specificity, first acceptable value in insertion "
                  "order, continue only if the failed expression allows backtracking), unguarded since fix e897fef (the pinned behaviour "
                  "C02-F1 is kept as guarded theorem + refutation witness); findNode of the compressed tree refines that search on every "
                  "well-formed tree; lookups are independent of how Adds of different expressions are interleaved; wildcards are non-empty, escapes are literals, "
                  "default rule / no rule at repository level. The model is tied to radixtree.Tree and rules.repository by running both "
                  "on ~1000 generated indexes / ~16000 lookups per quick run (25000 / 400000 thorough) and comparing every Add result and "
                  "every returned value / rule id, against the machine (correspondence) and against the specification (property).",
    "level_note": "Stage 1 (pattern-map machine = specification, load invariants, order independence) is proved for all inputs; stage 2 is "
                  "proved for findNode (compressed tree refines the machine on every well-formed tree) while Add's preservation of the tree "
                  "invariant / abstraction is validated per generated case, and Delete is not modelled. Trusted: Coq kernel/vm_compute, the Go "
                  "drivers and generators (harness/c02), rendering into Gallina. Conditions are data (capture-independent matchers); "
                  "captures/keys are C03's. Finding C02-F1 (free-wildcard failure consulted the parent node's flag) was repaired by "
                  "fix: commit e897fef; its witness stays in the corpus, so a regression is an ordinary VIOLATION.",
    "assumptions": ["lookups never mutate the tree; the drivers use one goroutine",
                    "the repository driver builds ruleImpl/routeImpl values directly (in-package); a rename of their fields breaks the driver, not the property"],
}
