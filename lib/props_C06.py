"""C06 check configuration (see lib/runner.py for the meaning of the keys)."""
import os

# which of the repairs of C06-F3/F4/F5 (fix: commits 2d9cd1f, 003095f, f6ce52b; fixes/C06-F3/F4/F5.diff) the tree under
# test contains: a Coq term of type `fixes` (all_fix | no_fix | {| fix_F3 := ..; fix_F4 := ..; fix_F5 := .. |}).
# /repo has all three.  VERIF_C06_FIXES overrides it (e.g. to check a worktree in which one of them is reverted
# against the model of that tree).
_FIXES = os.environ.get("VERIF_C06_FIXES", "all_fix")

P = {
    "id": "C06",
    "claimed": True,
    "coq_targets": ["Properties/C06.vo", "Run/Eval_C06.vo"],
    "theorems_module": "Properties.C06",
    "theorems": ["C06_history_equals_fresh", "C06_history_equals_fresh_any", "C06_lookups_equal_fresh",
                 "C06_delete_cleans", "C06_rejected_iff_cannot_apply", "C06_deleted_never_match",
                 "C06_current_rules_indexed", "C06_same_source_constraint",
                 "C06_F1_refuted", "C06_F2_refuted", "C06_F6_refuted",
                 "C06_F3_pinned_refuted", "C06_F4_pinned_refuted", "C06_F4_pinned_panic", "C06_F5_pinned_refuted",
                 "C06_repaired_examples", "C06_nonvacuous"],
    "streams": [{
        "name": "history", "pkg": "./internal/rules", "test": "TestVerifC06",
        "overlay": {"internal/rules/zz_verif_c06_test.go": "c06/c06_test.go"},
        "eval_module": "Run.Eval_C06", "check_term": "check false (%s)" % _FIXES,
        "n_quick": 1200, "n_thorough": 24000, "shard": 40,
        "findings": {1: "C06-F1", 2: "C06-F2", 3: "C06-F3", 4: "C06-F4", 5: "C06-F5", 6: "C06-F6"},
    }],
    "rule": "histories of 2..25 rule-set creations / updates / deletions over 1..3 sources through the REAL rule-set processor "
            "(OnCreated/OnUpdated/OnDeleted with config.RuleSet values; 5 % of the operations with an unsupported version or a rule "
            "the factory cannot create) into the REAL repository (newRepository, Add/Update/DeleteRuleSet, FindRule; real "
            "ruleImpl/routeImpl with SameAs/EqualTo and the real methodMatcher as route conditions; rule hash = the real "
            "config.Rule.Hash() of the whole rule).  Rule sets are mutated version to version (definition "
            "only / methods / flag / paths added-removed-replaced / rule added anywhere / removed / reordered / unchanged; cross-source "
            "collisions, invalid expressions, escapes, ':' '*' inside segments, varying wildcard names, duplicate paths and ids in "
            "dedicated profiles); after EVERY prefix 10..40 probe requests (instantiations of the expressions in use and near misses, "
            "3 methods) are looked up in the history repository and in a real repository freshly loaded with the sets accepted so far. "
            "Corpus (witnesses of C06-F1..F6 incl. the repaired F3/F4/F5 and the former delNode panic, plain histories) first.  Non-trivial = the history contains an "
            "accepted update that changes the definition of an existing rule; distinct by hash of the generated input",
    "anchors": ["internal/rules/repository_impl.go", "internal/x/radixtree/tree.go",
                "internal/rules/ruleset_processor_impl.go", "internal/rules/rule_impl.go"],
    "trusted": ["the theorems are about the repository over the ABSTRACT index (pattern -> values, flag; no node compression; a node's "
                "wildcard key names are those of its values); tree.go is transcribed function by function into C06/Tree.v "
                "(executable, no proofs) and the agreement tree = abstract index is checked by evaluation on every generated history, "
                "not proved",
                "route conditions are the real methodMatcher (independent of key names and captured values); captures/key names "
                "delivered to conditions are property C03",
                "rule hash modelled by its pre-image (the whole definition); object identity of rules and routes (pointer comparison "
                "in slices.Contains and, since fix 003095f, in the value matcher of removeRulesFrom) is modelled by structural "
                "equality: the same unless two equal rule objects are loaded at once, which needs duplicate ids in a set (C06-F6) or "
                "the creation of an existing set; from the step after that happened in a history (a few percent of the generated ones) "
                "models and implementation are not compared any more, only the implementation's own history-vs-fresh comparison "
                "is evaluated",
                "the rule factory behind the real rule-set processor is a stub that turns a config.Rule into a ruleImpl (id, source, "
                "routes, methods, backtracking flag, hash = the real config.Rule.Hash()); rule_factory_impl.go is property C14",
                "sortStaticChildren/priority left out of the transcription (only permutes children searched by unique first byte)"],
    "level_text": "Proof (kernel-checked, no axioms), by induction over ALL histories of rule-set creations/updates/deletions with an "
                  "invariant relating the known rules and the index to the specification's current rule sets: for the tree as it is "
                  "now (repairs 2d9cd1f, 003095f, f6ce52b of C06-F3/F4/F5), outside the guards of the three open findings, the index "
                  "after the history EQUALS the index of a fresh load of the current sets (hence every lookup, for every path and "
                  "every outcome of the rules' conditions, agrees); a change is rejected iff it cannot be applied (invalid expression / "
                  "incompatible wildcard names / expression owned by another set) and then leaves the state unchanged (the latter "
                  "unconditionally); lookups only return rules of current versions; a node holds rules of one source.  The same "
                  "theorems hold for every combination of the repairs (pinned commit: six guards); every finding has a `_refuted` / "
                  "`_pinned_refuted` witness.  The model is tied to the Go code by running ~1200 (quick) / 24000 (thorough) generated "
                  "histories per run through the real repository and comparing, after every prefix, outcomes and lookups with the "
                  "transcribed tree, with the abstract model and with a freshly built REAL repository (the property stated directly "
                  "on the implementation).",
    "level_note": "Partial in one respect: the theorems are proved for the repository over the abstract pattern-map index; the step from "
                  "the transcribed compressed radix tree (C06/Tree.v) to that index is tested on every run (every generated history), "
                  "not proved.  Open findings (guards in the theorem): C06-F1 changed rule re-appended / reordering ignored, C06-F2 node "
                  "flag = last Add, C06-F6 duplicate rule ids in one set.  Repaired by fix: commits: C06-F3 (delete after a prefix split "
                  "before ':' '*' or an escape), C06-F4 (duplicate path in one rule, incl. a delNode panic), C06-F5 (stale wildcard key "
                  "names); the pinned behaviour is documented by `_pinned_refuted` theorems.  Histories that create an already existing "
                  "rule set are outside the property (not judged).  Trusted: Coq kernel/vm_compute; the harness (generator, ruleImpl "
                  "construction, Gallina rendering).",
    "assumptions": ["the driver's stub factory constructs ruleImpl/routeImpl values directly (in-package): a rename of their fields breaks "
                    "the driver, not the property",
                    "lookups are made without a default rule (FindRule returns ErrNoRuleFound = 'no rule')",
                    "lookups follow tree.go after the fix: commits e897fef (C02-F1), 88da16a (C03-F2), 16cf34b (C03-F5): check term "
                    "`check false`; `check true` is the pinned behaviour (a failed free-wildcard node consults its parent's flag)"],
}
