"""C06 check configuration (see lib/runner.py for the meaning of the keys)."""
import os

# which of the repairs of C06-F3/F4/F5 (fix: commits 2d9cd1f, 003095f, f6ce52b; fixes/C06-F3/F4/F5.diff) the tree under
# test contains: a Coq term of type `fixes` (all_fix | no_fix | {| fix_F3 := ..; fix_F4 := ..; fix_F5 := .. |}).
# /repo has all three.  VERIF_C06_FIXES overrides it (e.g. to check a worktree in which one of them is reverted
# against the model of that tree).
_FIXES = os.environ.get("VERIF_C06_FIXES", "all_fix")
# fix: commit 5e2c60e (fixes/C06-F6.diff: the processor refuses rule sets with a duplicate rule id) is in /repo: "true";
# VERIF_C06_F6=false checks a tree in which it is reverted against the model of that tree
_F6 = os.environ.get("VERIF_C06_F6", "true")

P = {
    "id": "C06",
    "claimed": True,
    "coq_targets": ["Properties/C06.vo", "Run/Eval_C06.vo"],
    "theorems_module": "Properties.C06",
    "theorems": ["C06_history_equals_fresh", "C06_history_equals_fresh_any", "C06_lookups_equal_fresh",
                 "C06_delete_cleans", "C06_rejected_iff_cannot_apply", "C06_deleted_never_match",
                 "C06_current_rules_indexed", "C06_same_source_constraint", "C06_F1_refuted", "C06_F2_refuted",
                 "C06_F3_pinned_refuted", "C06_F4_pinned_refuted", "C06_F4_pinned_panic", "C06_F5_pinned_refuted",
                 "C06_F6_pinned_refuted", "C06_repaired_examples", "C06_nonvacuous", "C06_tree_add_refines",
                 "C06_tree_delete_refines", "C06_radix_delete_refines_machine", "C06_tree_invariant",
                 "C06_tree_refines_index", "C06_tree_history_equals_fresh", "C06_tree_captures_equal_fresh",
                 "C06_tree_never_panics", "C06_tree_prune_merge_example", "C06_F6_repaired_history_equals_fresh",
                 "C06_F6_repaired_rejected_iff_cannot_apply", "C06_F6_repaired_deleted_never_match",
                 "C06_F6_repaired_current_rules_indexed", "C06_F6_repaired_tree_history_equals_fresh",
                 "C06_F6_repaired_lookups_equal_fresh", "C06_F6_repaired_same_source_constraint",
                 "C06_F6_repaired_tree_captures_equal_fresh", "C06_F6_repaired_example"],
    "streams": [{
        "name": "history", "pkg": "./internal/rules", "test": "TestVerifC06",
        "overlay": {"internal/rules/zz_verif_c06_test.go": "c06/c06_test.go"},
        "eval_module": "Run.Eval_C06", "check_term": "check false (%s) %s" % (_FIXES, _F6),
        "n_quick": 1200, "n_thorough": 24000, "shard": 40,
        "findings": {1: "C06-F1", 2: "C06-F2", 3: "C06-F3", 4: "C06-F4", 5: "C06-F5", 6: "C06-F6"},
    }],
    "rule": "histories of 2..26 (a 'big' profile: up to 22 operations on sets of 16..26 rules sharing 2..4 expressions) rule-set "
            "creations / updates / deletions over 1..5 sources through the REAL rule-set processor (OnCreated/OnUpdated/OnDeleted with "
            "config.RuleSet values; 5 % of the operations with an unsupported version or a rule the factory cannot create) into the "
            "REAL repository (newRepository, Add/Update/DeleteRuleSet, FindRule; real ruleImpl/routeImpl with SameAs/EqualTo and the "
            "real methodMatcher as route conditions; rule hash = the real config.Rule.Hash() of the whole rule).  Source ids and rule "
            "ids come from families of prefix-/case-related names (s1, s10, S1, '', file:///rules/a.yaml, ...).  Rule sets are mutated "
            "version to version (one field of the definition only - execute, forward_to, hosts, scheme, allow_encoded_slashes, "
            "on_error, path_params - / methods / flag / paths added-removed-replaced / rule added anywhere / removed / reordered / "
            "unchanged / EMPTY set; deletion of unknown sources; cross-source collisions, invalid expressions, escapes, ':' '*' inside "
            "segments, varying wildcard names, empty / percent-encoded / non-ASCII segments, no leading slash, duplicate paths; "
            "duplicate rule ids (which the processor must refuse) in dedicated profiles); after EVERY prefix 10..40 probe requests (instantiations of the expressions in use and near misses, "
            "3 methods, a quarter of them handed over as URL.RawPath) are looked up in the history repository and in a real repository "
            "freshly loaded with the sets accepted so far; the rule found AND the captures left in the request are observed.  Corpus "
            "(16 cases: witnesses of C06-F1..F6 incl. the repaired F3/F4/F5/F6 and the former delNode panic, plain histories) first.  Non-trivial = "
            "the history contains an accepted update that changes the definition of an existing rule; distinct by hash of the generated input",
    "anchors": ["internal/rules/repository_impl.go", "internal/x/radixtree/tree.go",
                "internal/rules/ruleset_processor_impl.go", "internal/rules/rule_impl.go"],
    "trusted": ["tree.go is transcribed BY HAND, function by function, into C06/Tree.v (addNode, splitCommonPrefix, delNode, "
                "deleteChild, findNode; executable): that the transcription is the Go code is checked by evaluation on every "
                "generated history (accept/reject/crash and lookups after every prefix), not proved.  (The step from the "
                "transcription to the abstract index the main theorems are stated over IS proved, for the tree as it is and every "
                "history: C06_tree_refines_index; the abstract index is still evaluated next to the tree on every run.  C06/Pat.v, a "
                "copy of Radix/Spec.v's expression parser, is proved to be the same function: TreeRefine.parse_expr_cv.)",
                "route conditions are the real methodMatcher (independent of key names and captured values); captures/key names "
                "delivered to conditions are property C03",
                "rule hash modelled by its pre-image (the whole definition); object identity of rules and routes (pointer comparison "
                "in slices.Contains and, since fix 003095f, in the value matcher of removeRulesFrom) is modelled by structural "
                "equality: the same unless two equal rule objects are loaded at once, which (duplicate ids being refused since 5e2c60e) "
                "needs the creation of an existing set; from the step after that happened in a history (re-creations are generated in about 8 % "
                "of the histories) "
                "models and implementation are not compared any more, only the implementation's own history-vs-fresh comparison "
                "is evaluated",
                "the rule factory behind the real rule-set processor is a stub that turns a config.Rule into a ruleImpl (id, source, "
                "routes, methods, backtracking flag, hash = the real config.Rule.Hash()); rule_factory_impl.go is property C14",
                "sortStaticChildren/priority left out of the transcription (only permutes children searched by unique first byte)"],
    "level_text": "Proof (kernel-checked, no axioms), by induction over ALL histories of rule-set creations/updates/deletions with an "
                  "invariant relating the known rules and the index to the specification's current rule sets, kept per source: for the "
                  "tree as it is now (repairs 2d9cd1f, 003095f, f6ce52b, 5e2c60e of C06-F3/F4/F5/F6; main statements: the C06_F6_repaired_* "
                  "theorems about the repository behind the rule-set processor), whenever no source is left in the state the open "
                  "findings C06-F1/F2 leave (`dirty ops = []`; deleting a rule set cleans its source), the index after the history EQUALS "
                  "the index of a fresh load of the current sets (hence every lookup, for every path and every outcome of the rules' "
                  "conditions, finds the same rule).  Also for histories that went through C06-F1/F2: a change is rejected iff it cannot "
                  "be applied (duplicate rule id / invalid expression incl. incompatible wildcard names / expression owned by another set) and then leaves "
                  "the state unchanged; lookups only return rules of current versions; every route of every current rule is indexed (indexed, "
                  "not necessarily reachable: inside C06-F2 a wrong node flag can hide it); a node holds rules of one source "
                  "(C06_F6_repaired_rejected_iff_cannot_apply, _deleted_never_match, _current_rules_indexed, _same_source_constraint).  No hypothesis besides well-formedness (a rule set is created only when it does not "
                  "exist): that rule ids are unique is a consequence of acceptance since the repair of C06-F6.  Every finding has a `_refuted` / `_pinned_refuted` witness.  The model is tied to the Go code by running "
                  "~1200 (quick) / 24000 (thorough) generated histories per run through the real processor+repository and comparing, after "
                  "every prefix, accept/reject/crash and lookups with the transcribed tree and the abstract model; the property predicate "
                  "itself is model-free (accepted iff the specification says so; history repository = freshly built REAL repository, rule "
                  "and captures) and is judged per prefix.  The theorems are carried down to the transcribed COMPRESSED RADIX TREE "
                  "(node compression, prefix splits, deleteChild's pruning and merging, wildcard key names): a tree invariant "
                  "(Radix wfb + the `shape` Delete needs + kind flags = slots) is preserved by Add and Delete, Delete on the tree is "
                  "delete on the abstraction of the tree, and for EVERY history the repository over the tree has the same known rules, "
                  "the same outcome of every operation and the same rule for every lookup as the repository over the abstract index "
                  "(C06_tree_refines_index); hence lookups in the tree after a history = lookups in a freshly loaded tree "
                  "(C06_tree_history_equals_fresh / C06_F6_repaired_tree_history_equals_fresh), and the panic sites the transcription models - "
                  "the delNode slice bound (former C06-F4) and fuel exhaustion - are unreachable for creations/updates/deletions after "
                  "any history (C06_tree_never_panics; lookups, captures and nil dereferences are not covered by it).",
    "level_note": "Partial: (1) the step from the transcribed compressed radix tree (C06/Tree.v) to the abstract index is proved for the "
                  "code as it is now (all_fix) only; for the variant `no_fix` (the tree as it is with the repairs 2d9cd1f / 003095f / f6ce52b of "
                  "C06-F3/F4/F5 reverted - not the pinned commit: the other tree.go repairs 20f92b3, e897fef, 88da16a, 16cf34b are in every "
                  "variant; C06-F3/F5 live in node compression / stale key names) tree and index are related by the `_pinned_refuted` "
                  "witnesses only (`_pinned_refuted` = stated about the variant before the named commit).  Static-child priorities "
                  "(sortStaticChildren) are not in the transcription.  Both sides of the main equation use the same model lookup/add, so "
                  "a wrong lookup is the business of C02/C03 (Radix/TreeProofs.v: findNode = the specification's lookup) and of the "
                  "differential run. "
                  "(2) 'exactly': the rule found, and - for findNode as transcribed WITH key names and captures in Radix/Tree.v, run on "
                  "the tree of C06/Tree.v - also the key names and captured values (C06_tree_captures_equal_fresh); C06/Tree.v's own "
                  "findNode and the C06 stream carry no captures (route conditions = methodMatcher), captures are compared "
                  "history-vs-fresh on the implementation.  (3) The order clause of the statement is refuted (C06-F1), not proved; inside `dirty` only the membership-level "
                  "theorems hold.  `dirty` is sticky under updates: a source hit by C06-F1/F2 stays outside the main theorem until its rule "
                  "set is DELETED; an update, even one replacing every rule, does not bring it back - for a deployment that never deletes "
                  "a rule set the main equation is silent for that source after the first hit.  (4) That a rejected change leaves no trace is true of the model by construction (work on a value); "
                  "clone depth / swap-on-success are covered by the differential run only.  Open findings: C06-F1 changed rule "
                  "re-appended / reordering ignored, C06-F2 node flag = last Add.  Repaired by fix: commits: "
                  "C06-F3, C06-F4 (incl. a delNode panic), C06-F5, C06-F6 (duplicate rule ids; the theorems about the bare repository "
                  "`run` keep the hypothesis `guard_dupid = false`, the C06_F6_repaired_* ones do not need it); pinned behaviour documented by `_pinned_refuted` theorems.  Histories "
                  "that create an already existing rule set are judged up to that step.  Trusted: Coq kernel/vm_compute; the harness "
                  "(generator, stub rule factory, Gallina rendering).",
    "assumptions": ["the driver's stub factory constructs ruleImpl/routeImpl values directly (in-package): a rename of their fields breaks "
                    "the driver, not the property",
                    "lookups are made without a default rule (FindRule returns ErrNoRuleFound = 'no rule')",
                    "compared with the models: the class of an operation's outcome (applied / rejected / crashed), not the error kind or text",
                    "a driver that no longer compiles (renamed ruleImpl field) is reported by lib/runner.py as a broken correspondence stream; "
                    "it should be 'driver broken' (framework change request)",
                    "lookups follow tree.go after the fix: commits e897fef (C02-F1), 88da16a (C03-F2), 16cf34b (C03-F5): check term "
                    "`check false`; `check true` is the behaviour before e897fef (a failed free-wildcard node consults its parent's flag)",
                    "Add follows tree.go after fix: commit 20f92b3 (C03-F3: a free-wildcard path must use the key names registered for its "
                    "node; part of `keys_ok` in the specification's acceptance): there is no switch for it, a tree without it breaks the "
                    "correspondence"],
}
