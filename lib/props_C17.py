"""C17 check configuration (see lib/runner.py for the meaning of the keys).

Order of one run:
  1. regenerate coq/Gen/Effects.v (+ EffectsOk.v) and coq/Gen/Variants.v (how every WithConfig builds the instance it
     returns, harness/tools/effects/variants.go) from VERIF_REPO with harness/tools/effects (go/ssa).  The result
     is cached under out/C17/effects_cache/<sha256> where the hash covers every file the analysis reads: every
     non-test .go file of the repository, go.mod, go.sum, the translator's own sources and `go version` (dependencies
     are pinned by go.mod/go.sum and immutable in the module cache).
  2. if the regenerated table lists a receiver-write effect, `Example effects_read_only` (Gen/EffectsOk.v) no longer
     compiles; if a row of the variant table fails `variant_row_ok` (a field of the returned instance aliases receiver
     memory that is written, is written in place, forgotten, taken from another field, or inherited although a method
     writes it), `Example variants_ok` (Gen/Variants.v) no longer compiles: the check names the offending stores
     (type, method, instruction position) / FIELDS (type, field, why), then runs both streams
     restricted to the affected mechanism types with an escalated budget (deep-hash histories and a -race stress run)
     to turn the broken obligation into a concrete failing input; VIOLATION either way.
  3. otherwise the generic runner: proofs, the "variants" stream, the "race" stream.
"""
import hashlib
import json
import os
import shutil
import subprocess
import sys

import vf
import runner

PID = "C17"
TOOL = os.path.join(vf.HARNESS, "tools", "effects")
CACHE = os.path.join(vf.OUT, PID, "effects_cache")

OVERLAY = {
    "internal/rules/mechanisms/zz_verif_c17_test.go": "c17/c17_test.go",
    "internal/rules/mechanisms/zz_verif_c17_env_test.go": "c17/c17_env_test.go",
    "internal/rules/mechanisms/zz_verif_c17_hash_test.go": "c17/c17_hash_test.go",
    "internal/rules/mechanisms/zz_verif_c17_specs_test.go": "c17/c17_specs_test.go",
}

_state = {}


def _source_hash():
    h = hashlib.sha256()
    files = []
    for root, dirs, names in os.walk(vf.REPO):
        dirs[:] = sorted(d for d in dirs if d not in (".git", "node_modules"))
        for n in sorted(names):
            if (n.endswith(".go") and not n.endswith("_test.go")) or n in ("go.mod", "go.sum", "go.work"):
                files.append(os.path.join(root, n))
    for p in files:
        h.update(os.path.relpath(p, vf.REPO).encode() + b"\0")
        with open(p, "rb") as f:
            h.update(hashlib.sha256(f.read()).digest())
    h.update(_tool_hash().encode())
    rc, o = vf.sh(["go", "version"], env=vf.GOENV, timeout=60)
    h.update(o.encode())
    return h.hexdigest()[:32], len(files)


def _tool_hash():
    """hash of the translator's sources and of its self-test fixture"""
    th = hashlib.sha256()
    for root, dirs, names in os.walk(TOOL):
        dirs.sort()
        for n in sorted(names):
            p = os.path.join(root, n)
            th.update(os.path.relpath(p, TOOL).encode() + b"\0")
            with open(p, "rb") as f:
                th.update(hashlib.sha256(f.read()).digest())
    return th.hexdigest()[:16]


def _tool_binary():
    """build the translator (x/tools v0.29.0 from the module cache); rebuilt when its sources change"""
    d = os.path.join(vf.OUT, PID)
    os.makedirs(d, exist_ok=True)
    binp = os.path.join(d, "effects-" + _tool_hash())
    if not os.path.exists(binp):
        tmp = binp + ".tmp%d" % os.getpid()
        rc, o = vf.sh(["go", "build", "-o", tmp, "."], cwd=TOOL, env=vf.GOENV, timeout=600)
        if rc != 0:
            return None, o
        os.replace(tmp, binp)
        # keep the directory small: older translator binaries (and their self-test markers) are of no use
        olds = sorted((os.path.getmtime(os.path.join(d, x)), x) for x in os.listdir(d)
                      if x.startswith("effects-") and not x.startswith(os.path.basename(binp)) and ".tmp" not in x)
        keep = {x.split(".")[0] for _, x in olds if "." not in x}
        keep = set(sorted(keep, key=lambda b: os.path.getmtime(os.path.join(d, b)))[-2:])
        for _, x in olds:
            if x.split(".")[0] not in keep:
                try:
                    os.remove(os.path.join(d, x))
                except OSError:
                    pass
    return binp, ""


def selftest():
    """run the translator on its fixture (harness/tools/effects/selftest: a miniature module with one seeded
    receiver write per construct — field store, map update through a helper, append into a shared slice, write
    through a closure-captured variable behind a named func type, package variable, embedded pointer, delete,
    copy, interface call, slice handed to sort — and clean types) and compare with selftest/expected.json.
    Cached per translator hash."""
    binp, o = _tool_binary()
    if binp is None:
        return False, "effects translator does not build: " + o[-1500:]
    marker = binp + ".selftest"
    if os.path.exists(marker):
        return True, open(marker).read()
    outp = binp + ".selftest.json"
    rc, o = vf.sh([binp, "-repo", os.path.join(TOOL, "selftest"), "-json", outp], env=vf.GOENV, timeout=300)
    if rc != 0:
        return False, "translator self-test does not run: " + o[-1500:]
    rows = json.load(open(outp))["rows"]
    got = {r["type"] + "." + m["name"]: sorted({e["kind"] for e in (m.get("effects") or [])}) for r in rows for m in r["methods"]}
    exp = json.load(open(os.path.join(TOOL, "selftest", "expected.json")))
    bad = ["%s: expected %s, extracted %s" % (k, sorted(v), got.get(k)) for k, v in sorted(exp.items()) if got.get(k) != sorted(v)]
    if bad:
        return False, "translator self-test FAILED (the effect extraction misses or invents writes): " + "; ".join(bad)
    # second half: the variant table of the fixture (clean construction, aliasing through slices.Clip, a map shared and then
    # mutated, a map shared and filled lazily by Execute, struct copy with an embedded pointer, a memo copied by value, a
    # forgotten field, a field taken from another field, a sub-slice / an element pointer)
    vexp = json.load(open(os.path.join(TOOL, "selftest", "expected_variants.json")))
    vgot = {}
    for r in json.load(open(outp)).get("variants") or []:
        vgot[r["type"]] = {"ok": r["ok"], "self": r["self"],
                           "fields": {f["name"]: {"srcs": [sr["kind"] + ("" if sr["kind"] in ("Fresh", "Zero") else " %d" % sr["p"]) for sr in f["srcs"]],
                                                  "writers": f["writers"]} for f in r["fields"]},
                           "recv_writes": sorted({w["kind"] + " " + w["field"] for w in r["recv_writes"]})}
    vbad = []
    for t, e in sorted(vexp.items()):
        g = vgot.get(t)
        if g is None:
            vbad.append("%s: no row" % t)
            continue
        for k in ("ok", "self", "recv_writes"):
            if g[k] != e[k]:
                vbad.append("%s.%s: expected %s, extracted %s" % (t, k, e[k], g[k]))
        for fn, fe in e["fields"].items():
            if g["fields"].get(fn) != fe:
                vbad.append("%s field %s: expected %s, extracted %s" % (t, fn, fe, g["fields"].get(fn)))
    # both spellings of the shallow merge (maps.Clone + loop / make + maps.Copy twice) must give IDENTICAL rows
    # (false alarm of 2026-10-02, seeded/harmless/C17-r3)
    ca, cb = vgot.get("vMergeCloneAuth"), vgot.get("vMergeCopyAuth")
    if ca is None or cb is None or ca != cb or not ca["ok"]:
        vbad.append("vMergeCloneAuth and vMergeCopyAuth must have identical, passing rows: %s vs %s" % (ca, cb))
    if vbad:
        return False, "translator self-test FAILED (variant table of the fixture): " + "; ".join(vbad)
    msg = "translator self-test: %d fixture methods of the fixture module (seeded writes and clean ones) extracted as expected; variant table of %d fixture types " \
          "(%d fields) as expected" % (len(exp), len(vexp), sum(len(e["fields"]) for e in vexp.values()))
    with open(marker, "w") as f:
        f.write(msg)
    return True, msg


def gen_translator_selftest(rep):
    ok, msg = selftest()
    rep.notes.append(msg)
    return ok, msg


def _install(src, dst):
    """copy only when the content differs, so that an unchanged table does not trigger a rebuild of the proofs"""
    if os.path.exists(dst) and open(dst).read() == open(src).read():
        return False
    tmp = dst + ".tmp"
    shutil.copyfile(src, tmp)
    os.replace(tmp, dst)
    return True


ALT = os.path.realpath(vf.REPO) != os.path.realpath("/repo")
SHARED_LOCK = os.path.join(vf.VERIF, "out", "c17gen.lock")


class _SharedLock:
    """the generated files live in the one shared coq/ tree, whatever VERIF_REPO / out directory a run uses"""

    def __enter__(self):
        import fcntl
        os.makedirs(os.path.dirname(SHARED_LOCK), exist_ok=True)
        self.f = open(SHARED_LOCK, "w")
        fcntl.flock(self.f, fcntl.LOCK_EX)
        return self

    def __exit__(self, *a):
        import fcntl
        fcntl.flock(self.f, fcntl.LOCK_UN)
        self.f.close()


def _table_def(path):
    """the table without the trailing comment (list of whitelisted callees that were met)"""
    if not os.path.exists(path):
        return None
    return open(path).read().split("(* callees without analysed body")[0]


def _same_file(a, b):
    return os.path.exists(a) and os.path.exists(b) and open(a).read() == open(b).read()


def same_as_shared(d):
    return _table_def(os.path.join(d, "Effects.v")) == _table_def(os.path.join(vf.COQ, "Gen", "Effects.v")) and \
        _same_file(os.path.join(d, "EffectsOk.v"), os.path.join(vf.COQ, "Gen", "EffectsOk.v")) and \
        _same_file(os.path.join(d, "Variants.v"), os.path.join(vf.COQ, "Gen", "Variants.v"))


def install_shared(d):
    with _SharedLock():
        ch1 = _install(os.path.join(d, "Effects.v"), os.path.join(vf.COQ, "Gen", "Effects.v"))
        ch2 = _install(os.path.join(d, "EffectsOk.v"), os.path.join(vf.COQ, "Gen", "EffectsOk.v"))
        ch3 = _install(os.path.join(d, "Variants.v"), os.path.join(vf.COQ, "Gen", "Variants.v"))
    return ch1 or ch2 or ch3


def _tool_flags():
    """quick: the module from source, dependencies from export data (default mode of the translator, ~5x less CPU);
    thorough: -full, every dependency type-checked and SSA-built from source (the extra precision is the set of
    types that only dependency code converts to interfaces, see the comment at packages.Load in the translator)"""
    return ["-full"] if _state.get("tier") == "thorough" else []


def regenerate():
    """runs the translator on VERIF_REPO (or finds its result in the cache) and decides where the table goes:

    * run on /repo: coq/Gen/Effects.v and EffectsOk.v are replaced (only when their content differs);
    * run on another checkout (VERIF_REPO): the shared coq/ tree is left alone when the table definition is
      the same as the installed one (the usual case: the change under test does not touch mechanism writes);
      when it differs, the table, its Examples and a copy of the evaluator are compiled privately under
      out/…/altcoq (logical prefix HVP); coq/Gen is never written.  For a different but clean table the
      property theorems are those of the shared tree (C17_for_every_table is proved for every PAIR of tables passing
      `forallb row_ok` / `forallb variant_row_ok`), instantiated by the privately compiled `HVP.EffectsOk.effects_read_only`
      and `HVP.Variants.variants_ok` in `HVP/Props.v` (kernel-checked statement about the private tables).
      The only file a VERIF_REPO run touches outside its own out directory is the lock file out/c17gen.lock.

    returns (ok, message, rows-json or None)"""
    if "regen" in _state:
        return _state["regen"]
    key, nfiles = _source_hash()
    key += "-full" if _tool_flags() else ""
    d = os.path.join(CACHE, key)
    hit = all(os.path.exists(os.path.join(d, n)) for n in ("Effects.v", "EffectsOk.v", "Variants.v", "effects.json"))
    if not hit:
        binp, o = _tool_binary()
        if binp is None:
            res = (False, "effects translator does not build: " + o[-1500:], None)
            _state["regen"] = res
            return res
        tmp = d + ".part%d" % os.getpid()
        os.makedirs(tmp, exist_ok=True)
        rc, o = vf.sh([binp] + _tool_flags() + ["-repo", vf.REPO, "-out", tmp, "-json", os.path.join(tmp, "effects.json")],
                      env=vf.GOENV, timeout=900)
        if rc != 0:
            shutil.rmtree(tmp, ignore_errors=True)
            res = (False, "effects translator failed on %s (rc=%s): %s" % (vf.REPO, rc, o[-2000:]), None)
            _state["regen"] = res
            return res
        shutil.rmtree(d, ignore_errors=True)
        os.replace(tmp, d)
        # keep the cache small
        olds = sorted((os.path.getmtime(os.path.join(CACHE, x)), x) for x in os.listdir(CACHE))
        for _, x in olds[:-8]:
            shutil.rmtree(os.path.join(CACHE, x), ignore_errors=True)
    js = json.load(open(os.path.join(d, "effects.json")))
    rows = js["rows"]
    vrows = js.get("variants") or []
    _state["vrows"] = vrows
    neff = sum(len(m.get("effects") or []) for r in rows for m in r["methods"])
    _state["dir"] = d
    _state["private"] = False
    if ALT and same_as_shared(d):
        where = "table identical to the installed coq/Gen/Effects.v (left untouched)"
    elif ALT:
        # a run on another checkout NEVER writes the shared coq/Gen (audit 2026-10-02: a "different but clean" table of a
        # mutant run had been installed there)
        _state["private"] = True
        where = "table differs from the installed one: compiled privately (HVP.Effects), coq/Gen left untouched"
    else:
        where = "coq/Gen/Effects.v, Variants.v " + ("replaced" if install_shared(d) else "unchanged")
    msg = "effect table regenerated from %s (%d source files, hash %s, %s): %d mechanism types, %d methods, %d write effects; " \
          "variant table: %d types, %d construct an instance in WithConfig, %d fields, %d rows failing variant_row_ok; %s" % (
        vf.REPO, nfiles, key[:12], "cache hit" if hit else "translator run", len(rows),
        sum(len(r["methods"]) for r in rows), neff, len(vrows), sum(1 for r in vrows if r["results"] > 0),
        sum(len(r["fields"]) for r in vrows), sum(1 for r in vrows if not r["ok"]), where)
    res = (True, msg, rows)
    _state["regen"] = res
    return res


def private_build(d):
    """compile the regenerated table, its Example and the evaluator under the logical prefix HVP in
    out/…/C17/altcoq/HVP.  Returns (example_ok, eval_ok, log)"""
    root = os.path.join(vf.OUT, PID, "altcoq")
    pdir = os.path.join(root, "HVP")
    shutil.rmtree(root, ignore_errors=True)
    os.makedirs(pdir)
    shutil.copyfile(os.path.join(d, "Effects.v"), os.path.join(pdir, "Effects.v"))
    okv = open(os.path.join(d, "EffectsOk.v")).read().replace(
        "From HV Require Import Base.Prelude C17.Model Gen.Effects.",
        "From HV Require Import Base.Prelude C17.Model.\nFrom HVP Require Import Effects.")
    open(os.path.join(pdir, "EffectsOk.v"), "w").write(okv)
    ev = open(os.path.join(vf.COQ, "Run", "Eval_C17.v")).read().replace(
        "From HV Require Export Base.Prelude C17.Model Gen.Effects.",
        "From HV Require Export Base.Prelude C17.Model.\nFrom HVP Require Export Effects.")
    open(os.path.join(pdir, "Eval.v"), "w").write(ev)
    vv = open(os.path.join(d, "Variants.v")).read().replace(
        "From HV Require Import Base.Prelude C17.Model C17.VModel Gen.Effects.",
        "From HV Require Import Base.Prelude C17.Model C17.VModel.\nFrom HVP Require Import Effects.")
    open(os.path.join(pdir, "Variants.v"), "w").write(vv)
    # a kernel-checked statement about the PRIVATE tables: the general theorem instantiated with them
    open(os.path.join(pdir, "Props.v"), "w").write(
        "From HV Require Import Base.Prelude C17.Model C17.Proofs C17.VModel C17.VProofs Properties.C17.\n"
        "From HVP Require Import Effects EffectsOk Variants.\n"
        "Definition private_tables_meet_C17 :=\n"
        "  C17_for_every_table HVP.Effects.generated_table HVP.Variants.generated_variants\n"
        "    HVP.EffectsOk.effects_read_only HVP.Variants.variants_ok.\n"
        "Definition private_tables_locality :=\n"
        "  C17_locality_from_variant_table HVP.Effects.generated_table HVP.Variants.generated_variants HVP.Variants.variants_ok.\n"
        "Check private_tables_meet_C17.\nPrint Assumptions private_tables_meet_C17.\n")
    okm, o = vf.coq_make(["C17/Model.vo", "C17/VModel.vo"])
    log = "" if okm else o[-1500:]
    res = {}
    for n in ("Effects", "EffectsOk", "Variants", "Eval"):
        rc, o = vf.sh(["coqc", "-Q", vf.COQ, "HV", "-Q", pdir, "HVP", "-w", "-notation-overridden", n + ".v"], cwd=pdir, timeout=900)
        res[n] = rc == 0
        if rc != 0:
            log += "\n%s.v: %s" % (n, o[-1200:])
    os.environ["COQPATH"] = root + (":" + os.environ["COQPATH"] if os.environ.get("COQPATH") else "")
    _state["private_examples"] = {"effects_read_only": res["Effects"] and res["EffectsOk"], "variants_ok": res["Effects"] and res["Variants"]}
    okp = True
    if res["Effects"] and res["EffectsOk"] and res["Variants"]:
        # (needs the shared Properties/C17.vo; only attempted when the private Examples hold)
        okq, o = vf.coq_make(["Properties/C17.vo"])
        rc, o2 = vf.sh(["coqc", "-Q", vf.COQ, "HV", "-Q", pdir, "HVP", "-w", "-notation-overridden", "Props.v"], cwd=pdir, timeout=900)
        okp = okq and rc == 0 and "Closed under the global context" in o2
        if not okp:
            log += "\nProps.v: %s" % ((o if not okq else o2)[-1200:])
    return res["Effects"] and res["EffectsOk"] and res["Variants"] and okp, res["Effects"] and res["Eval"], log


def spec_types():
    """Go struct names the driver has generators (and a corpus case) for"""
    import re
    src = open(os.path.join(vf.HARNESS, "c17", "c17_specs_test.go")).read()
    return sorted(set(re.findall(r'goType: "(\w+)"', src)))


def gen_effects_table(rep):
    ok, msg, rows = regenerate()
    rep.notes.append(msg)
    if ok and rows is not None:
        have, want = set(spec_types()), {r["type"] for r in rows}
        if have != want:
            # not a violation of the property, but the streams do not cover what the table (and the theorems) cover
            m2 = "COVERAGE GAP: mechanism types in the effect table without generators/corpus case in the driver: %s; " \
                 "driver specs without table row: %s" % (sorted(want - have) or "-", sorted(have - want) or "-")
            rep.notes.append(m2)
            print("C17: " + m2)
            return False, m2
    return ok, msg


def offending(rows):
    """receiver-write effects of the regenerated table: [(type, method, effect)]"""
    out = []
    for r in rows or []:
        for m in r["methods"]:
            for e in m.get("effects") or []:
                out.append({"pkg": r["pkg"], "type": r["type"], "method": m["name"], "kind": e["kind"], "in_function": e["fn"],
                            "target": e["detail"], "position": e["pos"], "call_path": e.get("path") or []})
    return out


def offending_variants(vrows):
    """rows of the regenerated variant table that fail variant_row_ok: [(pkg, type, reasons naming the fields)]"""
    return [{"pkg": r["pkg"], "type": r["type"], "why": r["bad"],
             "fields": [f for f in r["fields"] if any(("field %s " % f["name"]) in b or ("field %s:" % f["name"]) in b for b in r["bad"])],
             "recv_writes": r["recv_writes"]} for r in vrows or [] if not r["ok"]]


def _prefetch(P, tier, seed):
    """the Go side of the streams does not depend on the effect table: build and run both drivers in the
    background while the translator runs and the proofs build.  Returns (results, threads)."""
    import threading
    res, threads = {}, []
    ov = vf.overlay_for(PID, OVERLAY)  # written once, before any `go` process reads it
    for st in P["streams"]:
        n = st["n_quick"] if tier == "quick" else st["n_thorough"]

        def work(st=st, n=n):
            env = {"VERIF_SEED": seed, "VERIF_N": n, "VERIF_TIER": tier}
            env.update(st.get("env", {}))
            rc, out, obs_path = vf.go_run_driver(PID, st["pkg"], st["test"], ov, env=env, race=st.get("race", False),
                                                 timeout=st.get("timeout", 1800), tag=st["name"])
            res[(st["name"], tier, seed, n)] = (rc, out, vf.read_obs(obs_path))

        th = threading.Thread(target=work, daemon=True)
        th.start()
        threads.append(th)
    return res, threads


def custom(P, tier, seed, replay):
    _state["tier"] = tier
    pre, threads = ({}, [])
    if not replay and not os.environ.get("VERIF_C17_SERIAL"):
        pre, threads = _prefetch(P, tier, seed)
    ok, msg, rows = regenerate()
    bad = offending(rows) if ok else []
    vbad = offending_variants(_state.get("vrows")) if ok else []
    priv_note = None
    if ok and not bad and not vbad and _state.get("private"):
        okc, oke, plog = private_build(_state["dir"])
        if not (okc and oke):
            rep = vf.Report(PID, tier, seed)
            rep.notes += [msg, plog]
            rep.obligation("example:HVP.EffectsOk / HVP.Variants (private build of the regenerated tables)", False)
            rep.violation({"kind": "proof-obligation-broken", "example": "effects_read_only / table_covers_mechanisms / variants_ok / variants_aligned / evaluator against the tables regenerated from " + vf.REPO,
                           "log": plog, "theorems": P["theorems"]}, no_input=True)
            for th in threads:
                th.join()
            return rep.finish({"evaluations": 0, "distinct_nontrivial": 0, "rule": P["rule"], "exhaustive": False},
                              vf.TRUSTED_COMMON + P["trusted"], "coqc (private) HVP.Effects HVP.EffectsOk HVP.Variants HVP.Eval", P["assumptions"])
        priv_note = "private tables: HVP.EffectsOk.effects_read_only, table_covers_mechanisms, HVP.Variants.variants_ok / variants_aligned / variants_cover " \
                    "compiled; HVP.Props.private_tables_meet_C17 (= C17_for_every_table instantiated with the private tables and their Examples) " \
                    "kernel-checked, closed; streams evaluated with HVP.Eval; the other theorem obligations are the shared ones"
    if ok and not bad and not vbad:
        orig = runner.run_stream
        orig_eval = runner.evaluate
        orig_gens = P["generators"]
        if priv_note:
            def evaluate(pid, st, obs):
                terms = [o["coq"] for o in obs]
                if not terms:
                    return {}, 0, 0, "no cases"
                return vf.eval_cases(pid, "C17.Model", st["check_term"], terms, shard_size=st.get("shard", 400),
                                     extra_imports="From HVP Require Import Eval.")
            runner.evaluate = evaluate

            def gen_private_table(rep):
                rep.notes.append(priv_note)
                return True, priv_note
            P["generators"] = orig_gens + [gen_private_table]

        def run_stream(pid, st, tier_, seed_, n, only=None, tag=None):
            k = (st["name"], tier_, seed_, n)
            if only is None and tag is None and threads:
                for th in threads:
                    th.join()
                if k in pre:
                    return pre.pop(k)
            return orig(pid, st, tier_, seed_, n, only=only, tag=tag)

        runner.run_stream = run_stream
        try:
            return runner.run_property(P, tier, seed, replay)
        finally:
            runner.run_stream = orig
            runner.evaluate = orig_eval
            P["generators"] = orig_gens
    for th in threads:
        th.join()
    if not ok:
        rep = vf.Report(PID, tier, seed)
        rep.obligation("generate:gen_effects_table", False)
        rep.notes.append(msg)
        rep.violation({"kind": "effect-table-not-regenerated", "why": msg, "theorems": P["theorems"]}, no_input=True)
        return rep.finish({"evaluations": 0, "distinct_nontrivial": 0, "rule": P["rule"], "exhaustive": False},
                          vf.TRUSTED_COMMON + P["trusted"], "harness/tools/effects -repo " + vf.REPO, P["assumptions"])

    # ---- the regenerated effect table lists receiver writes and / or a row of the variant table fails variant_row_ok
    private = _state.get("private", False)
    if private:
        okc, oke, plog = private_build(_state["dir"])
        ex = _state.get("private_examples", {})
        ok_eff, ok_var = ex.get("effects_read_only", False), ex.get("variants_ok", False)
        # (if the kernel accepted the tables although the JSON lists offenders the obligations below would be wrong; the
        #  Examples are the authority, so say so and stop)
        if okc:
            rep = vf.Report(PID, tier, seed)
            rep.notes.append("inconsistent: effects.json lists writes / rows failing variant_row_ok but HVP.EffectsOk and HVP.Variants compile; " + msg)
            rep.violation({"kind": "translator-inconsistent", "why": rep.notes[-1]}, no_input=True)
            return rep.finish({"evaluations": 0, "distinct_nontrivial": 0, "rule": P["rule"], "exhaustive": False},
                              vf.TRUSTED_COMMON + P["trusted"], "coqc (private)", P["assumptions"])
    else:
        ok_eff, out = vf.coq_make(["Gen/EffectsOk.vo"])
        ok_var, outv = vf.coq_make(["Gen/Variants.vo"])
        if ok_eff and ok_var:
            return runner.run_property(P, tier, seed, replay)
        oke, plog = vf.coq_make(["Run/Eval_C17.vo"])
        plog = plog[-1500:]
    rep = vf.Report(PID, tier, seed)
    oks, msgs = selftest()
    rep.obligation("generate:gen_translator_selftest", oks)
    rep.notes.append(msgs)
    rep.notes.append(msg)
    rep.obligation("generate:gen_effects_table", True)
    rep.obligation("example:Gen.EffectsOk.effects_read_only", bool(ok_eff))
    rep.obligation("example:Gen.Variants.variants_ok", bool(ok_var))
    for t in P["theorems"]:
        rep.obligation("theorem:" + t, False)
    types = sorted({b["type"] for b in bad} | {v["type"] for v in vbad})
    meths = sorted({b["type"] + "." + b["method"] for b in bad})
    stores = sorted({(b["kind"], b["in_function"], b["target"], b["position"]) for b in bad})
    if bad:
        print("C17: `Example effects_read_only` (coq/Gen/EffectsOk.v) does not hold for the table regenerated from %s" % vf.REPO)
    for k, fn, tgt, pos in stores[:12]:
        users = sorted({b["type"] + "." + b["method"] for b in bad if b["position"] == pos})
        print("  receiver write: %s %s in %s at %s  (reached from %s)" % (k, tgt, fn, pos, ", ".join(users[:6]) + (" ..." if len(users) > 6 else "")))
    if bad:
        rep.notes.append("effects_read_only fails: %d receiver-write effects in %d methods of %s" % (len(bad), len(meths), ", ".join(sorted({b["type"] for b in bad}))))
    if vbad:
        print("C17: `Example variants_ok` (coq/Gen/Variants.v) does not hold for the variant table regenerated from %s" % vf.REPO)
        for v in vbad[:8]:
            for w in v["why"][:6]:
                print("  %s.%s WithConfig: %s" % (v["pkg"], v["type"], w[:420]))
        rep.notes.append("variants_ok fails: %s" % "; ".join("%s (%s)" % (v["type"], ", ".join(sorted({f["name"] for f in v["fields"]})) or "receiver written") for v in vbad))
    cmds = ["harness/tools/effects -repo %s" % vf.REPO, "coqc EffectsOk.v (%s) Variants.v (%s)" % ("ok" if ok_eff else "fails", "ok" if ok_var else "fails") +
            (" [private build, prefix HVP]" if private else "")]
    all_obs = []
    if not oke:
        rep.notes.append("the evaluator (Run/Eval_C17) does not build against the regenerated table: " + plog)
    else:
        for st in P["streams"]:
            st = dict(st)
            st["env"] = dict(st.get("env", {}), VERIF_C17_TYPES=",".join(types))
            n = (st["n_quick"] if tier == "quick" else st["n_thorough"]) * (2 if st["name"] == "race" else 1)
            rc, o, obs = runner.run_stream(PID, st, tier, seed, n, tag=st["name"] + "_focus")
            cmds.append("driver %s VERIF_C17_TYPES=%s VERIF_N=%d%s" % (st["test"], ",".join(types), n, " (-race)" if st.get("race") else ""))
            if rc != 0 and not obs:
                rep.notes.append("focused stream %s failed rc=%s: %s" % (st["name"], rc, o[-1500:]))
                rep.obligation("stream:" + st["name"], False)
                continue
            if private:
                rowsv, shards, shards_ok, elog = vf.eval_cases(PID, "C17.Model", st["check_term"], [ob["coq"] for ob in obs],
                                                               shard_size=st.get("shard", 400), extra_imports="From HVP Require Import Eval.")
            else:
                rowsv, shards, shards_ok, elog = runner.evaluate(PID, st, obs)
            if shards_ok != shards:
                rep.notes.append("focused stream %s: evaluation failed: %s" % (st["name"], elog[-1500:]))
                rep.obligation("stream:" + st["name"], False)
                continue
            before = len(rep.violations)
            cfpo, nviol = vf.classify_stream(rep, obs, rowsv, {}, st["name"])
            # attach the offending stores to the replay files of this stream
            for p, _ in rep.violations[before:]:
                c = json.load(open(p))
                c["stream_name"] = st["name"]
                c["effect_table"] = {"example": "Gen.EffectsOk.effects_read_only", "receiver_writes": bad[:40]}
                c["variant_table"] = {"example": "Gen.Variants.variants_ok", "rows_failing_variant_row_ok": vbad[:10]}
                json.dump(c, open(p, "w"), indent=1, default=str)
            rep.obligation("stream:" + st["name"], nviol == 0 and not cfpo)
            rep.notes.append("focused stream %s on %s: %d cases, %d property failures" % (st["name"], ",".join(types), len(obs), nviol))
            for ob in obs:
                ob["stream"] = st["name"] + "/" + (ob.get("stream") or "")
            all_obs += obs
    if not rep.violations:
        rep.violation({"kind": "proof-obligation-broken",
                       "example": " / ".join(([] if ok_eff else ["Gen.EffectsOk.effects_read_only (coq/Gen/EffectsOk.v)"]) +
                                             ([] if ok_var else ["Gen.Variants.variants_ok (coq/Gen/Variants.v)"])),
                       "receiver_writes": bad[:40], "rows_failing_variant_row_ok": vbad[:10], "mechanism_types": types,
                       "searched": "deep-hash histories and -race stress run restricted to these types found no failing input",
                       "theorems": P["theorems"]}, no_input=True)
    cov = {"evaluations": len(all_obs), "distinct_nontrivial": vf.distinct_nontrivial(all_obs), "rule": P["rule"],
           "samples": vf.sample(all_obs, 3), "input_distribution": vf.histogram(all_obs), "theorems": {},
           "source_fingerprint": vf.fingerprint(P.get("anchors", [])), "exhaustive": False,
           "effect_table": {"receiver_writes": bad[:60]}, "variant_table": {"rows_failing_variant_row_ok": vbad[:20]}}
    return rep.finish(cov, vf.TRUSTED_COMMON + P["trusted"], " ; ".join(cmds), P["assumptions"])


def extra_coverage():
    ok, msg, rows = _state.get("regen", (False, "", None))
    if not rows:
        return {}
    return {"effect_table": {"mechanism_types": len(rows), "methods": sum(len(r["methods"]) for r in rows),
                             "function_contexts_analysed": sum(m.get("reach", 0) for r in rows for m in r["methods"]),
                             "receiver_writes": offending(rows)[:20], "generated_from": vf.REPO},
            "variant_table": _variant_summary(_state.get("vrows") or [])}


def _variant_summary(vrows):
    kinds = {}
    for r in vrows:
        for f in r["fields"]:
            for sr in f["srcs"]:
                kinds[sr["kind"]] = kinds.get(sr["kind"], 0) + 1
    return {"mechanism_types": len(vrows), "constructing_an_instance": sum(1 for r in vrows if r["results"] > 0),
            "returning_the_receiver_on_some_path": sum(1 for r in vrows if r["self"]),
            "fields": sum(len(r["fields"]) for r in vrows), "sources_by_kind": kinds,
            "fields_with_writers": sum(1 for r in vrows for f in r["fields"] if f["writers"]),
            "rows_failing_variant_row_ok": offending_variants(vrows)[:10]}


def _anchors():
    """the anchored files of properties.jsonl: factory, repository, every non-test source of the five mechanism packages,
    metadata endpoint, values, endpoint (globs expanded against VERIF_REPO, for the source fingerprint)"""
    import glob
    out = ["internal/rules/mechanisms/mechanism_factory.go", "internal/rules/mechanisms/mechanism_repository.go",
           "internal/rules/mechanisms/oauth2/metadata_endpoint.go", "internal/rules/mechanisms/values/values.go",
           "internal/rules/endpoint/endpoint.go"]
    for pkg in ("authenticators", "authorizers", "contextualizers", "finalizers", "errorhandlers"):
        for f in sorted(glob.glob(os.path.join(vf.REPO, "internal/rules/mechanisms", pkg, "*.go"))):
            if not f.endswith("_test.go"):
                out.append(os.path.relpath(f, vf.REPO))
    return out


P = {
    "id": PID,
    "claimed": True,
    "coq_targets": ["Gen/EffectsOk.vo", "Gen/Variants.vo", "Properties/C17.vo", "Run/Eval_C17.vo"],
    "theorems_module": "Properties.C17",
    "theorems": ["C17_store_unchanged", "C17_race_free", "C17_calls_read_only", "C17_overrides_local", "C17_order_independent",
                 "C17_for_every_table", "C17_locality_from_variant_table", "C17_writes_stay_local", "C17_variant_views_agree",
                 "C17_sequential_runs_meet_spec", "C17_F1_pinned_refuted", "C17_variant_check_refutes_M2",
                 "C17_variant_check_refutes_seeded_9", "C17_nonvacuous", "C17_hypotheses_satisfiable_today",
                 "C17_table_covers_mechanisms"],
    "generators": [gen_translator_selftest, gen_effects_table],
    "custom": custom,
    "extra_coverage": extra_coverage,
    "streams": [{
        "name": "variants", "pkg": "./internal/rules/mechanisms", "test": "TestVerifC17", "overlay": OVERLAY,
        "eval_module": "Run.Eval_C17", "check_term": "check", "n_quick": 800, "n_thorough": 12000, "shard": 100,
        "findings": {},
    }, {
        "name": "race", "pkg": "./internal/rules/mechanisms", "test": "TestVerifC17Race", "overlay": OVERLAY,
        "eval_module": "Run.Eval_C17", "check_term": "check_race", "n_quick": 200, "n_thorough": 2400, "shard": 400,
        "findings": {}, "race": True, "escalate": False,
    }],
    "rule": "stream variants: catalogue of 1-2 prototypes of one of the 19 mechanism types (weighted to those with maps/slices/endpoints; "
            "one endpoint in eight answers 401/500; api_key in header/cookie/query, basic_auth) loaded through the real NewMechanismFactory, a set "
            "of k<=4 rule-level overrides (valid, empty, malformed) created through the real factory in ALL k! orders (one case per order), some "
            "variants of variants, interleaved with Execute / accessor calls on every instance against in-memory identity-provider/API endpoints, and "
            "'rule A then rule B on ONE shared real cache' pairs.  Observation after every operation = reflection deep-hash per field of every "
            "instance (changes only; fields that differ between two fresh loads are blanked) + behaviour digest (accessors, error kind, subject, "
            "upstream headers/cookies, outputs, cache TTLs, requests sent); for the shared-cache pairs the outcome of B.  REFERENCE for 'catalogue + own "
            "overrides': a second catalogue whose prototype is configured with merge(catalogue config, overrides) — built by the constructor, not by "
            "WithConfig (merge rules: option replaces; assertions/values entry-wise; see c17Merge); only if that does not load, the same chain on a fresh "
            "catalogue.  Shared-cache pairs are skipped for endpoints called with GET + body + http_cache (HTTP caches key by method+URL).  One fixed "
            "corpus case per mechanism type and the two C17-F1 witnesses run first.  Non-trivial = at least one accepted variant and one execution after "
            "it; distinct by hash of the generated input.  stream race: the same contents, 16 goroutines executing prototype and variants (half the cases "
            "on a shared real cache) while variants are created and the registered key-store reload listeners (OnChanged) are fired, under the race "
            "detector, child process per batch; observation = race reports / runtime crash (a crash that is neither a race nor a concurrent map access is "
            "reported only if it repeats) / changed hashes.",
    "anchors": _anchors(),
    "trusted": [
        "soundness of the go/ssa effect extraction (harness/tools/effects): flow-insensitive taint analysis over static callees, "
        "class-hierarchy-resolved interface calls and closures; taints: receiver-derived, package-level (module variables except sentinel "
        "errors and funcs); calls into code outside the module with such arguments count as writes unless whitelisted with a written reason "
        "(list printed at the end of coq/Gen/Effects.v); destination arguments of whitelisted callees (Unmarshal/Decode/errors.As/ReadFull/"
        "Fprint/Append…) and in-place std generics always count; dependencies are loaded from export data in the quick tier",
        "soundness of the variant extraction (harness/tools/effects/variants.go): abstract interpretation of WithConfig and of the module "
        "functions it calls (constructors, Merge helpers, generic IfThenElse/IfThenElseExec, closures with the bindings they were created "
        "with) over go/ssa, flow-insensitive, one abstract object per allocation site, struct values as per-field trees; code without "
        "analysed body by contract (std slices/maps by the stdGenerics table; whitelisted read-only callees return fresh memory that may "
        "refer to their arguments; anything else receiving receiver memory is a receiver write whose result may alias); values passed "
        "through channels, reflection or unsafe are not followed; the override map handed to WithConfig counts as fresh; which methods "
        "write a field is decided by type reachability from the field's type (unexported fields of other modules' structs are not followed)",
        "the merge rules of c17Merge (harness) as the implementation-independent meaning of 'catalogue configuration overlaid with own overrides'",
        "the store-of-cells abstraction: a mechanism is a record of one cell per field (leaf of the struct, value structs of the module "
        "flattened), WithConfig shares, copies, overwrites or allocates whole cells as the variant table says, a call's accesses are atomic "
        "reads/writes of cells (Go memory model: race = two conflicting unsynchronised accesses); in the model the override of a field IS "
        "the value the code builds for it — that the built value is the right one is checked by the variants stream, not proved",
        "reflection deep-hash: variables captured by closures, memory behind unsafe.Pointer and spare slice capacity are not visible; sync/atomic state, "
        "protobuf descriptors, cel-go environments and text/template function tables are hashed as opaque",
        "libraries used read-only by Execute (text/template, cel-go, regexp, go-jose, x509, strings.Replacer) are safe for concurrent use as documented",
    ],
    "assumptions": [
        "mechanism methods are entered only through Execute / WithConfig / the accessors of the method set (what the rule factory and the pipeline call)",
        "the driver is in package mechanisms and reaches NewMechanismFactory, mechanismsFactory and the config structs; a rename there breaks the driver, not the property",
        "`vcatalogue_ok` (all main theorems): the loaded catalogue has one existing cell per field of its type's row; `cat_separate` (the two "
        "locality theorems only): no prototype shares the memory of a field some method writes with a field nobody writes, of any prototype.  "
        "Both are hypotheses about the CONSTRUCTORS, which neither table analyses (only the streams' deep-hash would notice); `cat_separate` is "
        "vacuously true today (the variant table has 0 fields with writers)",
    ],
    "level_text": "Proof (kernel-checked, no axioms) over a store-of-cells model in which NOTHING about WithConfig is assumed: a variant is "
                  "built from the row of a VARIANT TABLE (per field: the receiver's field shared / copied, fresh, fresh but computed from a "
                  "receiver field, possibly sharing memory with one — then overridden in place —, or forgotten; plus the methods that write the "
                  "field).  For EVERY effect table passing `forallb row_ok` and EVERY variant table passing `forallb variant_row_ok`, and every "
                  "interleaving of executions, accessor calls and WithConfig calls: no cell that existed is written, no two accesses conflict, "
                  "every instance shows its prototype's catalogue configuration overlaid with its own overrides, independent of history "
                  "(C17_for_every_table); and from the variant table plus separation of the catalogue's cells (`cat_separate`: a hypothesis about "
                  "the constructors, trivially true for today's table, which has no written field), for methods that write only the fields the "
                  "table lists for them (`vf_writers`, trusted extraction; the semantics confines writes to them): every field nobody writes keeps "
                  "exactly that value in every instance and no write ever hits such a field (C17_locality_from_variant_table, "
                  "C17_writes_stay_local).  This "
                  "reduces the property to TWO facts about heimdall, both REGENERATED from the current source by harness/tools/effects and checked "
                  "by vm_compute: `effects_read_only` (go/ssa taint analysis: no method writes receiver memory; self-tested on 47 fixture "
                  "methods: 33 with a seeded write, 14 clean ones that must stay silent) and `variants_ok` (go/ssa abstract interpretation of the "
                  "WithConfig of all 19 mechanism types of today's tree — 13 construct an instance, 6 only return the receiver or an error — and the "
                  "constructors / Merge helpers / closures they call: 102 fields; the theorem C17_table_covers_mechanisms only demands >= 10 types / "
                  ">= 10 constructing rows, and the generator gen_effects_table fails when the table's types differ from the driver's specs; self-tested on 13 fixture types: slices.Clip aliasing, shared-then-mutated and lazily filled maps, "
                  "struct copy with embedded pointer, copied memo, forgotten / swapped / never-set field, sub-slice, and every "
                  "spelling of the shallow element-wise copy — Clone, make + maps.Copy, copy(), append onto fresh, Insert, Concat, loop — "
                  "which must all give `fresh container, elements shared`).  That the VALUE built for an overridden "
                  "field is the right one is CHECKED, not proved: ~800 (quick) / 12000 (thorough) histories on the real mechanisms in all creation "
                  "orders compare every variant, field by field and in behaviour, with a prototype that the constructor builds from the merged "
                  "configuration, and rule-B-after-rule-A on a shared cache with rule B alone; a 16-goroutine -race stream with key-store reloads "
                  "covers all 19 mechanism types.",
    "level_note": "PARTIAL: soundness of the two SSA extractions is trusted (both over-approximate; callees outside the module that receive "
                  "receiver-derived or package-level pointers count as writes unless whitelisted with a reason, whitelisted callees still count "
                  "for their destination arguments, and their results count as referring to their arguments; the variant extraction does not "
                  "follow channels / reflection / unsafe and treats the override map as fresh).  The theorems speak about cells = struct fields: "
                  "that a field the table calls Fresh holds the value the override prescribes is established by the differential stream only.  Under "
                  "`forallb row_ok` the model has no write step at all (`writes_allowed` forces ws = []): C17_race_free, C17_calls_read_only, "
                  "C17_store_unchanged state that a system without writes has no races and changes nothing; their whole content about heimdall is "
                  "`effects_read_only` + `variants_ok`, i.e. the two trusted extractions.  The evaluator still executes the simple make_variant "
                  "model and imports only Gen.Effects (generated_variants is never consulted by the streams); it is proved to show the same view as "
                  "the table-driven build for each SINGLE WithConfig from the same store (C17_variant_views_agree); agreement over whole histories "
                  "is not proved (it follows informally because neither model has a write step under the checks).  The two locality theorems are a "
                  "robustness result for future tables with written fields; no passing run exercises them (today 0 fields have writers, and a tree "
                  "with a writer fails effects_read_only first).  Not covered by tables or model: writers outside the method set (goroutines started by constructors, "
                  "OnChanged reload — the latter is exercised by the race stream only), the rule factory (the driver calls the mechanism factory "
                  "the rule factory calls).  A correctly synchronised memo (sync.Once / mutex / atomic in a mechanism) is reported as a write: the "
                  "check enforces 'immutable', not merely 'race free' (the locality theorem alone would tolerate a memo that WithConfig rebuilds). "
                  "Trusted further: Coq kernel/vm_compute; the cell abstraction of Go memory; the harness (reflection deep-hash with the stated "
                  "opaque types and without closure captures / spare slice capacity; in-memory endpoints; the merge rules of c17Merge as "
                  "transcription of the documented override semantics); documented thread-safety of text/template, cel-go, regexp, go-jose, "
                  "x509, strings.Replacer.  Finding C17-F1 was repaired by fix: commit 13721c3 (C17_F1_pinned_refuted documents the pinned behaviour; "
                  "C17_variant_check_refutes_M2 / _seeded_9 document what the variant check rejects, on rows reduced by hand to two fields; none says "
                  "anything about today's tree; C17_hypotheses_satisfiable_today gives the main theorems' hypotheses a witness on today's tables).",
    "technique": "generated effect summary and generated WithConfig variant table (go/ssa) + invariant proofs over interleavings + differential deep-hash/race correspondence",
}
