(** C10 — requests under different rules (different ttl states) against one cache:
    "a configured cache TTL can only shorten these lifetimes", read per request:
    whatever a request is answered with from cache (i) is within the payload's own
    lifetime, whichever rule stored it, and (ii) is not older than the ttl in force
    for THAT request -- (ii) only where the cache key contains the ttl (remote
    authorizer, contextualizer, jwt finalizer; the authenticators and client
    credentials after the repair of C10-F5). *)
From HV Require Import Base.Prelude Base.Time C10.Model C10.Proofs.
Open Scope Z_scope.

Lemma oz_eqb_spec a b : oz_eqb a b = true <-> a = b.
Proof.
  unfold oz_eqb, option_eqb. destruct a, b; split; intro H; try discriminate; try reflexivity.
  - f_equal. lia.
  - inversion H. lia.
Qed.

Lemma oz_eqb_refl a : oz_eqb a a = true.
Proof. apply oz_eqb_spec. reflexivity. Qed.

Lemma nget_nset_same n c cs : nget n (nset n c cs) = c.
Proof.
  induction cs as [|[n' c'] r IH]; simpl; [rewrite oz_eqb_refl; reflexivity|].
  destruct (oz_eqb n' n) eqn:E; simpl; [rewrite oz_eqb_refl; reflexivity | rewrite E; exact IH].
Qed.

Lemma nget_nset_other n n' c cs : n' <> n -> nget n' (nset n c cs) = nget n' cs.
Proof.
  intro Hne. induction cs as [|[n0 c0] r IH]; simpl.
  - destruct (oz_eqb n n') eqn:E; [apply oz_eqb_spec in E; congruence | reflexivity].
  - destruct (oz_eqb n0 n) eqn:E; simpl.
    + apply oz_eqb_spec in E. subst n0.
      destruct (oz_eqb n n') eqn:E'; [apply oz_eqb_spec in E'; congruence | reflexivity].
    + destruct (oz_eqb n0 n'); [reflexivity | exact IH].
Qed.

Definition wf_mhist (D : Z) (h : list mev) : Prop :=
  Forall (fun e => match e with MAdv dt => 0 <= dt | MReq _ _ _ d => 0 <= d <= D end) h.

Section Mixed.
  Variable b : backend.
  Variable f : fixes.
  Variable m : mech.

  (** *** (i) the payload's own lifetime, whichever rule stored the entry *)

  Definition minv (lim : result -> option Z) (cs : ncache) : Prop := forall n, inv lim (nget n cs).

  Lemma minv_nset lim n c cs : minv lim cs -> inv lim c -> minv lim (nset n c cs).
  Proof.
    intros H Hc n'. destruct (oz_eqb n n') eqn:E.
    - apply oz_eqb_spec in E. subst n'. rewrite nget_nset_same. exact Hc.
    - rewrite nget_nset_other; [apply H|]. intro; subst. rewrite oz_eqb_refl in E. discriminate.
  Qed.

  Theorem no_hit_after_expiry_mixed : forall h now cs,
    fx1 f = true -> expiry_mech m = true -> wf_mhist max_delay h ->
    minv (mech_lim m) cs ->
    forall t st v e, In (MHit t st v) (runm b f m now cs h) -> r_exp v = Some e -> t < expiry_instant m e.
  Proof.
    intros h now cs Hf Hm. revert now cs.
    induction h as [|ev r IH]; intros now cs Hwf Hinv t st v e Hin He; simpl in Hin; [contradiction|].
    inversion Hwf as [|? ? Hev Hr]; subst.
    destruct ev as [dt|k st0 fresh d]; [eapply IH; eauto|].
    destruct (if lookup_enabled m st0 then cget b now k (nget (nspace f m st0) cs) else None) as [v0|] eqn:Eg.
    - destruct Hin as [Heq|Hin]; [|eapply IH; eauto].
      inversion Heq; subst. destruct (lookup_enabled m st); [|discriminate].
      pose proof (cget_within b (mech_lim m) t k _ v (Hinv _) Eg) as Hl.
      unfold mech_lim in Hl. rewrite He in Hl. simpl in Hl. lia.
    - destruct Hin as [Heq|Hin]; [discriminate|].
      eapply IH; [exact Hr | | exact Hin | exact He].
      destruct (mech_policy f m st0 fresh now) as [ttl|] eqn:Ep; [|exact Hinv].
      apply minv_nset; [exact Hinv|]. apply inv_cset; [apply Hinv|].
      unfold sound, mech_lim. destruct (r_exp fresh) as [e'|] eqn:Ee; simpl; [|exact I].
      unfold mech_policy in Ep. rewrite Ee in Ep.
      destruct (ttl_within_lifetime_fixed f m st0 e' now d ttl Hf Hm Ep Hev) as [Hpos Hlt].
      split; intros; lia.
  Qed.

  (** *** (ii) not older than the ttl in force for the request *)

  Hypothesis Hkey : key_has_ttl f m = true.

  (** every entry of the family member [n] was stored by a known miss under the
      state [n], with a ttl of at most the configured one, and expires within it *)
  Definition ainv (known : mout -> Prop) (now : Z) (cs : ncache) : Prop :=
    forall n en, In en (nget n cs) ->
      exists tc ts ttl x,
        known (MMiss tc ts n (en_val en) (Some ttl)) /\ ts <= now /\
        en_exp en = Some x /\ x <= ts + ttl /\ (forall c, n = Some c -> ttl <= c).

  Lemma nspace_id st : nspace f m st = st.
  Proof. unfold nspace. rewrite Hkey. reflexivity. Qed.

  Lemma ainv_weaken (known known' : mout -> Prop) now now' cs :
    (forall o, known o -> known' o) -> now <= now' -> ainv known now cs -> ainv known' now' cs.
  Proof.
    intros Hk Hn H n en Hin. destruct (H n en Hin) as (tc & ts & ttl & x & Hkn & Hts & Hx & Hle & Hc).
    exists tc, ts, ttl, x. split; [apply Hk; exact Hkn|]. split; [lia|]. split; [assumption|]. split; assumption.
  Qed.

  Lemma cset_In ts k (v : result) ttl c en :
    0 < ttl -> In en (cset b ts k v ttl c) ->
    In en c \/ (en_val en = v /\ exists x, en_exp en = Some x /\ x <= ts + ttl).
  Proof.
    intros Hp. unfold cset. destruct b.
    - assert (E : (ttl =? -2) = false) by lia. rewrite E. assert (E' : (ttl >? 0) = true) by lia. rewrite E'.
      intros [<-|Hin]; [right; simpl; split; [reflexivity | eexists; split; [reflexivity | lia]] | left; eapply In_remove; exact Hin].
    - destruct (millis ttl <=? 0); [auto|].
      intros [<-|Hin]; [right; simpl; split; [reflexivity|] | left; eapply In_remove; exact Hin].
      eexists; split; [reflexivity|]. pose proof (millis_le ttl ltac:(lia)). lia.
  Qed.

  Lemma runm_age : forall h now cs (known : mout -> Prop),
    wf_mhist max_delay h ->
    ainv known now cs ->
    forall t c v, In (MHit t (Some c) v) (runm b f m now cs h) ->
      exists tc ts ttl,
        (known (MMiss tc ts (Some c) v (Some ttl)) \/ In (MMiss tc ts (Some c) v (Some ttl)) (runm b f m now cs h)) /\
        ttl <= c /\ ts <= t /\ t <= ts + ttl.
  Proof.
    induction h as [|ev r IH]; intros now cs known Hwf Hinv t c v Hin; simpl in Hin; [contradiction|].
    inversion Hwf as [|? ? Hev Hr]; subst.
    destruct ev as [dt|k st0 fresh d].
    - simpl. eapply IH; [exact Hr | | exact Hin]. eapply ainv_weaken; [| |exact Hinv]; [auto | lia].
    - simpl. rewrite nspace_id in *.
      destruct (if lookup_enabled m st0 then cget b now k (nget st0 cs) else None) as [v0|] eqn:Eg.
      + destruct Hin as [Heq|Hin].
        * inversion Heq; subst. destruct (lookup_enabled m (Some c)); [|discriminate].
          unfold cget in Eg. destruct (find k (nget (Some c) cs)) as [en|] eqn:Ef; [|discriminate].
          destruct (live b t en) eqn:El; [|discriminate]. inversion Eg; subst v.
          destruct (Hinv (Some c) en (find_In _ _ _ Ef)) as (tc & ts & ttl & x & Hkn & Hts & Hx & Hle & Hc).
          exists tc, ts, ttl. split; [left; exact Hkn|]. split; [apply Hc; reflexivity|]. split; [lia|].
          unfold live in El. rewrite Hx in El. destruct b; lia.
        * destruct (IH now cs known Hr Hinv t c v Hin) as (tc & ts & ttl & [Hk|Hi] & Hrest).
          -- exists tc, ts, ttl. split; [left; exact Hk | exact Hrest].
          -- exists tc, ts, ttl. split; [right; right; exact Hi | exact Hrest].
      + destruct Hin as [Heq|Hin]; [discriminate|].
        set (this := MMiss now (now + d) st0 fresh (mech_policy f m st0 fresh now)) in *.
        set (known' := fun o => known o \/ o = this).
        assert (Hinv' : ainv known' (now + d)
                  (match mech_policy f m st0 fresh now with
                   | Some ttl => nset st0 (cset b (now + d) k fresh ttl (nget st0 cs)) cs
                   | None => cs end)).
        { destruct (mech_policy f m st0 fresh now) as [ttl|] eqn:Ep.
          - intros n en Hen. destruct (oz_eqb st0 n) eqn:En.
            + apply oz_eqb_spec in En. subst n. rewrite nget_nset_same in Hen.
              pose proof (store_positive _ _ _ _ _ _ Ep) as Hpos.
              destruct (cset_In _ _ _ _ _ _ Hpos Hen) as [Hold|(Hv & x & Hx & Hle)].
              * destruct (Hinv st0 en Hold) as (tc & ts & ttl0 & x & Hkn & Hts & Hx & Hle & Hc).
                exists tc, ts, ttl0, x. split; [left; exact Hkn|]. split; [lia|]. split; [assumption|]. split; assumption.
              * exists now, (now + d), ttl, x. split; [right; subst this; rewrite Hv; try rewrite Ep; reflexivity|].
                split; [lia|]. split; [exact Hx|]. split; [exact Hle|].
                intros c0 ->. unfold mech_policy in Ep. eapply config_only_shortens; exact Ep.
            + rewrite nget_nset_other in Hen by (intro; subst; rewrite oz_eqb_refl in En; discriminate).
              destruct (Hinv n en Hen) as (tc & ts & ttl0 & x & Hkn & Hts & Hx & Hle & Hc).
              exists tc, ts, ttl0, x. split; [left; exact Hkn|]. split; [lia|]. split; [assumption|]. split; assumption.
          - eapply ainv_weaken; [| |exact Hinv]; [intros o Ho; left; exact Ho | lia]. }
        destruct (IH _ _ known' Hr Hinv' t c v Hin) as (tc & ts & ttl & [[Hk|He]|Hi] & Hrest).
        * exists tc, ts, ttl. split; [left; exact Hk | exact Hrest].
        * exists tc, ts, ttl. split; [right; left; symmetry; exact He | exact Hrest].
        * exists tc, ts, ttl. split; [right; right; exact Hi | exact Hrest].
  Qed.

  (** whatever a request under a configured ttl [c] is answered with from cache
      was fetched by an earlier request under the SAME ttl, at most [c] ago *)
  Theorem hit_age_within_ttl_in_force : forall h now0 t c v,
    wf_mhist max_delay h ->
    In (MHit t (Some c) v) (runm b f m now0 [] h) ->
    exists tc ts ttl,
      In (MMiss tc ts (Some c) v (Some ttl)) (runm b f m now0 [] h) /\ ttl <= c /\ ts <= t /\ t <= ts + ttl.
  Proof.
    intros h now0 t c v Hwf Hin.
    destruct (runm_age h now0 [] (fun _ => False) Hwf) with (t := t) (c := c) (v := v) as (tc & ts & ttl & [[]|Hi] & Hrest);
      [intros n en [] | exact Hin |].
    exists tc, ts, ttl. split; assumption.
  Qed.
End Mixed.

(** C10-F5 on the code whose authenticator keys do not contain the ttl: a rule
    with `cache_ttl: 5s` is answered from an entry another rule (1 h) stored 100 s ago *)
Definition guard_F5 (f : fixes) (m : mech) (sts : list (option Z)) : bool :=
  negb (key_has_ttl f m) &&
  match sts with
  | [] => false
  | st :: r => existsb (fun st' => negb (oz_eqb st st')) r
  end.

Theorem F5_refuted :
  let fr := {| r_id := 7; r_exp := Some 9000 |} in
  let h := [MReq 1 (Some (secs 3600)) fr 0; MAdv (secs 100); MReq 1 (Some (secs 5)) {| r_id := 8; r_exp := Some 9000 |} 0] in
  guard_F5 fx_before_F4 MIntro [Some (secs 3600); Some (secs 5)] = true /\
  wf_mhist max_delay h /\
  In (MHit (secs 1100) (Some (secs 5)) fr) (runm Mem fx_before_F4 MIntro (secs 1000) [] h) /\
  ~ (exists tc ts ttl, In (MMiss tc ts (Some (secs 5)) fr (Some ttl)) (runm Mem fx_before_F4 MIntro (secs 1000) [] h)).
Proof.
  intros fr h. split; [vm_compute; reflexivity|]. split.
  - unfold wf_mhist, h. repeat (apply Forall_cons; [unfold max_delay, secs, ns_per_s; lia|]). apply Forall_nil.
  - split; [vm_compute; right; left; reflexivity|].
    intros (tc & ts & ttl & Hin). vm_compute in Hin. destruct Hin as [H|[H|[]]]; discriminate H.
Qed.

Example F5_fixed_witness :
  let fr := {| r_id := 7; r_exp := Some 9000 |} in
  let h := [MReq 1 (Some (secs 3600)) fr 0; MAdv (secs 100); MReq 1 (Some (secs 5)) {| r_id := 8; r_exp := Some 9000 |} 0] in
  forall t v, ~ In (MHit t (Some (secs 5)) v) (runm Mem fx_all MIntro (secs 1000) [] h).
Proof. intros fr h t v Hin. vm_compute in Hin. destruct Hin as [H|[H|[]]]; discriminate H. Qed.

(** with the repair of C10-F5 (8647e06) every mechanism's key contains the ttl *)
Lemma key_has_ttl_fixed f m : fx5 f = true -> key_has_ttl f m = true.
Proof. intro H. unfold key_has_ttl. rewrite H. destruct m; reflexivity. Qed.

Theorem hit_age_within_ttl_in_force_fixed : forall b f m,
  fx5 f = true ->
  forall h now0 t c v,
    wf_mhist max_delay h ->
    In (MHit t (Some c) v) (runm b f m now0 [] h) ->
    exists tc ts ttl,
      In (MMiss tc ts (Some c) v (Some ttl)) (runm b f m now0 [] h) /\ ttl <= c /\ ts <= t /\ t <= ts + ttl.
Proof. intros b f m Hf. apply hit_age_within_ttl_in_force. apply key_has_ttl_fixed. exact Hf. Qed.

(** non-vacuity of [hit_age_within_ttl_in_force]: with the ttl in the key a request
    under the same ttl IS answered from cache *)
Example mixed_hit_fixed :
  let fr := {| r_id := 7; r_exp := Some 9000 |} in
  In (MHit (secs 1010) (Some (secs 60)) fr)
     (runm Mem fx_all MIntro (secs 1000) []
        [MReq 1 (Some (secs 60)) fr 0; MAdv (secs 10); MReq 1 (Some (secs 60)) {| r_id := 8; r_exp := Some 9000 |} 0]).
Proof. vm_compute. right. left. reflexivity. Qed.
