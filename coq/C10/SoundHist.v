(** C10 — soundness of the evaluator for request histories ([CHist]):
    correspondence of the hit/miss pattern with the model and no firing guard
    imply the property predicate, for all histories and both cache semantics. *)
From HV Require Import Base.Prelude Base.Time C10.Model C10.Proofs Run.Eval_C10 C10.Sound.
Open Scope Z_scope.

Definition ev_time (ev : hevent) : Z := match ev with (t, _, _) => t end.
Definition ev_fresh (ev : hevent) : result := match ev with (_, _, fr) => fr end.
Definition ev_id (ev : hevent) : Z := r_id (ev_fresh ev).

(** request instants do not decrease *)
Fixpoint sorted_from (prev : Z) (evs : list hevent) : Prop :=
  match evs with
  | [] => True
  | ev :: r => prev <= ev_time ev /\ sorted_from (ev_time ev) r
  end.

(** with unique payload ids, [origin] finds exactly the miss that fetched the payload *)
Lemma origin_not_in id evs obs : ~ In id (map ev_id evs) -> origin id evs obs = None.
Proof.
  revert obs. induction evs as [|[[t k] fr] r IH]; intros obs Hn; [reflexivity|].
  simpl in Hn. destruct obs as [|o r']; [reflexivity|].
  assert (Hne : (r_id fr =? id) = false) by (apply Z.eqb_neq; intro E; apply Hn; left; exact E).
  destruct o; simpl; [|rewrite Hne]; apply IH; intro H; apply Hn; right; exact H.
Qed.

Lemma origin_unique : forall pre_evs pre_obs t k fr s r r',
  length pre_evs = length pre_obs ->
  NoDup (map ev_id (pre_evs ++ (t, k, fr) :: r)) ->
  origin (r_id fr) (pre_evs ++ (t, k, fr) :: r) (pre_obs ++ HMiss s :: r') = Some (t, s, r_exp fr).
Proof.
  induction pre_evs as [|[[t0 k0] fr0] pe IH]; intros pre_obs t k fr s r r' Hlen Hnd.
  - destruct pre_obs; [|discriminate]. simpl. rewrite Z.eqb_refl. reflexivity.
  - destruct pre_obs as [|o po]; [discriminate|]. simpl in Hlen. injection Hlen as Hlen.
    simpl in Hnd. inversion Hnd as [|? ? Hnotin Hnd']; subst.
    assert (Hne : (r_id fr0 =? r_id fr) = false).
    { apply Z.eqb_neq. intro E. apply Hnotin. unfold ev_id at 1. simpl. rewrite E.
      rewrite map_app. apply in_or_app. right. left. reflexivity. }
    simpl. destruct o; [|rewrite Hne]; apply IH; assumption.
Qed.

Section HistSound.
  Variable b : backend.
  Variable lookup : bool.
  Variable policy : result -> Z -> option Z.
  Variable hk : hkind.
  Variable slack : Z.
  Variable all_evs : list hevent.
  Variable all_obs : list hobs.

  Hypothesis Hslack : 0 <= slack.
  Hypothesis Hnodup : NoDup (map ev_id all_evs).
  (** a ttl of zero in force: the model neither looks up nor stores *)
  Hypothesis Hzero : cfg_zero (hist_cfg hk) = true -> lookup = false /\ forall fr t, policy fr t = None.
  (** every ttl the model computes in this history ends within the payload's own lifetime *)
  Hypothesis Hpol : forall ev s, In ev all_evs -> policy (ev_fresh ev) (ev_time ev) = Some s ->
    match r_exp (ev_fresh ev) with Some e => ev_time ev + s <= hist_limit hk e | None => True end.

  (** invariant of the cache built from the observed ttls: every entry was
      fetched by a recorded miss, with a positive observed ttl, and expires
      within that ttl and within the payload's lifetime *)
  Definition hinv (now : Z) (c : cache result) : Prop :=
    forall en, In en c ->
      exists ts s' x,
        origin (r_id (en_val en)) all_evs all_obs = Some (ts, Some s', r_exp (en_val en)) /\
        ts <= now /\ 0 < s' /\ en_exp en = Some x /\ x <= ts + s' /\
        match r_exp (en_val en) with Some e => x <= hist_limit hk e | None => True end.

  Lemma hinv_mono now now' c : now <= now' -> hinv now c -> hinv now' c.
  Proof.
    intros Hle H en Hin. destruct (H en Hin) as (ts & s' & x & Ho & Hts & Hrest).
    exists ts, s', x. split; [exact Ho|]. split; [lia | exact Hrest].
  Qed.

  Lemma hinv_remove now k c : hinv now c -> hinv now (remove k c).
  Proof. intros H en Hin. apply H. eapply In_remove; exact Hin. Qed.

  Lemma hinv_cset now k fr s' c :
    hinv now c ->
    origin (r_id fr) all_evs all_obs = Some (now, Some s', r_exp fr) ->
    0 < s' ->
    match r_exp fr with Some e => now + s' <= hist_limit hk e | None => True end ->
    hinv now (cset b now k fr s' c).
  Proof.
    intros Hc Ho Hs Hlim.
    assert (Hnew : forall x, x <= now + s' ->
              forall en, In en ({| en_key := k; en_val := fr; en_exp := Some x |} :: remove k c) ->
              exists ts s'0 x0,
                origin (r_id (en_val en)) all_evs all_obs = Some (ts, Some s'0, r_exp (en_val en)) /\
                ts <= now /\ 0 < s'0 /\ en_exp en = Some x0 /\ x0 <= ts + s'0 /\
                match r_exp (en_val en) with Some e => x0 <= hist_limit hk e | None => True end).
    { intros x Hx en [<-|Hin]; [|apply (hinv_remove now k c Hc); exact Hin].
      simpl. exists now, s', x. split; [exact Ho|]. split; [lia|]. split; [lia|]. split; [reflexivity|].
      split; [lia|]. destruct (r_exp fr); [lia | exact I]. }
    unfold cset. destruct b.
    - assert (E2 : (s' =? -2) = false) by lia. rewrite E2.
      assert (Ep : (s' >? 0) = true) by lia. rewrite Ep. refine (Hnew (now + s') _). lia.
    - destruct (millis s' <=? 0) eqn:Em; [exact Hc|].
      refine (Hnew (now + msecs (millis s')) _). pose proof (millis_le s' ltac:(lia)). lia.
  Qed.

  Lemma hist_sound_gen : forall sfx_evs sfx_obs pre_evs pre_obs now c,
    length pre_evs = length pre_obs ->
    all_evs = pre_evs ++ sfx_evs -> all_obs = pre_obs ++ sfx_obs ->
    sorted_from now sfx_evs ->
    hinv now c ->
    hist_refines b lookup policy c sfx_evs sfx_obs = true ->
    hist_prop_from slack hk all_evs all_obs sfx_evs sfx_obs = true.
  Proof.
    induction sfx_evs as [|[[t k] fr] r IH]; intros sfx_obs pre_evs pre_obs now c Hlen He Ho Hsort Hinv Hc.
    - simpl in Hc. destruct sfx_obs; [reflexivity | discriminate].
    - destruct Hsort as [Hnow Hsort]. simpl in Hnow, Hsort.
      assert (Hnext : forall o sfx_obs' c',
                 sfx_obs = o :: sfx_obs' -> hinv t c' ->
                 hist_refines b lookup policy c' r sfx_obs' = true ->
                 hist_prop_from slack hk all_evs all_obs r sfx_obs' = true).
      { intros o sfx_obs' c' -> Hinv' Hc'.
        apply (IH sfx_obs' (pre_evs ++ [(t, k, fr)]) (pre_obs ++ [o]) t c').
        - rewrite !app_length. simpl. lia.
        - rewrite <- app_assoc. exact He.
        - rewrite <- app_assoc. exact Ho.
        - exact Hsort.
        - exact Hinv'.
        - exact Hc'. }
      destruct sfx_obs as [|[id|[s'|]] sfx_obs']; simpl in Hc; try discriminate.
      + (* answered from cache *)
        apply andb_true_iff in Hc as [Hc Hrest]. apply andb_true_iff in Hc as [Hl Hget].
        assert (Hz : cfg_zero (hist_cfg hk) = false).
        { destruct (cfg_zero (hist_cfg hk)) eqn:Ez; [|reflexivity]. destruct (Hzero eq_refl) as [Hl' _]. congruence. }
        unfold cget in Hget. destruct (find k c) as [en|] eqn:Ef; [|discriminate].
        destruct (live b t en) eqn:Elive; [|discriminate]. assert (r_id (en_val en) = id) by lia. subst id.
        destruct (Hinv en (find_In _ _ _ Ef)) as (ts & s' & x & Hor & Hts & Hs' & Hx & Hxle & Hlim).
        simpl. rewrite Hz, Hor. simpl.
        assert (Htx : t <= x) by (unfold live in Elive; rewrite Hx in Elive; destruct b; lia).
        rewrite (Hnext _ _ c eq_refl (hinv_mono now t c Hnow Hinv) Hrest).
        assert (E1 : (ts <=? t) = true) by lia. assert (E2 : (0 <? s') = true) by lia.
        assert (E3 : (t - ts <=? s' + slack) = true) by lia. rewrite E1, E2, E3. simpl.
        destruct (r_exp (en_val en)) as [e|]; simpl; [|reflexivity].
        assert (E4 : (t <=? hist_limit hk e + slack) = true) by lia. rewrite E4. reflexivity.
      + (* fresh evaluation, stored with the observed ttl [s'] *)
        apply andb_true_iff in Hc as [Hc Hrest]. apply andb_true_iff in Hc as [Hpos Hle].
        destruct (policy fr t) as [s|] eqn:Ep; [|discriminate].
        assert (Hin : In (t, k, fr) all_evs) by (rewrite He; apply in_or_app; right; left; reflexivity).
        pose proof (Hpol (t, k, fr) s Hin Ep) as Hlim. simpl in Hlim.
        assert (Hz : cfg_zero (hist_cfg hk) = false).
        { destruct (cfg_zero (hist_cfg hk)) eqn:Ez; [|reflexivity]. destruct (Hzero eq_refl) as [_ Hn].
          rewrite Hn in Ep. discriminate. }
        simpl. rewrite Hz. simpl.
        refine (Hnext _ _ (cset b t k fr s' c) eq_refl _ Hrest).
        apply (hinv_cset t k fr s'); [apply (hinv_mono now t c Hnow Hinv) | | lia |].
        * pose proof Hnodup as Hnd'. rewrite He in Hnd'.
          rewrite He, Ho. apply origin_unique; [exact Hlen | exact Hnd'].
        * destruct (r_exp fr); [lia | exact I].
      + (* fresh evaluation, nothing stored *)
        simpl. destruct (cfg_zero (hist_cfg hk)); simpl;
          apply (Hnext _ _ c eq_refl (hinv_mono now t c Hnow Hinv) Hc).
  Qed.
End HistSound.

(** ** instantiation for [check] *)

(** what the driver guarantees about a recorded history: request instants do
    not decrease, every remote answer carries a fresh payload id, and a
    mechanism without expiry information reports none *)
Record hist_wf (f : fixes) (hk : hkind) (slack : Z) (evs : list hevent) : Prop := {
  hw_slack : 0 <= slack;
  hw_sorted : sorted_from (match evs with ev :: _ => ev_time ev | [] => 0 end) evs;
  hw_nodup : NoDup (map ev_id evs);
  hw_noexp : match hk with
             | HMech m _ _ => expiry_mech m = false -> forall ev, In ev evs -> r_exp (ev_fresh ev) = None
             | HHttp _ => True
             end
}.

Lemma existsb_false_In {A} (p : A -> bool) l : existsb p l = false -> forall x, In x l -> p x = false.
Proof.
  intros H x Hin. destruct (p x) eqn:E; [|reflexivity].
  assert (existsb p l = true) by (apply existsb_exists; exists x; auto). congruence.
Qed.

Theorem check_sound_hist : forall f b hk slack xsets evs obs,
  hist_wf f hk slack evs ->
  let v := check f (CHist b hk slack xsets evs obs) in
  v_corr v = true -> v_guards v = [] -> v_prop v = true.
Proof.
  intros f b hk slack xsets evs obs Hwf v Hc Hg. subst v. simpl in *.
  apply andb_true_iff in Hc as [_ Hc].
  destruct Hwf as [Hslack Hsorted Hnodup Hnoexp].
  set (t0 := match evs with ev :: _ => ev_time ev | [] => 0 end) in *.
  destruct hk as [m conf rule | dflt].
  - (* a mechanism *)
    simpl in Hg. apply guards2 in Hg as [Hg1 Hg3].
    simpl in Hc. set (st := exec_state f m conf rule) in *.
    apply (hist_sound_gen b (lookup_enabled m st) (mech_policy f m st) (HMech m conf rule) slack evs obs
             Hslack Hnodup) with (pre_evs := []) (pre_obs := []) (now := t0) (c := []); try reflexivity; try assumption.
    + (* zero disables *)
      intro Hz.
      destruct (mech_eqb m MJwtFin) eqn:Em; [destruct m; discriminate|].
      assert (Hm : m <> MJwtFin) by (intro; subst m; discriminate).
      assert (Hcfg : spec_cfg m conf rule = Some 0).
      { assert (Heq : hist_cfg (HMech m conf rule) = spec_cfg m conf rule) by (destruct m; try reflexivity; discriminate).
        rewrite Heq in Hz. destruct (spec_cfg m conf rule) as [cz|]; [|discriminate]. simpl in Hz. f_equal. lia. }
      destruct (zero_disables f m conf rule Hm Hcfg Hg3) as [Hl Hs]. split; [exact Hl|].
      intros fr t. unfold mech_policy. apply Hs.
    + (* ttls *)
      intros ev s Hin Hp.
      destruct (r_exp (ev_fresh ev)) as [e|] eqn:Ee; [|exact I].
      destruct (expiry_mech m) eqn:Emech.
      2:{ rewrite (Hnoexp eq_refl ev Hin) in Ee. discriminate. }
      pose proof (existsb_false_In _ _ Hg1 ev Hin) as Hgf. destruct ev as [[t k] fr]. simpl in *.
      unfold mech_policy in Hp. rewrite Ee in Hp, Hgf.
      destruct (ttl_within_lifetime f m st e t 0 s Emech Hgf Hp) as [_ Hlt];
        [unfold max_delay, secs, ns_per_s; lia|].
      unfold limit. pose proof (grace_nonneg m). lia.
    + intros en [].
  - (* the round tripper *)
    simpl in Hc.
    apply (hist_sound_gen b true (http_policy f dflt) (HHttp dflt) slack evs obs
             Hslack Hnodup) with (pre_evs := []) (pre_obs := []) (now := t0) (c := []); try reflexivity; try assumption.
    + intro Hz. discriminate.
    + intros ev s Hin Hp.
      destruct ev as [[t k] fr]. simpl in *. unfold http_policy, http_store_decision in Hp. simpl in Hp.
      destruct (r_exp fr) as [e|]; [|exact I].
      destruct (fx2 f && (e - t <=? 0)); inversion Hp; lia.
    + intros en [].
Qed.

(** ** the repaired code: no guard can fire, so correspondence alone implies the property predicate *)

Lemma existsb_const_false {A} (p : A -> bool) l : (forall x, p x = false) -> existsb p l = false.
Proof. intro H. induction l as [|x r IH]; [reflexivity|]. simpl. rewrite H, IH. reflexivity. Qed.

Lemma guards_fixed : forall c, v_guards (check fx_all c) = [].
Proof.
  intros [m conf rule exp now dmax o | b cachable h dflt now dmax bdelay tget o_nsets o_set o_hit | b ops
         | b [m conf rule | dflt] slack xsets evs obs | b m slack xsets evs obs | ]; simpl; unfold guards; simpl.
  - unfold guard_F1, guard_F3. simpl. reflexivity.
  - reflexivity.
  - reflexivity.
  - rewrite existsb_const_false by (intros [[t k] fr]; unfold guard_F1; reflexivity).
    unfold guard_F3. simpl. reflexivity.
  - rewrite existsb_const_false by (intros [[t k] fr]; unfold g_F2; reflexivity). reflexivity.
  - rewrite existsb_const_false by (intros [[[[t k] conf] rule] fr]; unfold guard_F1; reflexivity).
    rewrite existsb_const_false by (intros [[[[t k] conf] rule] fr]; unfold guard_F3; reflexivity).
    unfold guard_F5, key_has_ttl. simpl. destruct m; reflexivity.
  - reflexivity.
Qed.

(** well-formedness of a recorded case: what the driver guarantees (measured
    bracket at most [max_delay] wide, no expiry information for mechanisms that
    have none, a non-negative Age value, [hist_wf] for histories).  The driver
    checks these itself and records a case that violates them as skipped. *)
Definition wf_case (f : fixes) (c : case) : Prop :=
  match c with
  | CExec m _ _ exp _ dmax _ => 0 <= dmax <= max_delay /\ wf_exec m exp
  | CHttp _ _ h _ now dmax bdelay _ _ _ _ => wf_http h now dmax bdelay
  | CCache _ _ => True
  | CHist _ hk slack _ evs _ => hist_wf f hk slack evs
  | CMix _ _ _ _ _ _ => False   (* mixed histories: no soundness theorem for the evaluator (see C10/Mixed.v for the model) *)
  | CBroken => False
  end.

Theorem check_sound : forall f c,
  wf_case f c ->
  v_corr (check f c) = true -> v_guards (check f c) = [] -> v_prop (check f c) = true.
Proof.
  intros f [m conf rule exp now dmax o | b cachable h dflt now dmax bdelay tget o_nsets o_set o_hit | b ops
           | b hk slack xsets evs obs | b m slack xsets evs obs | ] Hwf.
  - destruct Hwf. apply check_sound_exec; assumption.
  - apply check_sound_http. exact Hwf.
  - apply check_sound_cache.
  - apply check_sound_hist. exact Hwf.
  - destruct Hwf.
  - destruct Hwf.
Qed.

Theorem check_sound_fixed : forall c,
  wf_case fx_all c -> v_corr (check fx_all c) = true -> v_prop (check fx_all c) = true.
Proof. intros c Hwf Hc. apply check_sound; [exact Hwf | exact Hc | apply guards_fixed]. Qed.
