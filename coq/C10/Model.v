(** C10 — model of the cache-lifetime decisions of heimdall, as the code is.

    Unit: all instants and durations are NANOSECONDS in [Z] (see Base/Time.v);
    expiry information that the Go code reads through [.Unix()] (introspection
    `exp`, certificate NotAfter, session `exp`) is a [Z] number of SECONDS.

    Modelled code
      authenticators/oauth2_introspection_authenticator.go  isCacheEnabled, getCacheTTL, WithConfig(ttl)
      authenticators/jwt_authenticator.go                   isCacheEnabled, getCacheTTL (JWK cache), WithConfig(ttl)
      authenticators/generic_authenticator.go               getCacheTTL, `a.ttl > 0` lookups, WithConfig(ttl)
      oauth2/clientcredentials/clientcredentials.go         isCacheEnabled, getCacheTTL
      finalizers/oauth2_client_credentials_finalizer.go     WithConfig(cache_ttl)
      finalizers/jwt_finalizer.go                           `f.ttl > defaultCacheLeeway`, Set(ttl - leeway), WithConfig(ttl)
      authorizers/remote_authorizer.go                      `a.ttl > 0`, Set(ttl), WithConfig(ttl)
      contextualizers/generic_contextualizer.go             `h.ttl > 0`, Set(ttl), WithConfig(ttl)
      httpcache/round_tripper.go                            cacheResponse
      cache/memory/cache.go (+ ttlcache v3.3.0 item.go)     Get/Set
      cache/redis/cache.go (rueidis Px = Milliseconds())    Get/Set

    The recorded defects are kept in the model behind the switches
    [fx1 .. fx5] ([false] = the code of the pinned tree, [true] = the code
    after fixes/C10-F<n>.diff). *)
From HV Require Export Base.Prelude Base.Time.
Open Scope Z_scope.

Record fixes := { fx1 : bool; fx2 : bool; fx3 : bool; fx4 : bool; fx5 : bool }.
Definition fx_none := {| fx1 := false; fx2 := false; fx3 := false; fx4 := false; fx5 := false |}.
Definition fx_all := {| fx1 := true; fx2 := true; fx3 := true; fx4 := true; fx5 := true |}.
(** /repo at b37641c, before a3cbbb3 / 8647e06: C10-F1/F2/F3 repaired (637ae67, c971513,
    e0dc5e2), C10-F4 (RFC 7234 current age / invalid Expires ignored) and C10-F5 (cache
    keys of the three authenticators and of client credentials without the ttl) not
    yet; /repo now is [fx_all] *)
Definition fx_before_F4 := {| fx1 := true; fx2 := true; fx3 := true; fx4 := false; fx5 := false |}.

Inductive mech := MIntro | MJwtKey | MGeneric | MClientCred | MJwtFin | MRemote | MCtx.

Definition mech_eqb (a b : mech) : bool :=
  match a, b with
  | MIntro, MIntro | MJwtKey, MJwtKey | MGeneric, MGeneric | MClientCred, MClientCred
  | MJwtFin, MJwtFin | MRemote, MRemote | MCtx, MCtx => true
  | _, _ => false
  end.

Definition is_some {A} (o : option A) : bool := match o with Some _ => true | None => false end.

(** ** configured TTL: creation and rule-level merge ([WithConfig]) *)

(** The ttl state of a mechanism instance.  Introspection, jwt and client
    credentials keep the pointer ([None] = not configured); the others keep a
    value with a default. *)
Definition create_ttl (m : mech) (conf : option Z) : option Z :=
  match m with
  | MIntro | MJwtKey | MClientCred => conf
  | MGeneric | MRemote => Some (match conf with Some c => c | None => 0 end)
  | MCtx => Some (match conf with Some c => c | None => secs 10 end)
  | MJwtFin => Some (match conf with Some c => c | None => secs 300 end)
  end.

(** [rule]: the `cache_ttl` (`ttl` for the jwt finalizer) of the rule-level
    config, [None] when the rule does not set it.  Client credentials: the
    oauth2_client_credentials finalizer merges a rule-level `cache_ttl` like the
    pointer-style authenticators; the endpoint auth strategy has no rule level
    ([rule = None]).  remote authorizer (pinned):
    [x.IfThenElse(conf.CacheTTL > 0, conf.CacheTTL, a.ttl)] on a non-pointer. *)
Definition withconfig_ttl (f : fixes) (m : mech) (st : option Z) (rule : option Z) : option Z :=
  match m with
  | MRemote =>
      match rule with
      | None => st
      | Some r => if fx3 f then Some r else if r >? 0 then Some r else st
      end
  | _ => match rule with Some r => Some r | None => st end
  end.

Definition ptr_enabled (st : option Z) : bool :=
  match st with None => true | Some c => c >? 0 end.

Definition val (st : option Z) : Z := match st with Some c => c | None => 0 end.

(** is the cache looked up before the remote call? *)
Definition lookup_enabled (m : mech) (st : option Z) : bool :=
  match m with
  | MIntro | MJwtKey | MClientCred => ptr_enabled st
  | MGeneric | MRemote | MCtx => val st >? 0
  | MJwtFin => true
  end.

(** ** the TTL functions *)

Definition remaining_s (leeway_s exp_s now : Z) : Z :=
  let d := exp_s - unix now - leeway_s in if d >? 0 then secs d else 0.

Definition remaining_ns (leeway exp now : Z) : Z :=
  let d := exp - now - leeway in if d >? 0 then d else 0.

(** the four-way switch at the end of the three pointer-style getCacheTTLs *)
Definition switch4 (c r : Z) : Z :=
  if (c =? 0) && (r =? 0) then 0
  else if c =? 0 then r
  else if r =? 0 then c
  else Z.min c r.

(** [rem]: [Some r] when expiry information is present ([r] already clamped
    at 0), [None] when it is absent; the pinned code conflates [Some 0] and
    [None].  [dflt]: value used for an unconfigured ttl. *)
Definition ttl_ptr (f : fixes) (dflt : Z) (st : option Z) (rem : option Z) : Z :=
  if negb (ptr_enabled st) then 0
  else
    let r := match rem with Some r => r | None => 0 end in
    let c := match st with Some c => c | None => dflt end in
    if fx1 f && is_some rem && (r =? 0) then 0 else switch4 c r.

Definition ttl_introspection (f : fixes) (st exp : option Z) (now : Z) : Z :=
  ttl_ptr f 0 st (option_map (fun e => remaining_s 10 e now) exp).

Definition ttl_jwt_key (f : fixes) (st exp : option Z) (now : Z) : Z :=
  ttl_ptr f (secs 600) st (option_map (fun e => remaining_s 10 e now) exp).

(** [exp] in nanoseconds here: [time.Until(resp.Expiry) - 5s] *)
Definition ttl_client_credentials (f : fixes) (st exp : option Z) (now : Z) : Z :=
  ttl_ptr f 0 st (option_map (fun e => remaining_ns (secs 5) e now) exp).

Definition ttl_generic (c : Z) (exp : option Z) (now : Z) : Z :=
  if c <=? 0 then 0
  else match exp with
       | Some e => Z.min c (remaining_s 10 e now)
       | None => c
       end.

Definition ttl_jwt_finalizer (c : Z) : Z := c - secs 5.

(** [store f m st exp now]: [Some ttl] when the mechanism calls
    [cache.Set(.., ttl)] after a fresh evaluation at instant [now]. *)
Definition pos (t : Z) : option Z := if t >? 0 then Some t else None.

Definition store (f : fixes) (m : mech) (st exp : option Z) (now : Z) : option Z :=
  match m with
  | MIntro => pos (ttl_introspection f st exp now)
  | MJwtKey => pos (ttl_jwt_key f st exp now)
  | MClientCred => pos (ttl_client_credentials f st exp now)
  | MGeneric => pos (ttl_generic (val st) exp now)
  | MJwtFin => if val st >? secs 5 then Some (ttl_jwt_finalizer (val st)) else None
  | MRemote | MCtx => pos (val st)
  end.

(** ** httpcache.cacheResponse

    [cachable]: cachecontrol.CachableResponse returned no error and no reasons;
    [expires]: the expiry instant it computed ([None] = zero time); [now1] is the
    clock reading of [time.Now().Add(DefaultCacheTTL)], [now2] that of
    [time.Until(expires)].  Result: the ttl handed to [Set]. *)
Definition http_store_decision (f : fixes) (cachable : bool) (expires : option Z)
           (dflt now1 now2 : Z) : option Z :=
  if negb cachable then None
  else
    let e := match expires with
             | Some e => Some e
             | None => if dflt =? 0 then None else Some (now1 + dflt)
             end in
    match e with
    | None => None
    | Some e => let ttl := e - now2 in
                if fx2 f && (ttl <=? 0) then None else Some ttl
    end.

(** *** from header values to the store decision

    [hvals]: the header values of a response as an independent reader of RFC
    7234 sees them (the driver parses them itself; instants and durations in ns,
    Date/Expires are whole seconds).  [lib_expires]: what pquerna/cachecontrol
    v0.2.0 hands to [cacheResponse] for a private cache: ITS OWN clock reading
    plus max-age, else plus (Expires - Date), an Expires without Date as it is;
    an unparsable Expires (`0`, `-1`) counts as absent; Age and the distance of
    Date from now are ignored.  C10-F4 / [fx4]: the repaired [cacheResponse]
    subtracts the current age (RFC 7234 4.2.3: max of the Age header and of
    now - Date, whole seconds) and does not store a response whose only
    lifetime information is an unparsable Expires. *)
Record hvals := {
  hv_maxage : option Z;            (* Cache-Control: max-age *)
  hv_expires : option (option Z);  (* Expires: None absent, Some None unparsable, Some (Some t) *)
  hv_date : option Z;              (* Date *)
  hv_age : Z                       (* Age, 0 if absent *)
}.

Definition lib_expires (h : hvals) (now1 : Z) : option Z :=
  match hv_maxage h with
  | Some m => Some (now1 + m)
  | None =>
      match hv_expires h with
      | Some (Some x) => Some (match hv_date h with Some d => now1 + (x - d) | None => x end)
      | _ => None
      end
  end.

Definition bad_expires (h : hvals) : bool :=
  match hv_maxage h, hv_expires h with None, Some None => true | _, _ => false end.

Definition current_age (h : hvals) (now : Z) : Z :=
  Z.max (hv_age h) (match hv_date h with Some d => Z.max 0 (secs (unix now) - d) | None => 0 end).

Definition http_store_hdr (f : fixes) (cachable : bool) (h : hvals) (dflt now1 now2 : Z) : option Z :=
  if fx4 f && bad_expires h then None
  else
    match http_store_decision f cachable (lib_expires h now1) dflt now1 now2 with
    | Some ttl =>
        if fx4 f then let t := ttl - current_age h now2 in if t <=? 0 then None else Some t
        else Some ttl
    | None => None
    end.

(** since 12fdf68: only GET and HEAD requests are looked up ([cachedResponse])
    and stored, and a response carrying a Vary header is never stored; these
    gates come before the cachecontrol verdict in [cacheResponse] *)
Definition http_lookup (method_ok : bool) : bool := method_ok.

Definition http_storable (method_ok vary cachable : bool) : bool :=
  method_ok && negb vary && cachable.

(** ** the two cache semantics *)

Inductive backend := Mem | Redis.

Record entry (V : Type) := { en_key : Z; en_val : V; en_exp : option Z }.
Arguments en_key {V} e. Arguments en_val {V} e. Arguments en_exp {V} e.

Definition cache V := list (entry V).

Fixpoint find {V} (k : Z) (c : cache V) : option (entry V) :=
  match c with
  | [] => None
  | e :: r => if en_key e =? k then Some e else find k r
  end.

Definition remove {V} (k : Z) (c : cache V) : cache V :=
  filter (fun e => negb (en_key e =? k)) c.

(** memory: ttlcache.Set.  [ttl = -2] (PreviousOrDefaultTTL) on an existing
    item replaces the value and keeps its expiry; any other [ttl <= 0]
    (DefaultTTL with cache default 0, NoTTL) means the item never expires.
    redis: SET key value PX ms with ms = ttl.Milliseconds(); PX <= 0 is rejected
    by the server ("invalid expire time"), nothing is stored. *)
Definition cset {V} (b : backend) (now k : Z) (v : V) (ttl : Z) (c : cache V) : cache V :=
  match b with
  | Mem =>
      if ttl =? -2 then
        match find k c with
        | Some e => {| en_key := k; en_val := v; en_exp := en_exp e |} :: remove k c
        | None => {| en_key := k; en_val := v; en_exp := None |} :: c
        end
      else {| en_key := k; en_val := v; en_exp := if ttl >? 0 then Some (now + ttl) else None |} :: remove k c
  | Redis =>
      let px := millis ttl in
      if px <=? 0 then c
      else {| en_key := k; en_val := v; en_exp := Some (now + msecs px) |} :: remove k c
  end.

(** memory: [item.expiresAt.Before(now)] = expired; redis: the key is gone once
    its PX has elapsed *)
Definition live {V} (b : backend) (now : Z) (e : entry V) : bool :=
  match en_exp e with
  | None => true
  | Some x => match b with Mem => now <=? x | Redis => now <? x end
  end.

Definition cget {V} (b : backend) (now k : Z) (c : cache V) : option V :=
  match find k c with
  | Some e => if live b now e then Some (en_val e) else None
  | None => None
  end.

(** ** histories: requests over time against a cache *)

(** what the remote system answers on a fresh evaluation: an identifier of the
    payload and the expiry information in it (unit as the mechanism reads it) *)
Record result := { r_id : Z; r_exp : option Z }.

(** [Adv dt]: time passes.  [Req k fresh d]: a request whose cache key is [k];
    if it is not served from cache the remote system answers [fresh], the TTL is
    computed at that instant and [Set] takes effect [d] later. *)
Inductive hev := Adv (dt : Z) | Req (k : Z) (fresh : result) (d : Z).

(** [Hit t v]: served [v] from cache at [t].  [Miss tc ts fresh s]: fresh
    evaluation, ttl computed at [tc], [s = Some ttl] handed to Set at [ts]. *)
Inductive hout := Hit (t : Z) (v : result) | Miss (tc ts : Z) (fresh : result) (s : option Z).

Section Run.
  Variable b : backend.
  Variable lookup : bool.
  Variable policy : result -> Z -> option Z.

  Fixpoint run (now : Z) (c : cache result) (h : list hev) : list hout :=
    match h with
    | [] => []
    | Adv dt :: r => run (now + dt) c r
    | Req k fresh d :: r =>
        match (if lookup then cget b now k c else None) with
        | Some v => Hit now v :: run now c r
        | None =>
            let s := policy fresh now in
            let ts := now + d in
            Miss now ts fresh s
                 :: run ts (match s with Some ttl => cset b ts k fresh ttl c | None => c end) r
        end
    end.
End Run.

Definition mech_policy (f : fixes) (m : mech) (st : option Z) (fresh : result) (now : Z) : option Z :=
  store f m st (r_exp fresh) now.

(** a remote endpoint behind the RFC 7234 round tripper: [r_exp] is the expiry
    instant computed by the cachecontrol oracle; the two clock readings coincide *)
Definition http_policy (f : fixes) (dflt : Z) (fresh : result) (now : Z) : option Z :=
  http_store_decision f true (r_exp fresh) dflt now now.

(** ** histories in which every request runs under its own rule

    One mechanism prototype, many rules: each request carries the ttl state [st]
    of the instance its rule created (prototype `cache_ttl` + rule-level
    override).  The cache keys of the remote authorizer, the generic
    contextualizer and the jwt finalizer contain the ttl, so instances with
    different ttl never share an entry; the keys of the three authenticators and
    of client credentials do not (C10-F5 / [fx5]: the repaired keys do), so a
    request under a short ttl is answered from an entry a request under a long
    ttl stored.  The cache is therefore a family of caches indexed by the part
    of the state that is in the key. *)
Definition key_has_ttl (f : fixes) (m : mech) : bool :=
  match m with MRemote | MCtx | MJwtFin => true | _ => fx5 f end.

Definition nspace (f : fixes) (m : mech) (st : option Z) : option Z :=
  if key_has_ttl f m then st else None.

Definition oz_eqb : option Z -> option Z -> bool := option_eqb Z.eqb.

Definition ncache := list (option Z * cache result).

Fixpoint nget (n : option Z) (cs : ncache) : cache result :=
  match cs with
  | [] => []
  | (n', c) :: r => if oz_eqb n' n then c else nget n r
  end.

Fixpoint nset (n : option Z) (c : cache result) (cs : ncache) : ncache :=
  match cs with
  | [] => [(n, c)]
  | (n', c') :: r => if oz_eqb n' n then (n, c) :: r else (n', c') :: nset n c r
  end.

Inductive mev := MAdv (dt : Z) | MReq (k : Z) (st : option Z) (fresh : result) (d : Z).
Inductive mout :=
| MHit (t : Z) (st : option Z) (v : result)
| MMiss (tc ts : Z) (st : option Z) (fresh : result) (s : option Z).

Fixpoint runm (b : backend) (f : fixes) (m : mech) (now : Z) (cs : ncache) (h : list mev) : list mout :=
  match h with
  | [] => []
  | MAdv dt :: r => runm b f m (now + dt) cs r
  | MReq k st fresh d :: r =>
      let n := nspace f m st in
      let c := nget n cs in
      match (if lookup_enabled m st then cget b now k c else None) with
      | Some v => MHit now st v :: runm b f m now cs r
      | None =>
          let s := mech_policy f m st fresh now in
          let ts := now + d in
          MMiss now ts st fresh s
                :: runm b f m ts (match s with Some ttl => nset n (cset b ts k fresh ttl c) cs | None => cs end) r
      end
  end.
