(** C10 — specification vocabulary and proofs. *)
From HV Require Import Base.Prelude Base.Time C10.Model.
Open Scope Z_scope.

Ltac splits := repeat match goal with |- _ /\ _ => split end.

(** ** Specification vocabulary (transcribed from the property statement) *)

(** mechanisms whose cached thing carries expiry information of its own *)
Definition expiry_mech (m : mech) : bool :=
  match m with MIntro | MJwtKey | MGeneric | MClientCred => true | _ => false end.

(** the instant at which the cached credential / key stops being valid.  The
    seconds-based ones are compared by Go as [now.Unix() < exp], i.e. the thing
    is valid at [t] iff [t < secs exp]. *)
Definition expiry_instant (m : mech) (e : Z) : Z :=
  match m with MClientCred => e | _ => secs e end.

(** the configuration in force for a rule, as the documentation describes it: the
    rule-level setting if there is one, else the mechanism's *)
Definition spec_cfg (m : mech) (conf rule : option Z) : option Z :=
  match rule with Some r => Some r | None => conf end.

(** the longest delay between computing a TTL and the cache applying it that the
    theorems tolerate (the mechanisms deduct 5 s or 10 s; one second is lost to
    the truncation to whole seconds) *)
Definition max_delay : Z := secs 4.

(** ** guards of the recorded findings *)

Definition ptr_mech (m : mech) : bool :=
  match m with MIntro | MJwtKey | MClientCred => true | _ => false end.

Definition mech_dflt (m : mech) : Z := match m with MJwtKey => secs 600 | _ => 0 end.

Definition mech_rem (m : mech) (e now : Z) : Z :=
  match m with
  | MClientCred => remaining_ns (secs 5) e now
  | _ => remaining_s 10 e now
  end.

(** C10-F1: expiry information present, nothing left of it after the leeway,
    and a configured (or default) ttl in force: the pinned code caches for the
    full configured ttl *)
Definition guard_F1 (f : fixes) (m : mech) (st exp : option Z) (now : Z) : bool :=
  negb (fx1 f) && ptr_mech m && ptr_enabled st &&
  match exp with
  | Some e => (mech_rem m e now =? 0) && negb (match st with Some c => c | None => mech_dflt m end =? 0)
  | None => false
  end.

Definition is_mem (b : backend) : bool := match b with Mem => true | Redis => false end.

(** C10-F2: a response whose lifetime is not positive is handed to the
    in-memory cache, where a non-positive ttl means "never expires" *)
Definition http_lifetime (expires : option Z) (dflt now : Z) : option Z :=
  match expires with
  | Some e => Some (e - now)
  | None => if dflt =? 0 then None else Some dflt
  end.

Definition guard_F2 (f : fixes) (b : backend) (expires : option Z) (dflt now : Z) : bool :=
  negb (fx2 f) && is_mem b &&
  match http_lifetime expires dflt now with Some l => l <=? 0 | None => false end.

(** C10-F3: remote authorizer, rule-level `cache_ttl: 0s` (or a negative one)
    over a mechanism with caching enabled: the rule-level value is ignored *)
Definition guard_F3 (f : fixes) (m : mech) (conf rule : option Z) : bool :=
  negb (fx3 f) &&
  match m, rule with
  | MRemote, Some r => (r <=? 0) && (val (create_ttl m conf) >? 0)
  | _, _ => false
  end.

(** ** small facts *)

Lemma pos_some t x : pos t = Some x -> x = t /\ 0 < t.
Proof. unfold pos. destruct (t >? 0) eqn:E; intro H; inversion H; subst. split; [reflexivity | lia]. Qed.

Lemma remaining_s_bound l e now :
  0 < remaining_s l e now -> now + remaining_s l e now < secs (e - l + 1).
Proof.
  unfold remaining_s. destruct (e - unix now - l >? 0) eqn:E; [|lia]. intros _.
  pose proof (unix_upper now). rewrite !secs_sub, !secs_add in *. rewrite secs_sub. lia.
Qed.

Lemma remaining_s_nonneg l e now : 0 <= remaining_s l e now.
Proof. unfold remaining_s. destruct (e - unix now - l >? 0) eqn:E; [|lia]. unfold secs, ns_per_s. lia. Qed.

Lemma remaining_ns_nonneg l e now : 0 <= remaining_ns l e now.
Proof. unfold remaining_ns. destruct (e - now - l >? 0) eqn:E; lia. Qed.

Lemma remaining_ns_bound l e now :
  0 < remaining_ns l e now -> now + remaining_ns l e now = e - l.
Proof. unfold remaining_ns. destruct (e - now - l >? 0) eqn:E; lia. Qed.

Lemma switch4_cases c r :
  switch4 c r = 0 /\ c = 0 /\ r = 0 \/
  switch4 c r = r /\ c = 0 /\ r <> 0 \/
  switch4 c r = c /\ c <> 0 /\ r = 0 \/
  switch4 c r = Z.min c r /\ c <> 0 /\ r <> 0.
Proof.
  unfold switch4.
  destruct (c =? 0) eqn:Ec; destruct (r =? 0) eqn:Er; simpl; lia.
Qed.

(** the ttl of a pointer-style mechanism, outside C10-F1, is bounded by what is
    left of the lifetime *)
Lemma ttl_ptr_bound f dflt st r :
  0 <= r ->
  (fx1 f = true \/ ptr_enabled st = false \/ r <> 0 \/ match st with Some c => c | None => dflt end = 0) ->
  0 < ttl_ptr f dflt st (Some r) -> ttl_ptr f dflt st (Some r) <= r /\ 0 < r.
Proof.
  intros Hr Hg. unfold ttl_ptr. destruct (ptr_enabled st) eqn:Een; simpl; [|lia].
  set (c := match st with Some c => c | None => dflt end) in *.
  destruct (fx1 f) eqn:Ef; simpl.
  - destruct (r =? 0) eqn:Er; [lia|].
    destruct (switch4_cases c r) as [H|[H|[H|H]]]; lia.
  - destruct (switch4_cases c r) as [H|[H|[H|H]]]; destruct Hg as [Hg|[Hg|[Hg|Hg]]];
      try discriminate; lia.
Qed.

Lemma ttl_ptr_le_cfg f dflt c rem : 0 < ttl_ptr f dflt (Some c) rem -> ttl_ptr f dflt (Some c) rem <= c.
Proof.
  unfold ttl_ptr. simpl. destruct (c >? 0) eqn:Ec; simpl; [|lia].
  set (r := match rem with Some r => r | None => 0 end).
  destruct (fx1 f && is_some rem && (r =? 0)); [lia|].
  destruct (switch4_cases c r) as [H|[H|[H|H]]]; lia.
Qed.

Lemma guard_F1_false f m st e now :
  ptr_mech m = true ->
  guard_F1 f m st (Some e) now = false ->
  fx1 f = true \/ ptr_enabled st = false \/ mech_rem m e now <> 0 \/
  match st with Some c => c | None => mech_dflt m end = 0.
Proof.
  unfold guard_F1. intros Hm. rewrite Hm.
  destruct (fx1 f); [auto|]. destruct (ptr_enabled st); [|auto]. simpl.
  destruct (mech_rem m e now =? 0) eqn:E1; [|right; right; left; lia].
  destruct (match st with Some c => c | None => mech_dflt m end =? 0) eqn:E2; simpl; [|discriminate].
  intros _. right; right; right. lia.
Qed.

(** ** C10_ttl_within_lifetime *)

Theorem ttl_within_lifetime : forall f m st e now d ttl,
  expiry_mech m = true ->
  guard_F1 f m st (Some e) now = false ->
  store f m st (Some e) now = Some ttl ->
  0 <= d <= max_delay ->
  0 < ttl /\ now + d + ttl < expiry_instant m e.
Proof.
  intros f m st e now d ttl Hm Hg Hs Hd. unfold max_delay in Hd.
  destruct m; try discriminate; simpl in Hs; apply pos_some in Hs as [-> Hpos]; split; try exact Hpos.
  - (* introspection *)
    unfold ttl_introspection in *. simpl option_map in *.
    destruct (ttl_ptr_bound f 0 st (remaining_s 10 e now)) as [Hle Hr];
      [apply remaining_s_nonneg | apply (guard_F1_false f MIntro st e now eq_refl Hg) | exact Hpos |].
    pose proof (remaining_s_bound 10 e now Hr). simpl expiry_instant.
    rewrite secs_add, secs_sub in H. unfold secs, ns_per_s in *. lia.
  - (* jwt key *)
    unfold ttl_jwt_key in *. simpl option_map in *.
    destruct (ttl_ptr_bound f (secs 600) st (remaining_s 10 e now)) as [Hle Hr];
      [apply remaining_s_nonneg | apply (guard_F1_false f MJwtKey st e now eq_refl Hg) | exact Hpos |].
    pose proof (remaining_s_bound 10 e now Hr). simpl expiry_instant.
    rewrite secs_add, secs_sub in H. unfold secs, ns_per_s in *. lia.
  - (* generic *)
    unfold ttl_generic in *. destruct (val st <=? 0) eqn:Ec; [lia|].
    assert (Hr : 0 < remaining_s 10 e now) by lia.
    pose proof (remaining_s_bound 10 e now Hr). simpl expiry_instant.
    rewrite secs_add, secs_sub in H. unfold secs, ns_per_s in *. lia.
  - (* client credentials *)
    unfold ttl_client_credentials in *. simpl option_map in *.
    destruct (ttl_ptr_bound f 0 st (remaining_ns (secs 5) e now)) as [Hle Hr];
      [apply remaining_ns_nonneg | apply (guard_F1_false f MClientCred st e now eq_refl Hg) | exact Hpos |].
    pose proof (remaining_ns_bound (secs 5) e now Hr). simpl expiry_instant.
    change (secs 5) with 5000000000 in *. unfold secs, ns_per_s in *. lia.
Qed.

(** a stored ttl is always positive (so the in-memory cache never gets "no expiry") *)
Theorem store_positive : forall f m st exp now ttl,
  store f m st exp now = Some ttl -> 0 < ttl.
Proof.
  intros f m st exp now ttl. destruct m; simpl; intro H;
    try (apply pos_some in H as [-> H]; exact H).
  destruct (val st >? secs 5) eqn:E; inversion H; subst. unfold ttl_jwt_finalizer, secs, ns_per_s in *. lia.
Qed.

(** the jwt finalizer: the token carries [exp = (now + ttl).Unix()]; a cached
    token is handed out only while [t.Unix() < exp] *)
Theorem finalizer_token_not_expired : forall f st now d s t,
  store f MJwtFin st None now = Some s ->
  0 <= d <= max_delay ->
  t <= now + d + s ->
  t < secs (unix (now + val st)).
Proof.
  intros f st now d s t Hs Hd Ht. simpl in Hs. unfold max_delay in Hd.
  destruct (val st >? secs 5) eqn:E; inversion Hs; subst. unfold ttl_jwt_finalizer in Ht.
  pose proof (unix_upper (now + val st)). rewrite secs_add in H. unfold secs, ns_per_s in *. lia.
Qed.

(** ** C10_zero_disables *)

Lemma disabled_state f m c :
  m <> MJwtFin -> c <= 0 ->
  lookup_enabled m (Some c) = false /\ forall exp now, store f m (Some c) exp now = None.
Proof.
  intros Hm Hc. assert (E : (c >? 0) = false) by lia. assert (E' : (c <=? 0) = true) by lia.
  destruct m; try congruence; simpl; unfold ttl_introspection, ttl_jwt_key, ttl_client_credentials,
    ttl_generic, ttl_ptr, pos; simpl; rewrite ?E, ?E'; simpl; split; reflexivity.
Qed.

(** a ttl of zero -- or a negative one -- in force disables lookup and store *)
Theorem nonpositive_disables : forall f m conf rule c,
  m <> MJwtFin ->
  spec_cfg m conf rule = Some c -> c <= 0 ->
  guard_F3 f m conf rule = false ->
  let st := withconfig_ttl f m (create_ttl m conf) rule in
  lookup_enabled m st = false /\ forall exp now, store f m st exp now = None.
Proof.
  intros f m conf rule c Hm Hc Hle Hg st.
  assert (Hst : exists c', st = Some c' /\ c' <= 0).
  { subst st. unfold spec_cfg in Hc. destruct m; try congruence; simpl in Hc;
      try (destruct rule as [r|]; [inversion Hc; subst; simpl; exists c; split; [reflexivity | lia]
                                  | subst conf; simpl; exists c; split; [reflexivity | lia]]).
    destruct rule as [r|]; [inversion Hc; subst | subst conf; simpl; exists c; split; [reflexivity | lia]].
      unfold guard_F3 in Hg. simpl in *. destruct (fx3 f); simpl in *; [exists c; split; [reflexivity | lia]|].
      assert (E : (c >? 0) = false) by lia. rewrite E.
      eexists; split; [reflexivity|]. unfold val in Hg. assert (E' : (c <=? 0) = true) by lia. rewrite E' in Hg. simpl in Hg.
      destruct conf; simpl in *; lia. }
  destruct Hst as (c' & -> & Hle'). apply disabled_state; assumption.
Qed.

Theorem zero_disables : forall f m conf rule,
  m <> MJwtFin ->
  spec_cfg m conf rule = Some 0 ->
  guard_F3 f m conf rule = false ->
  let st := withconfig_ttl f m (create_ttl m conf) rule in
  lookup_enabled m st = false /\ forall exp now, store f m st exp now = None.
Proof. intros f m conf rule Hm Hc Hg. apply (nonpositive_disables f m conf rule 0); auto. lia. Qed.

(** ** C10_config_only_shortens *)

Theorem config_only_shortens : forall f m c exp now ttl,
  store f m (Some c) exp now = Some ttl -> ttl <= c.
Proof.
  intros f m c exp now ttl. destruct m; simpl; intro H.
  - apply pos_some in H as [-> H]. apply ttl_ptr_le_cfg. exact H.
  - apply pos_some in H as [-> H]. apply ttl_ptr_le_cfg. exact H.
  - apply pos_some in H as [-> H]. unfold ttl_generic in *. destruct (c <=? 0); [lia|].
    destruct exp; lia.
  - apply pos_some in H as [-> H]. apply ttl_ptr_le_cfg. exact H.
  - destruct (c >? secs 5); inversion H; subst. unfold ttl_jwt_finalizer, secs, ns_per_s. lia.
  - apply pos_some in H as [-> H]. lia.
  - apply pos_some in H as [-> H]. lia.
Qed.

(** ** C10_http_not_stored_when_nonpositive *)

Lemma millis_nonpos d : d <= 0 -> millis d <= 0.
Proof.
  intro H. destruct (Z_lt_le_dec 0 (millis d)) as [Hp|Hp]; [|exact Hp].
  apply millis_pos_iff in Hp. unfold ns_per_ms in Hp. lia.
Qed.

Theorem http_not_stored_when_nonpositive : forall f b cachable expires dflt now1 now2 ts k (v : result) c l,
  now1 <= now2 ->
  http_lifetime expires dflt now2 = Some l -> l <= 0 ->
  guard_F2 f b expires dflt now2 = false ->
  match http_store_decision f cachable expires dflt now1 now2 with
  | Some ttl => cset b ts k v ttl c = c
  | None => True
  end.
Proof.
  intros f b cachable expires dflt now1 now2 ts k v c l Hn Hl Hle Hg.
  unfold http_store_decision. destruct cachable; simpl; [|exact I].
  unfold guard_F2 in Hg. rewrite Hl in Hg.
  assert (Hleb : (l <=? 0) = true) by lia. rewrite Hleb in Hg.
  unfold http_lifetime in Hl.
  assert (Httl : forall ttl, ttl <= 0 ->
            (if fx2 f && (ttl <=? 0) then None else Some ttl) = Some ttl -> cset b ts k v ttl c = c).
  { intros ttl Ht. destruct (fx2 f) eqn:Ef; simpl.
    - assert ((ttl <=? 0) = true) by lia. rewrite H. discriminate.
    - intros _. destruct b; simpl in Hg; [discriminate|].
      unfold cset. pose proof (millis_nonpos ttl Ht).
      assert ((millis ttl <=? 0) = true) by lia. rewrite H0. reflexivity. }
  destruct expires as [e|].
  - inversion Hl; subst.
    destruct (fx2 f && (e - now2 <=? 0)) eqn:E; [exact I|]. apply Httl; [lia|]. rewrite E. reflexivity.
  - destruct (dflt =? 0) eqn:Ed; [discriminate|]. inversion Hl; subst.
    destruct (fx2 f && (now1 + l - now2 <=? 0)) eqn:E; [exact I|]. apply Httl; [lia|]. rewrite E. reflexivity.
Qed.

(** a stored response never outlives its freshness lifetime *)
Theorem http_ttl_within_lifetime : forall f cachable expires dflt now1 now2 ttl,
  now1 <= now2 ->
  http_store_decision f cachable expires dflt now1 now2 = Some ttl ->
  match expires with
  | Some e => now2 + ttl = e
  | None => ttl <= dflt
  end.
Proof.
  intros f cachable expires dflt now1 now2 ttl Hn. unfold http_store_decision.
  destruct cachable; simpl; [|discriminate].
  destruct expires as [e|].
  - destruct (fx2 f && (e - now2 <=? 0)); intro H; inversion H; lia.
  - destruct (dflt =? 0); [discriminate|].
    destruct (fx2 f && (now1 + dflt - now2 <=? 0)); intro H; inversion H; lia.
Qed.

(** ** histories *)

Definition wf_hist (D : Z) (h : list hev) : Prop :=
  Forall (fun e => match e with Adv dt => 0 <= dt | Req _ _ d => 0 <= d <= D end) h.

Section Generic.
  Variable b : backend.
  Variable lookup : bool.
  Variable policy : result -> Z -> option Z.
  (** [lim v]: the last instant at which [v] may be reused ([None]: no bound) *)
  Variable lim : result -> option Z.

  Definition sound (ts ttl : Z) (v : result) : Prop :=
    match lim v with
    | Some L => (b = Mem -> 0 < ttl) /\ (0 < ttl -> ts + ttl <= L)
    | None => True
    end.

  Definition inv (c : cache result) : Prop :=
    forall e, In e c ->
      match lim (en_val e) with
      | Some L => exists x, en_exp e = Some x /\ x <= L
      | None => True
      end.

  Lemma In_remove k (c : cache result) e : In e (remove k c) -> In e c.
  Proof. unfold remove. intro H. apply filter_In in H. tauto. Qed.

  Lemma inv_remove k c : inv c -> inv (remove k c).
  Proof. intros H e He. apply H. eapply In_remove; eauto. Qed.

  Lemma inv_cons e c :
    match lim (en_val e) with Some L => exists x, en_exp e = Some x /\ x <= L | None => True end ->
    inv c -> inv (e :: c).
  Proof. intros He Hc e' [<-|Hin]; [exact He | apply Hc; exact Hin]. Qed.

  Lemma inv_cset ts k v ttl c : inv c -> sound ts ttl v -> inv (cset b ts k v ttl c).
  Proof.
    intros Hc Hs. unfold sound in Hs. unfold cset. destruct b.
    - destruct (ttl =? -2) eqn:E2.
      + destruct (lim v) as [L|] eqn:El; [destruct Hs as [Hp _]; specialize (Hp eq_refl); lia|].
        destruct (find k c); (apply inv_cons; [simpl; rewrite El; exact I|]);
          [apply inv_remove|]; exact Hc.
      + apply inv_cons; [|apply inv_remove; exact Hc]. simpl.
        destruct (lim v) as [L|]; [|exact I]. destruct Hs as [Hp Hb]. specialize (Hp eq_refl).
        assert ((ttl >? 0) = true) by lia. rewrite H. eexists; split; [reflexivity|]. apply Hb. exact Hp.
    - destruct (millis ttl <=? 0) eqn:Ep; [exact Hc|].
      apply inv_cons; [|apply inv_remove; exact Hc]. simpl.
      destruct (lim v) as [L|]; [|exact I]. destruct Hs as [_ Hb].
      assert (Hpx : 0 < millis ttl) by lia. apply millis_pos_iff in Hpx. unfold ns_per_ms in Hpx.
      eexists; split; [reflexivity|].
      pose proof (millis_le ttl ltac:(lia)). specialize (Hb ltac:(lia)). lia.
  Qed.

  Lemma find_In k (c : cache result) e : find k c = Some e -> In e c.
  Proof.
    induction c as [|x r IH]; simpl; [discriminate|].
    destruct (en_key x =? k); intro H; [inversion H; auto | right; apply IH; exact H].
  Qed.

  Lemma cget_within now k c v : inv c -> cget b now k c = Some v ->
    match lim v with Some L => now <= L | None => True end.
  Proof.
    intros Hc. unfold cget. destruct (find k c) as [e|] eqn:Ef; [|discriminate].
    destruct (live b now e) eqn:El; [|discriminate]. intro H; inversion H; subst.
    specialize (Hc e (find_In _ _ _ Ef)). destruct (lim (en_val e)) as [L|]; [|exact I].
    destruct Hc as (x & Hx & HxL). unfold live in El. rewrite Hx in El. destruct b; lia.
  Qed.

  Theorem no_hit_after_expiry_generic : forall h now c,
    inv c ->
    (forall tc ts fresh ttl, In (Miss tc ts fresh (Some ttl)) (run b lookup policy now c h) -> sound ts ttl fresh) ->
    forall t v, In (Hit t v) (run b lookup policy now c h) ->
      match lim v with Some L => t <= L | None => True end.
  Proof.
    induction h as [|e r IH]; intros now c Hc Hs t v Hin; simpl in *; [contradiction|].
    destruct e as [dt|k fresh d].
    - eapply IH; eauto.
    - destruct (if lookup then cget b now k c else None) as [v0|] eqn:Eg.
      + destruct Hin as [Heq|Hin].
        * inversion Heq; subst. destruct lookup; [|discriminate]. eapply cget_within; eauto.
        * eapply IH; [exact Hc | | exact Hin]. intros. eapply Hs. right. eauto.
      + destruct Hin as [Heq|Hin]; [discriminate|].
        eapply IH; [| | exact Hin].
        * destruct (policy fresh now) as [ttl|] eqn:Ep; [|exact Hc].
          apply inv_cset; [exact Hc|]. eapply Hs. left. reflexivity.
        * intros. eapply Hs. right. eauto.
  Qed.

  Lemma run_miss_shape D : forall h now c tc ts fresh s,
    wf_hist D h ->
    In (Miss tc ts fresh s) (run b lookup policy now c h) ->
    s = policy fresh tc /\ 0 <= ts - tc <= D.
  Proof.
    induction h as [|e r IH]; intros now c tc ts fresh s Hwf Hin; simpl in *; [contradiction|].
    inversion Hwf as [|? ? He Hr]; subst.
    destruct e as [dt|k fr d].
    - eapply IH; eauto.
    - destruct (if lookup then cget b now k c else None) as [v0|].
      + destruct Hin as [Heq|Hin]; [discriminate|]. eapply IH; eauto.
      + destruct Hin as [Heq|Hin]; [inversion Heq; subst; split; [reflexivity | lia]|].
        eapply IH; eauto.
  Qed.
End Generic.

Lemma inv_nil lim : inv lim [].
Proof. intros e []. Qed.

(** ** C10_no_hit_after_expiry, mechanisms *)

Definition mech_lim (m : mech) (v : result) : option Z :=
  option_map (fun e => expiry_instant m e - 1) (r_exp v).

Theorem no_hit_after_expiry_mech : forall b f m st h now0,
  expiry_mech m = true ->
  wf_hist max_delay h ->
  (forall tc ts fresh s,
      In (Miss tc ts fresh s) (run b (lookup_enabled m st) (mech_policy f m st) now0 [] h) ->
      guard_F1 f m st (r_exp fresh) tc = false) ->
  forall t v e,
    In (Hit t v) (run b (lookup_enabled m st) (mech_policy f m st) now0 [] h) ->
    r_exp v = Some e -> t < expiry_instant m e.
Proof.
  intros b f m st h now0 Hm Hwf Hg t v e Hin He.
  pose proof (no_hit_after_expiry_generic b (lookup_enabled m st) (mech_policy f m st) (mech_lim m)
                h now0 [] (inv_nil _)) as H.
  assert (Hs : forall tc ts fresh ttl,
             In (Miss tc ts fresh (Some ttl)) (run b (lookup_enabled m st) (mech_policy f m st) now0 [] h) ->
             sound b (mech_lim m) ts ttl fresh).
  { intros tc ts fresh ttl Hmiss. unfold sound, mech_lim.
    destruct (r_exp fresh) as [e'|] eqn:Ee; simpl; [|exact I].
    destruct (run_miss_shape b _ _ max_delay h now0 [] tc ts fresh (Some ttl) Hwf Hmiss) as [Hp Hd].
    specialize (Hg _ _ _ _ Hmiss). rewrite Ee in Hg.
    unfold mech_policy in Hp. rewrite Ee in Hp. symmetry in Hp.
    destruct (ttl_within_lifetime f m st e' tc (ts - tc) ttl Hm Hg Hp Hd) as [Hpos Hlt].
    split; intros; lia. }
  specialize (H Hs t v Hin). unfold mech_lim in H. rewrite He in H. simpl in H. lia.
Qed.

(** ** C10_no_hit_after_expiry, RFC 7234 responses with an explicit lifetime *)

Definition http_lim (D : Z) (v : result) : option Z := option_map (fun e => e + D) (r_exp v).

Theorem no_hit_after_expiry_http : forall b f dflt D h now0,
  wf_hist D h ->
  (forall tc ts fresh s,
      In (Miss tc ts fresh s) (run b true (http_policy f dflt) now0 [] h) ->
      guard_F2 f b (r_exp fresh) dflt tc = false) ->
  forall t v e,
    In (Hit t v) (run b true (http_policy f dflt) now0 [] h) ->
    r_exp v = Some e -> t <= e + D.
Proof.
  intros b f dflt D h now0 Hwf Hg t v e Hin He.
  pose proof (no_hit_after_expiry_generic b true (http_policy f dflt) (http_lim D)
                h now0 [] (inv_nil _)) as H.
  assert (Hs : forall tc ts fresh ttl,
             In (Miss tc ts fresh (Some ttl)) (run b true (http_policy f dflt) now0 [] h) ->
             sound b (http_lim D) ts ttl fresh).
  { intros tc ts fresh ttl Hmiss. unfold sound, http_lim.
    destruct (r_exp fresh) as [e'|] eqn:Ee; simpl; [|exact I].
    destruct (run_miss_shape b _ _ D h now0 [] tc ts fresh (Some ttl) Hwf Hmiss) as [Hp Hd].
    specialize (Hg _ _ _ _ Hmiss). rewrite Ee in Hg.
    unfold http_policy, http_store_decision in Hp. rewrite Ee in Hp. simpl in Hp.
    unfold guard_F2 in Hg. simpl in Hg.
    destruct (fx2 f) eqn:Ef; simpl in *.
    - destruct (e' - tc <=? 0) eqn:El; inversion Hp; subst. split; intros; lia.
    - inversion Hp; subst. split; intros; [|lia]. subst b. simpl in Hg. lia. }
  specialize (H Hs t v Hin). unfold http_lim in H. rewrite He in H. simpl in H. exact H.
Qed.

(** ** the findings, with witnesses *)

Definition s300 : option Z := Some (secs 300).

(** C10-F1: a credential that expires in 5 s, ttl 5 min: cached for 5 min, also
    far beyond expiry + the default validity leeway (10 s) *)
Theorem F1_refuted : forall m, ptr_mech m = true ->
  exists st e now ttl,
    guard_F1 fx_none m st (Some e) now = true /\
    store fx_none m st (Some e) now = Some ttl /\
    ~ (now + ttl < expiry_instant m e + secs 10).
Proof.
  intros m Hm. destruct m; try discriminate.
  - exists s300, 1005, (secs 1000), (secs 300). vm_compute. splits; try reflexivity. intro H; discriminate H.
  - exists None, 1005, (secs 1000), (secs 600). vm_compute. splits; try reflexivity. intro H; discriminate H.
  - exists s300, (secs 1003), (secs 1000), (secs 300). vm_compute. splits; try reflexivity. intro H; discriminate H.
Qed.

Theorem F1_history_refuted :
  exists h t v e, wf_hist max_delay h /\
    In (Hit t v) (run Mem (lookup_enabled MIntro s300) (mech_policy fx_none MIntro s300) (secs 1000) [] h) /\
    r_exp v = Some e /\ ~ (t < expiry_instant MIntro e + secs 10).
Proof.
  exists [Req 1 {| r_id := 7; r_exp := Some 1005 |} 0; Adv (secs 100); Req 1 {| r_id := 8; r_exp := Some 1205 |} 0],
         (secs 1100), {| r_id := 7; r_exp := Some 1005 |}, 1005.
  splits.
  - unfold wf_hist. repeat (apply Forall_cons; [unfold max_delay, secs, ns_per_s; lia|]). apply Forall_nil.
  - vm_compute. right. left. reflexivity.
  - reflexivity.
  - vm_compute. intro H; discriminate H.
Qed.

(** C10-F2: `max-age=0` (expires = now): stored in the memory cache without expiry, served an hour later *)
Theorem F2_refuted :
  exists now l, http_lifetime (Some now) 0 now = Some l /\ l <= 0 /\
    guard_F2 fx_none Mem (Some now) 0 now = true /\
    exists ttl, http_store_decision fx_none true (Some now) 0 now now = Some ttl /\
      cget Mem (now + secs 3600) 1 (cset Mem now 1 {| r_id := 7; r_exp := Some now |} ttl []) <> None.
Proof.
  (* no vm_compute under the binder of [ttl]: normalising Z operations on a variable explodes *)
  exists (secs 1000), 0.
  split; [vm_compute; reflexivity|]. split; [lia|]. split; [vm_compute; reflexivity|].
  exists 0. split; [vm_compute; reflexivity|]. vm_compute. discriminate.
Qed.

(** C10-F3: mechanism-level ttl 30 s, rule-level `cache_ttl: 0s`: still cached *)
Theorem F3_refuted :
  exists conf rule, spec_cfg MRemote conf rule = Some 0 /\ guard_F3 fx_none MRemote conf rule = true /\
    lookup_enabled MRemote (withconfig_ttl fx_none MRemote (create_ttl MRemote conf) rule) = true.
Proof. exists (Some (secs 30)), (Some 0). vm_compute. splits; reflexivity. Qed.

(** ** non-vacuity *)

Example nonvacuous_ttl :
  guard_F1 fx_none MIntro s300 (Some 1100) (secs 1000) = false /\
  store fx_none MIntro s300 (Some 1100) (secs 1000) = Some (secs 90) /\
  store fx_none MJwtKey None (Some 2000) (secs 1000) = Some (secs 600) /\
  store fx_none MGeneric (Some (secs 300)) (Some 1005) (secs 1000) = None /\
  store fx_none MClientCred None (Some (secs 1100)) (secs 1000) = Some (secs 95).
Proof. vm_compute. splits; reflexivity. Qed.

Example nonvacuous_history :
  let h := [Req 1 {| r_id := 7; r_exp := Some 1100 |} 0; Adv (secs 50); Req 1 {| r_id := 8; r_exp := Some 1300 |} 0;
            Adv (secs 50); Req 1 {| r_id := 9; r_exp := Some 1300 |} 0] in
  wf_hist max_delay h /\
  run Redis (lookup_enabled MIntro s300) (mech_policy fx_none MIntro s300) (secs 1000) [] h =
    [Miss (secs 1000) (secs 1000) {| r_id := 7; r_exp := Some 1100 |} (Some (secs 90));
     Hit (secs 1050) {| r_id := 7; r_exp := Some 1100 |};
     Miss (secs 1100) (secs 1100) {| r_id := 9; r_exp := Some 1300 |} (Some (secs 190))].
Proof.
  split; [|vm_compute; reflexivity].
  unfold wf_hist. repeat (apply Forall_cons; [unfold max_delay, secs, ns_per_s; lia|]). apply Forall_nil.
Qed.

(** ** the repaired code (fix: commits 637ae67, c971513, e0dc5e2; a3cbbb3 and 8647e06 further below and in Mixed.v): no guards *)

Lemma guard_F1_fixed f m st exp now : fx1 f = true -> guard_F1 f m st exp now = false.
Proof. intro H. unfold guard_F1. rewrite H. reflexivity. Qed.

Lemma guard_F2_fixed f b expires dflt now : fx2 f = true -> guard_F2 f b expires dflt now = false.
Proof. intro H. unfold guard_F2. rewrite H. reflexivity. Qed.

Lemma guard_F3_fixed f m conf rule : fx3 f = true -> guard_F3 f m conf rule = false.
Proof. intro H. unfold guard_F3. rewrite H. reflexivity. Qed.

Theorem ttl_within_lifetime_fixed : forall f m st e now d ttl,
  fx1 f = true ->
  expiry_mech m = true ->
  store f m st (Some e) now = Some ttl ->
  0 <= d <= max_delay ->
  0 < ttl /\ now + d + ttl < expiry_instant m e.
Proof. intros f m st e now d ttl Hf Hm. apply ttl_within_lifetime; [exact Hm | apply guard_F1_fixed; exact Hf]. Qed.

Theorem zero_disables_fixed : forall f m conf rule,
  fx3 f = true ->
  m <> MJwtFin ->
  spec_cfg m conf rule = Some 0 ->
  let st := withconfig_ttl f m (create_ttl m conf) rule in
  lookup_enabled m st = false /\ forall exp now, store f m st exp now = None.
Proof. intros f m conf rule Hf Hm Hc. apply zero_disables; [exact Hm | exact Hc | apply guard_F3_fixed; exact Hf]. Qed.

Theorem http_not_stored_when_nonpositive_fixed : forall f b cachable expires dflt now1 now2 ts k (v : result) c l,
  fx2 f = true ->
  now1 <= now2 ->
  http_lifetime expires dflt now2 = Some l -> l <= 0 ->
  match http_store_decision f cachable expires dflt now1 now2 with
  | Some ttl => cset b ts k v ttl c = c
  | None => True
  end.
Proof.
  intros f b cachable expires dflt now1 now2 ts k v c l Hf Hn Hl Hle.
  eapply http_not_stored_when_nonpositive; eauto. apply guard_F2_fixed. exact Hf.
Qed.

(** stronger: the repaired round tripper does not even call [Set] *)
Theorem http_no_set_when_nonpositive_fixed : forall f cachable expires dflt now1 now2 l,
  fx2 f = true ->
  now1 <= now2 ->
  http_lifetime expires dflt now2 = Some l -> l <= 0 ->
  http_store_decision f cachable expires dflt now1 now2 = None.
Proof.
  intros f cachable expires dflt now1 now2 l Hf Hn Hl Hle.
  unfold http_store_decision. destruct cachable; simpl; [|reflexivity]. rewrite Hf. simpl.
  unfold http_lifetime in Hl. destruct expires as [e|].
  - inversion Hl; subst. assert (H : (e - now2 <=? 0) = true) by lia. rewrite H. reflexivity.
  - destruct (dflt =? 0); [reflexivity|]. inversion Hl; subst.
    assert (H : (now1 + l - now2 <=? 0) = true) by lia. rewrite H. reflexivity.
Qed.

Theorem no_hit_after_expiry_mech_fixed : forall b f m st h now0,
  fx1 f = true ->
  expiry_mech m = true ->
  wf_hist max_delay h ->
  forall t v e,
    In (Hit t v) (run b (lookup_enabled m st) (mech_policy f m st) now0 [] h) ->
    r_exp v = Some e -> t < expiry_instant m e.
Proof.
  intros b f m st h now0 Hf Hm Hwf. apply no_hit_after_expiry_mech; [exact Hm | exact Hwf |].
  intros. apply guard_F1_fixed. exact Hf.
Qed.

Theorem no_hit_after_expiry_http_fixed : forall b f dflt D h now0,
  fx2 f = true ->
  wf_hist D h ->
  forall t v e,
    In (Hit t v) (run b true (http_policy f dflt) now0 [] h) ->
    r_exp v = Some e -> t <= e + D.
Proof.
  intros b f dflt D h now0 Hf Hwf. apply no_hit_after_expiry_http; [exact Hwf|].
  intros. apply guard_F2_fixed. exact Hf.
Qed.

(** the former witnesses of C10-F1/F2/F3 on the repaired code *)
Example fixed_witnesses :
  store fx_all MIntro s300 (Some 1005) (secs 1000) = None /\
  store fx_all MJwtKey None (Some 1005) (secs 1000) = None /\
  store fx_all MClientCred s300 (Some (secs 1003)) (secs 1000) = None /\
  store fx_all MIntro s300 (Some 1100) (secs 1000) = Some (secs 90) /\
  store fx_all MJwtKey None (Some 2000) (secs 1000) = Some (secs 600) /\
  store fx_all MClientCred None (Some (secs 1100)) (secs 1000) = Some (secs 95) /\
  http_store_decision fx_all true (Some (secs 1000)) 0 (secs 1000) (secs 1000) = None /\
  lookup_enabled MRemote (withconfig_ttl fx_all MRemote (create_ttl MRemote (Some (secs 30))) (Some 0)) = false.
Proof. vm_compute. splits; reflexivity. Qed.

(** ** RFC 7234 freshness from header values (specification: 4.2.1, 4.2.3, 5.3)

    [rfc_lifetime]: max-age, else Expires - Date (Date absent: the time the
    response was received), an unparsable Expires means "already expired".
    [rfc_current_age]: the larger of the Age header and of the apparent age
    (response time - Date, not negative), in whole seconds.  The response is
    fresh for [rfc_remaining] from the moment it is received; heimdall's
    `default_ttl` is the heuristic lifetime of a response without explicit one. *)
Definition rfc_lifetime (h : hvals) (resp_time : Z) : option Z :=
  match hv_maxage h with
  | Some m => Some m
  | None =>
      match hv_expires h with
      | Some (Some x) => Some (x - match hv_date h with Some d => d | None => resp_time end)
      | Some None => Some 0
      | None => None
      end
  end.

Definition rfc_current_age (h : hvals) (resp_time : Z) : Z :=
  let apparent := match hv_date h with Some d => Z.max 0 (secs (unix resp_time) - d) | None => 0 end in
  Z.max (hv_age h) apparent.

Definition lifetime_or_default (h : hvals) (dflt resp_time : Z) : option Z :=
  match rfc_lifetime h resp_time with
  | Some l => Some l
  | None => if dflt =? 0 then None else Some dflt
  end.

Definition rfc_remaining (h : hvals) (dflt resp_time : Z) : option Z :=
  option_map (fun l => l - rfc_current_age h resp_time) (lifetime_or_default h dflt resp_time).

(** C10-F4: the response has aged before it arrived (Age header, Date in the
    past) or carries an unparsable Expires, and the code would store it *)
Definition guard_F4 (f : fixes) (h : hvals) (dflt now : Z) : bool :=
  negb (fx4 f) &&
  ((bad_expires h && negb (dflt <=? 0)) ||
   ((0 <? rfc_current_age h now) &&
    match lifetime_or_default h dflt now with Some l => 0 <? l | None => false end)).

Lemma guard_F4_fixed f h dflt now : fx4 f = true -> guard_F4 f h dflt now = false.
Proof. intro H. unfold guard_F4. rewrite H. reflexivity. Qed.

Lemma current_age_spec h now : current_age h now = rfc_current_age h now.
Proof. reflexivity. Qed.

Lemma rfc_current_age_nonneg h now : 0 <= hv_age h -> 0 <= rfc_current_age h now.
Proof. intro H. unfold rfc_current_age. lia. Qed.

(** the core decision on the library's expiry, in terms of the header values *)
Lemma core_decision_bound f cachable h dflt now1 now2 ttl :
  fx2 f = true -> now1 <= now2 ->
  http_store_decision f cachable (lib_expires h now1) dflt now1 now2 = Some ttl ->
  0 < ttl /\
  ((bad_expires h = true /\ ttl <= dflt /\ 0 < dflt) \/
   (bad_expires h = false /\ exists l, lifetime_or_default h dflt now2 = Some l /\ ttl <= l)).
Proof.
  intros Hf Hn. unfold http_store_decision. destruct cachable; simpl; [|discriminate]. rewrite Hf. simpl.
  unfold lib_expires, bad_expires, lifetime_or_default, rfc_lifetime.
  destruct (hv_maxage h) as [m|].
  - destruct (now1 + m - now2 <=? 0) eqn:E; intro H; inversion H; subst. split; [lia|].
    right. split; [reflexivity|]. eexists; split; [reflexivity | lia].
  - destruct (hv_expires h) as [[x|]|].
    + destruct (hv_date h) as [d|].
      * destruct (now1 + (x - d) - now2 <=? 0) eqn:E; intro H; inversion H; subst. split; [lia|].
        right. split; [reflexivity|]. eexists; split; [reflexivity | lia].
      * destruct (x - now2 <=? 0) eqn:E; intro H; inversion H; subst. split; [lia|].
        right. split; [reflexivity|]. eexists; split; [reflexivity | lia].
    + destruct (dflt =? 0) eqn:Ed; [discriminate|].
      destruct (now1 + dflt - now2 <=? 0) eqn:E; intro H; inversion H; subst. split; [lia|].
      left. split; [reflexivity | lia].
    + destruct (dflt =? 0) eqn:Ed; [discriminate|].
      destruct (now1 + dflt - now2 <=? 0) eqn:E; intro H; inversion H; subst. split; [lia|].
      right. split; [reflexivity|]. eexists; split; [reflexivity | lia].
Qed.

(** whatever is handed to the cache for a response lies within the RFC 7234
    freshness the response still has on arrival -- for ALL header values *)
Theorem http_hdr_within_rfc : forall f cachable h dflt now1 now2 ttl,
  fx2 f = true -> now1 <= now2 -> 0 <= hv_age h ->
  guard_F4 f h dflt now2 = false ->
  http_store_hdr f cachable h dflt now1 now2 = Some ttl ->
  exists l, rfc_remaining h dflt now2 = Some l /\ 0 < ttl /\ ttl <= l.
Proof.
  intros f cachable h dflt now1 now2 ttl Hf Hn Hage Hg Hs. unfold http_store_hdr in Hs.
  pose proof (rfc_current_age_nonneg h now2 Hage) as Hnn.
  destruct (fx4 f) eqn:E4; simpl in Hs.
  - destruct (bad_expires h) eqn:Eb; [discriminate|].
    destruct (http_store_decision f cachable (lib_expires h now1) dflt now1 now2) as [t0|] eqn:Ec; [|discriminate].
    destruct (core_decision_bound _ _ _ _ _ _ _ Hf Hn Ec) as [Hp [(Hbad & _)|(_ & l & Hl & Hle)]]; [congruence|].
    rewrite current_age_spec in Hs.
    destruct (t0 - rfc_current_age h now2 <=? 0) eqn:Et; inversion Hs; subst.
    exists (l - rfc_current_age h now2). unfold rfc_remaining. rewrite Hl. simpl. split; [reflexivity | lia].
  - destruct (http_store_decision f cachable (lib_expires h now1) dflt now1 now2) as [t0|] eqn:Ec; [|discriminate].
    inversion Hs; subst t0.
    unfold guard_F4 in Hg. rewrite E4 in Hg. simpl in Hg. apply orb_false_iff in Hg as [Hg1 Hg2].
    destruct (core_decision_bound _ _ _ _ _ _ _ Hf Hn Ec) as [Hp [(Hbad & Hd & Hdp)|(Hbad & l & Hl & Hle)]].
    + rewrite Hbad in Hg1. simpl in Hg1. lia.
    + rewrite Hl in Hg2. apply andb_false_iff in Hg2 as [Hz|Hz]; [|lia].
      exists (l - rfc_current_age h now2). unfold rfc_remaining. rewrite Hl. simpl. split; [reflexivity | lia].
Qed.

Theorem http_hdr_not_stored_when_stale : forall f cachable h dflt now1 now2 l,
  fx2 f = true -> now1 <= now2 -> 0 <= hv_age h ->
  guard_F4 f h dflt now2 = false ->
  rfc_remaining h dflt now2 = Some l -> l <= 0 ->
  http_store_hdr f cachable h dflt now1 now2 = None.
Proof.
  intros f cachable h dflt now1 now2 l Hf Hn Hage Hg Hl Hle.
  destruct (http_store_hdr f cachable h dflt now1 now2) as [ttl|] eqn:Es; [|reflexivity].
  destruct (http_hdr_within_rfc _ _ _ _ _ _ _ Hf Hn Hage Hg Es) as (l' & Hl' & Hp & Hb). rewrite Hl in Hl'.
  inversion Hl'; subst. lia.
Qed.

(** a response without any lifetime (no explicit one, no default) is never stored *)
Theorem http_hdr_not_stored_without_lifetime : forall f cachable h dflt now1 now2,
  rfc_remaining h dflt now2 = None ->
  http_store_hdr f cachable h dflt now1 now2 = None.
Proof.
  intros f cachable h dflt now1 now2 Hl. unfold rfc_remaining, lifetime_or_default, rfc_lifetime in Hl.
  unfold http_store_hdr, http_store_decision, lib_expires.
  destruct (fx4 f && bad_expires h); [reflexivity|]. destruct cachable; simpl; [|reflexivity].
  destruct (hv_maxage h); [discriminate|]. destruct (hv_expires h) as [[x|]|]; try discriminate.
  destruct (dflt =? 0); [reflexivity | discriminate].
Qed.

(** C10-F4 on the code without the repair: `Age: 3599, max-age=3600` is stored
    for the full hour although one second of freshness is left; `Expires: 0`
    with `default_ttl: 5s` is stored for 5 s *)
Definition h_aged : hvals :=
  {| hv_maxage := Some (secs 3600); hv_expires := None; hv_date := None; hv_age := secs 3599 |}.
Definition h_badexp : hvals :=
  {| hv_maxage := None; hv_expires := Some None; hv_date := None; hv_age := 0 |}.

Theorem F4_refuted :
  (guard_F4 fx_before_F4 h_aged 0 (secs 1000) = true /\
   rfc_remaining h_aged 0 (secs 1000) = Some (secs 1) /\
   http_store_hdr fx_before_F4 true h_aged 0 (secs 1000) (secs 1000) = Some (secs 3600)) /\
  (guard_F4 fx_before_F4 h_badexp (secs 5) (secs 1000) = true /\
   rfc_remaining h_badexp (secs 5) (secs 1000) = Some 0 /\
   http_store_hdr fx_before_F4 true h_badexp (secs 5) (secs 1000) (secs 1000) = Some (secs 5)).
Proof. vm_compute. splits; reflexivity. Qed.

Example F4_fixed_witness :
  http_store_hdr fx_all true h_aged 0 (secs 1000) (secs 1000) = Some (secs 1) /\
  http_store_hdr fx_all true h_badexp (secs 5) (secs 1000) (secs 1000) = None.
Proof. vm_compute. splits; reflexivity. Qed.

(** with the repair of C10-F4 (a3cbbb3): no guard *)
Theorem http_hdr_within_rfc_fixed : forall f cachable h dflt now1 now2 ttl,
  fx2 f = true -> fx4 f = true -> now1 <= now2 -> 0 <= hv_age h ->
  http_store_hdr f cachable h dflt now1 now2 = Some ttl ->
  exists l, rfc_remaining h dflt now2 = Some l /\ 0 < ttl /\ ttl <= l.
Proof. intros f cachable h dflt now1 now2 ttl H2 H4 Hn Ha. apply http_hdr_within_rfc; auto. apply guard_F4_fixed. exact H4. Qed.

Theorem http_hdr_not_stored_when_stale_fixed : forall f cachable h dflt now1 now2 l,
  fx2 f = true -> fx4 f = true -> now1 <= now2 -> 0 <= hv_age h ->
  rfc_remaining h dflt now2 = Some l -> l <= 0 ->
  http_store_hdr f cachable h dflt now1 now2 = None.
Proof. intros f cachable h dflt now1 now2 l H2 H4 Hn Ha. apply http_hdr_not_stored_when_stale; auto. apply guard_F4_fixed. exact H4. Qed.

(** ** time passing between the arrival of a response and the Set (slow body)

    [now1]: the response (its headers) arrived and the library computed the
    expiry; [now2]: [time.Until] is read, after the body has been dumped.  The
    freshness left at the time of the Set is what was left on arrival minus the
    time that has passed since. *)
Lemma rfc_current_age_mono h now1 now2 :
  now1 <= now2 -> rfc_current_age h now1 <= rfc_current_age h now2.
Proof.
  intro H. unfold rfc_current_age. destruct (hv_date h) as [d|]; [|lia].
  pose proof (secs_mono _ _ (unix_mono _ _ H)). lia.
Qed.

Theorem http_hdr_within_rfc_at_set : forall f cachable h dflt now1 now2 ttl,
  fx2 f = true -> fx4 f = true -> now1 <= now2 -> 0 <= hv_age h ->
  http_store_hdr f cachable h dflt now1 now2 = Some ttl ->
  exists l, rfc_remaining h dflt now1 = Some l /\ 0 < ttl /\ ttl <= l - (now2 - now1).
Proof.
  intros f cachable h dflt now1 now2 ttl H2 H4 Hn Hage Hs.
  pose proof (rfc_current_age_mono h now1 now2 Hn) as Hmono.
  unfold http_store_hdr in Hs. rewrite H4 in Hs. simpl in Hs.
  destruct (bad_expires h) eqn:Eb; [discriminate|].
  destruct (http_store_decision f cachable (lib_expires h now1) dflt now1 now2) as [t0|] eqn:Ec; [|discriminate].
  rewrite current_age_spec in Hs.
  destruct (t0 - rfc_current_age h now2 <=? 0) eqn:Et; inversion Hs; subst ttl.
  unfold http_store_decision in Ec. destruct cachable; simpl in Ec; [|discriminate]. rewrite H2 in Ec. simpl in Ec.
  unfold rfc_remaining, lifetime_or_default, rfc_lifetime. unfold lib_expires, bad_expires in *.
  destruct (hv_maxage h) as [m|].
  - destruct (now1 + m - now2 <=? 0); inversion Ec; subst. eexists; split; [reflexivity|]. simpl. lia.
  - destruct (hv_expires h) as [[x|]|]; try discriminate.
    + destruct (hv_date h) as [d|].
      * destruct (now1 + (x - d) - now2 <=? 0); inversion Ec; subst. eexists; split; [reflexivity|]. simpl. lia.
      * destruct (x - now2 <=? 0); inversion Ec; subst. eexists; split; [reflexivity|]. simpl. lia.
    + destruct (dflt =? 0) eqn:Ed; [discriminate|].
      destruct (now1 + dflt - now2 <=? 0); inversion Ec; subst. eexists; split; [reflexivity|]. simpl. lia.
Qed.

(** so a response that has gone stale while its body was still arriving is not stored *)
Theorem http_hdr_not_stored_when_stale_at_set : forall f cachable h dflt now1 now2 l,
  fx2 f = true -> fx4 f = true -> now1 <= now2 -> 0 <= hv_age h ->
  rfc_remaining h dflt now1 = Some l -> l <= now2 - now1 ->
  http_store_hdr f cachable h dflt now1 now2 = None.
Proof.
  intros f cachable h dflt now1 now2 l H2 H4 Hn Hage Hl Hle.
  destruct (http_store_hdr f cachable h dflt now1 now2) as [ttl|] eqn:Es; [|reflexivity].
  destruct (http_hdr_within_rfc_at_set _ _ _ _ _ _ _ H2 H4 Hn Hage Es) as (l' & Hl' & Hp & Hb).
  rewrite Hl in Hl'. inversion Hl'; subst. lia.
Qed.

Theorem nonpositive_disables_fixed : forall f m conf rule c,
  fx3 f = true ->
  m <> MJwtFin ->
  spec_cfg m conf rule = Some c -> c <= 0 ->
  let st := withconfig_ttl f m (create_ttl m conf) rule in
  lookup_enabled m st = false /\ forall exp now, store f m st exp now = None.
Proof. intros f m conf rule c Hf Hm Hc Hle. apply (nonpositive_disables f m conf rule c); auto. apply guard_F3_fixed. exact Hf. Qed.

(** non-vacuity under the repaired code: a mechanism history and a round-tripper
    history that contain a hit, an aged response that is still stored *)
Example nonvacuous_fixed :
  (exists t v, In (Hit t v) (run Redis (lookup_enabled MIntro s300) (mech_policy fx_all MIntro s300) (secs 1000) []
      [Req 1 {| r_id := 7; r_exp := Some 1100 |} 0; Adv (secs 50); Req 1 {| r_id := 8; r_exp := Some 1300 |} 0])) /\
  (exists t v, In (Hit t v) (run Mem true (http_policy fx_all 0) (secs 1000) []
      [Req 1 {| r_id := 7; r_exp := Some (secs 1010) |} 0; Adv (secs 5); Req 1 {| r_id := 8; r_exp := Some (secs 1020) |} 0])) /\
  http_store_hdr fx_all true h_aged 0 (secs 1000) (secs 1000) = Some (secs 1).
Proof.
  split; [|split].
  - eexists _, _. vm_compute. right. left. reflexivity.
  - eexists _, _. vm_compute. right. left. reflexivity.
  - vm_compute. reflexivity.
Qed.
